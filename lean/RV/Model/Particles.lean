/-
  Model of REBOUND's particle bookkeeping (property C14).

  mirrors  src/particle.c:49-75      reb_simulation_add_local  (growth loop, tree errors)
           src/particle.c:213-247    reb_search_lookup_table   (binary search, `index < N` test)
           src/particle.c:255-283    reb_update_particle_lookup_table (zero-hash special case, qsort)
           src/particle.c:285-299    reb_simulation_particle_by_hash  (lazy rebuild)
           src/particle.c:337-344    reb_simulation_remove_all_particles
           src/particle.c:346-448    reb_simulation_remove_particle   (four paths + N==1 shortcut)
           src/particle.c:450-460    reb_simulation_remove_particle_by_hash
           src/tools.c:1523-1579     reb_murmur3_32 / reb_hash
           rebound/particles.py      index normalisation, slices
  The model is of the code that exists, not of what it should do.  The four places where
  the current source departs from the documented behaviour (findings F4, F18) are switchable by a
  `Variant`, so that the same definitions describe the current source (`Variant.current`,
  all flags off) and the repaired one (`Variant.repaired`); the check determines on the real
  code which variant it is running against.

  Memory is explicit: `mem` is the allocated particle array (length = what was `realloc`ed),
  `nAlloc` the field `N_allocated`; every read/write goes through `mem[i]?` and produces
  `Out.fault` when out of bounds (proved unreachable in RV/Props/C14.lean).
  `qsort` is a parameter (`Sorter`): C leaves the order of equal keys unspecified.
  Mathlib-free: the native driver drv_c14 links this file.
-/
namespace RV.Particles

/-- one particle: ghost identity, hash (uint32 value as a `Nat`; the code only compares
    hashes), and the "flagged for removal by the tree" mark (`y = NaN`). -/
structure P where
  id : Nat
  hash : Nat
  flagged : Bool
deriving DecidableEq, Repr, Inhabited

/-- a `memset(0)` slot -/
def P.zero : P := ⟨0, 0, false⟩

/-- `struct reb_hash_pointer_pair` -/
structure Entry where
  hash : Nat
  index : Nat
deriving DecidableEq, Repr, Inhabited

/-- which of the F4 repairs are present in the source being modelled -/
structure Variant where
  /-- range check before the `N==1` shortcut (F4a) -/
  rangeFirst : Bool
  /-- `tree_root` test before the array is shifted in the sorted path (F4b) -/
  treeFirst : Bool
  /-- the `N==1` shortcut clamps `N_active` to the new `N` (F4c) -/
  lastClamp : Bool
  /-- unsorted removal clamps `N_active` to the new `N` (F4d) -/
  unsortedClamp : Bool
  /-- removing the last particle and `remove_all` delete the tree (`reb_tree_delete`) (F18) -/
  resetTree : Bool
  /-- the MERCURIUS `dcrit` shift loop stays inside the `dcrit` allocation (F4g) -/
  dcritBounded : Bool
  /-- `dcrit` is shifted only when the particle array is shifted, not before a refusal (F4g) -/
  dcritWithParticles : Bool
  /-- the tree update clamps `N_active` to the new `N` after evicting flagged particles (F4h) -/
  evictClamp : Bool
deriving DecidableEq, Repr

/-- the source before fixes/F4.diff -/
def Variant.original : Variant := ⟨false, false, false, false, false, false, false, false⟩
/-- the source as it is now (fixes/F4.diff applied) -/
def Variant.current : Variant := ⟨true, true, true, true, true, false, false, false⟩
/-- the source with fixes/F4g.diff and fixes/F4h.diff applied as well -/
def Variant.repaired : Variant := ⟨true, true, true, true, true, true, true, true⟩

structure State where
  mem : List P            -- r->particles, all allocated slots
  nAlloc : Nat            -- r->N_allocated
  N : Nat                 -- r->N
  nActive : Int           -- r->N_active  (-1 = unset)
  nVar : Nat              -- r->N_var
  lookup : List Entry     -- r->particle_lookup_table[0 .. N_lookup)
  treeCfg : Bool          -- gravity==TREE || collision==TREE || collision==LINETREE
  boxCfg : Bool           -- root_size != -1
  treeRoot : Bool         -- r->tree_root != NULL
  forceSorted : Bool      -- integrator is MERCURIUS or TRACE
  staleLeaf : Bool        -- the tree still holds the leaf (pt = 0) of a particle removed by the N==1 shortcut
  mercurius : Bool        -- integrator is MERCURIUS (then `forceSorted` is set as well)
  dcrit : List Nat        -- r->ri_mercurius.dcrit[0 .. N_allocated_dcrit): the doubles, as opaque bit patterns
  recalcR : Bool          -- ri_mercurius.recalculate_r_crit_this_timestep
  recalcC : Bool          -- ri_mercurius.recalculate_coordinates_this_timestep
deriving Repr, DecidableEq

def State.nLookup (c : State) : Nat := c.lookup.length

def State.init (treeCfg boxCfg forceSorted : Bool) (mercurius : Bool := false) : State :=
  { mem := [], nAlloc := 0, N := 0, nActive := -1, nVar := 0, lookup := [],
    treeCfg := treeCfg, boxCfg := boxCfg, treeRoot := false, forceSorted := forceSorted || mercurius,
    staleLeaf := false, mercurius := mercurius, dcrit := [], recalcR := false, recalcC := false }

/-- where the particle handed to `add` lies -/
inductive Geo
  | inBox            -- accepted
  | outsideBoundary  -- `reb_boundary_particle_is_in_box` = 0
  | outsideTreeBox   -- |x| > boxsize/2 with a tree
deriving DecidableEq, Repr

inductive Out
  | ok                  -- add: particle stored
  | errOutsideBoundary  -- "Particle outside of box boundaries. Did not add particle."
  | errNoBox            -- "root_size is -1. ..."
  | errOutsideTreeBox   -- "Cannot add particle outside of simulation box."
  | errSameCoords       -- "Cannot add two particles with the same coordinates to the tree." (particle stored all the same)
  | removed             -- remove: return 1
  | lastRemoved         -- remove: return 1, warning "Last particle removed."
  | errRange            -- return 0, "Index %d passed to particles_remove was out of range"
  | errMegno            -- return 0, "Removing particles not supported when calculating MEGNO"
  | errTreeSorted       -- return 0, "REBOUND cannot remove a particle a tree and keep the particles sorted"
  | errNotFound         -- return 0, "Particle to be removed not found in simulation"
  | found (i : Nat)     -- particle_by_hash: &particles[i]
  | notFound            -- particle_by_hash: NULL
  | done                -- void operations
  | errIndex            -- Python container: index out of range (AttributeError)
  | fault               -- an access outside the allocated storage (never produced, see c14_no_fault)
deriving DecidableEq, Repr

/-! ## add -/

/-- `while (N_allocated <= N) { N_allocated = N_allocated ? 2*N_allocated : 128; realloc; memset }` -/
def grow (mem : List P) (na n : Nat) : List P × Nat :=
  if na ≤ n then
    let na' := if na = 0 then 128 else na * 2
    grow (mem ++ List.replicate (na' - na) P.zero) na' n
  else (mem, na)
termination_by n + 1 - na
decreasing_by split <;> omega

/-- `particles[i] = p` with the bound made explicit -/
def writeAt (mem : List P) (i : Nat) (p : P) : Option (List P) :=
  if i < mem.length then some (mem.set i p) else none

/-- `reb_simulation_add_local` after `(r->N)++`: MERCURIUS in its WHFast part (mode 0, i.e. between
    steps) asks for `dcrit` and the coordinates to be recomputed at the next step (particle.c:76-81) -/
def addTail (c : State) : State :=
  if c.mercurius then { c with recalcR := true, recalcC := true } else c

def addCore (c : State) (p : P) (g : Geo) : State × Out :=
  if g = .outsideBoundary then (c, .errOutsideBoundary) else
  let (m1, na1) := grow c.mem c.nAlloc c.N
  match writeAt m1 c.N p with
  | none => (c, .fault)
  | some m2 =>
    let c1 := { c with mem := m2, nAlloc := na1 }
    if c.treeCfg then
      if !c.boxCfg then (c1, .errNoBox)
      else if g = .outsideTreeBox then (c1, .errOutsideTreeBox)
      else if c.staleLeaf then
        -- the tree's only leaf has pt = 0 = the slot just written: the new particle is compared with itself
        ({ c1 with treeRoot := true, N := c.N + 1, staleLeaf := false }, .errSameCoords)
      else ({ c1 with treeRoot := true, N := c.N + 1 }, .ok)
    else ({ c1 with N := c.N + 1 }, .ok)

/-- `reb_simulation_add` -/
def add (c : State) (p : P) (g : Geo) : State × Out :=
  let r := addCore c p g
  if r.2 = .ok ∨ r.2 = .errSameCoords then (addTail r.1, r.2) else r

/-! ## lookup by hash -/

inductive SRes
  | hit (i : Nat)
  | miss
  | fault
deriving DecidableEq, Repr

/-- the `while (left <= right)` loop of `reb_search_lookup_table` -/
def bsearch (t : List Entry) (h N : Nat) (left right : Int) : SRes :=
  if _hlr : left ≤ right then
    let middle := (left + right) / 2
    if _hm : middle < 0 then .fault else
    match t[middle.toNat]? with
    | none => .fault
    | some e =>
      if e.hash < h then bsearch t h N (middle + 1) right
      else if e.hash > h then bsearch t h N left (middle - 1)
      else if e.index < N then .hit e.index else .miss
  else .miss
termination_by (right + 1 - left).toNat
decreasing_by all_goals omega

/-- `reb_search_lookup_table` (a NULL table has `N_lookup = 0`) -/
def search (t : List Entry) (h N : Nat) : SRes :=
  bsearch t h N 0 ((t.length : Int) - 1)

/-- table slot write during the rebuild: slot `k` of the first `t.length` initialised
    slots, or the next one; anything else would touch an uninitialised slot. -/
def tblWrite (t : List Entry) (k : Nat) (e : Entry) : Option (List Entry) :=
  if k < t.length then some (t.set k e)
  else if k = t.length then some (t ++ [e])
  else none

/-- the `for (i=0;i<N;i++)` loop of `reb_update_particle_lookup_table`;
    `t` = first `N_hash` slots, `zh` = `zerohash` (`none` = -1), `i` = loop index -/
def rebuildLoop : List P → Nat → List Entry → Option Nat → Option (List Entry)
  | [], _, t, _ => some t
  | p :: ps, i, t, zh =>
    if p.hash = 0 then
      match zh with
      | none =>
        -- zerohash = i; table[zerohash] = (0, i); N_hash++
        match tblWrite t i ⟨p.hash, i⟩ with
        | none => none
        | some t' => if t'.length = t.length + 1 then rebuildLoop ps (i + 1) t' (some i) else none
      | some z =>
        -- table[zerohash].index = i
        match t[z]? with
        | none => none
        | some e => rebuildLoop ps (i + 1) (t.set z ⟨e.hash, i⟩) (some z)
    else
      -- table[N_hash] = (hash, i); N_hash++
      rebuildLoop ps (i + 1) (t ++ [⟨p.hash, i⟩]) zh

/-- C's `qsort` with `compare_hash`: some function returning a sorted permutation -/
structure Sorter where
  f : List Entry → List Entry

/-- `reb_update_particle_lookup_table` -/
def rebuild (srt : Sorter) (c : State) : Option State :=
  match rebuildLoop (c.mem.take c.N) 0 [] none with
  | none => none
  | some t => some { c with lookup := srt.f t }

/-- `reb_update_particle_lookup_table(r); p = reb_search_lookup_table(r, hash);` -/
def lookupAgain (srt : Sorter) (c : State) (h : Nat) : State × Out :=
  match rebuild srt c with
  | none => (c, .fault)
  | some c' =>
    match search c'.lookup h c'.N with
    | .hit i => (c', .found i)
    | .miss => (c', .notFound)
    | .fault => (c', .fault)

/-- `reb_simulation_particle_by_hash` -/
def particleByHash (srt : Sorter) (c : State) (h : Nat) : State × Out :=
  match search c.lookup h c.N with
  | .fault => (c, .fault)
  | .miss => lookupAgain srt c h
  | .hit i =>
    match c.mem[i]? with
    | none => (c, .fault)
    | some p => if p.hash = h then (c, .found i) else lookupAgain srt c h

/-! ## removal -/

/-- `for (j=index; j<N; j++) particles[j] = particles[j+1];`  (`cnt` = iterations left) -/
def shiftLoop {α : Type} (mem : List α) (j : Nat) : Nat → Option (List α)
  | 0 => some mem
  | cnt + 1 =>
    match mem[j + 1]? with
    | none => none
    | some x => if j < mem.length then shiftLoop (mem.set j x) (j + 1) cnt else none

def clampActive (na : Int) (n : Nat) : Int := if na > (n : Int) then (n : Int) else na

/-- the `if (r->N==1){ r->N = 0; … return 1; }` shortcut (particle.c:403-410) -/
def removeShortcut (v : Variant) (c : State) : State × Out :=
  ({ c with N := 0, nActive := if v.lastClamp then clampActive c.nActive 0 else c.nActive,
            treeRoot := if v.resetTree then false else c.treeRoot,
            staleLeaf := if v.resetTree then false else (c.treeRoot || c.staleLeaf) }, .lastRemoved)

/-- sorted path (particle.c:421-435): `N--`, `N_active` adjustment, shift loop, tree test -/
def removeSorted (v : Variant) (c : State) (index : Int) : State × Out :=
  if v.treeFirst && c.treeRoot then (c, .errTreeSorted) else
  let n' := c.N - 1
  let na' := if index < c.nActive then c.nActive - 1 else c.nActive
  match shiftLoop c.mem index.toNat (n' - index.toNat) with
  | none => (c, .fault)
  | some m' =>
    let c' := { c with mem := m', N := n', nActive := na' }
    if c.treeRoot then (c', .errTreeSorted) else (c', .removed)

/-- unsorted path (particle.c:436-448): flag for the tree, or move the last particle into the hole -/
def removeUnsorted (v : Variant) (c : State) (index : Int) : State × Out :=
  if c.treeRoot then
    match c.mem[index.toNat]? with
    | none => (c, .fault)
    | some p => ({ c with mem := c.mem.set index.toNat { p with flagged := true } }, .removed)
  else
    let n' := c.N - 1
    match c.mem[n']? with
    | none => (c, .fault)
    | some last =>
      match writeAt c.mem index.toNat last with
      | none => (c, .fault)
      | some m' =>
        ({ c with mem := m', N := n',
                  nActive := if v.unsortedClamp then clampActive c.nActive n' else c.nActive }, .removed)

/-- everything after the shortcut and the range check -/
def removeRest (v : Variant) (c : State) (index : Int) (ks : Bool) : State × Out :=
  if c.nVar ≠ 0 then (c, .errMegno)
  else if ks then removeSorted v c index
  else removeUnsorted v c index

def rangeBad (c : State) (index : Int) : Bool := decide (index ≥ (c.N : Int)) || decide (index < 0)

/-- `reb_simulation_remove_particle` without the MERCURIUS `dcrit` array -/
def removeCore (v : Variant) (c : State) (index : Int) (keepSorted : Bool) : State × Out :=
  let ks := keepSorted || c.forceSorted
  if v.rangeFirst then
    if rangeBad c index then (c, .errRange)
    else if c.N = 1 then removeShortcut v c else removeRest v c index ks
  else
    if c.N = 1 then removeShortcut v c
    else if rangeBad c index then (c, .errRange) else removeRest v c index ks

/-- the MERCURIUS prologue (particle.c:347-355):
    `if (N_allocated_dcrit>0 && index<(int)N_allocated_dcrit) for (i=0;i<N-1;i++) if ((int)i>=index) dcrit[i] = dcrit[i+1];`
    The loop bound is `N-1`, not the size of `dcrit`: particles added since the last step are
    not covered by `dcrit` and the loop runs past its end (F4g) unless `v.dcritBounded`. -/
def dcritShift (v : Variant) (c : State) (index : Int) : Option State :=
  if c.mercurius && decide (0 < c.dcrit.length) && decide (index < (c.dcrit.length : Int)) then
    let top := if v.dcritBounded then min c.N c.dcrit.length else c.N
    match shiftLoop c.dcrit index.toNat (top - 1 - index.toNat) with
    | none => none
    | some d => some { c with dcrit := d }
  else some c

/-- `reb_simulation_remove_particle`.  `removeCore` never looks at `dcrit`, so the prologue
    (current source: straight after the range check, before any refusal) and the repaired placement
    (together with the shift of the particle array) are both written as a wrapper. -/
def remove (v : Variant) (c : State) (index : Int) (keepSorted : Bool) : State × Out :=
  if v.dcritWithParticles then
    let r := removeCore v c index keepSorted
    if r.2 = .removed then
      match dcritShift v c index with
      | none => (c, .fault)
      | some c1 => ({ r.1 with dcrit := c1.dcrit }, r.2)
    else r
  else if v.rangeFirst && rangeBad c index then (c, .errRange)
  else
    match dcritShift v c index with
    | none => (c, .fault)
    | some c1 => removeCore v c1 index keepSorted

/-- `reb_simulation_remove_particle_by_hash` -/
def removeByHash (v : Variant) (srt : Sorter) (c : State) (h : Nat) (keepSorted : Bool) : State × Out :=
  match particleByHash srt c h with
  | (c', .found i) => remove v c' (i : Int) keepSorted     -- reb_simulation_particle_index(p) = i
  | (c', .notFound) => (c', .errNotFound)
  | (c', _) => (c', .fault)

/-- `reb_simulation_remove_all_particles` (the lookup table is left as it is) -/
def removeAll (v : Variant) (c : State) : State × Out :=
  ({ c with N := 0, nAlloc := 0, nActive := -1, nVar := 0, mem := [],
            treeRoot := if v.resetTree then false else c.treeRoot,
            staleLeaf := if v.resetTree then false else c.staleLeaf }, .done)

/-- `sim.particles[idx].hash = h` -/
def setHash (c : State) (idx h : Nat) : State × Out :=
  if idx < c.N then
    match c.mem[idx]? with
    | none => (c, .fault)
    | some p => ({ c with mem := c.mem.set idx { p with hash := h } }, .done)
  else (c, .errIndex)

/-- `sim.N_active = k`  (the user may only store -1 ≤ k ≤ N) -/
def setActive (c : State) (k : Int) : State × Out :=
  if -1 ≤ k ∧ k ≤ (c.N : Int) then ({ c with nActive := k }, .done) else (c, .errIndex)

/-- one eviction in `reb_simulation_update_tree_cell` (tree.c:198-215) of the leaf of particle `q`:
    `if (r->N){ r->N--; particles[q] = particles[r->N]; }` — the particle is flagged, so it is not re-inserted -/
def evict (c : State) (q : Nat) : Option State :=
  if c.N = 0 then some c else
  match c.mem[c.N - 1]? with
  | none => none
  | some last =>
    match writeAt c.mem q last with
    | none => none
    | some m => some { c with mem := m, N := c.N - 1 }

def isFlaggedAt (c : State) (q : Nat) : Bool :=
  decide (q < c.N) && (match c.mem[q]? with | some p => p.flagged | none => false)

/-- the evictions of one tree walk, in the order `visit` in which the walk meets the flagged leaves
    (positions at the time of the visit; the order depends on the geometry of the tree and is given
    by the implementation).  `none` = the list names a particle that is not flagged. -/
def evictAll : State → List Nat → Option (Option State)
  | c, [] => some (some c)
  | c, q :: rest =>
    if isFlaggedAt c q then
      match evict c q with
      | none => some none          -- memory fault
      | some c' => evictAll c' rest
    else none

/-- `reb_simulation_update_tree` on a simulation whose particles have not moved: the second phase of a
    removal in tree mode.  Rejected (`errIndex`, nothing done) unless `visit` evicts exactly the flagged particles. -/
def treeUpdate (v : Variant) (c : State) (visit : List Nat) : State × Out :=
  match evictAll c visit with
  | none => (c, .errIndex)
  | some none => (c, .fault)
  | some (some c') =>
    if (c'.mem.take c'.N).any (·.flagged) then (c, .errIndex)
    else ({ c' with treeRoot := true,
                    nActive := if v.evictClamp then clampActive c'.nActive c'.N else c'.nActive }, .done)

/-- a time step under MERCURIUS (`reb_integrator_mercurius_part1`, integrator_mercurius.c:436-475) as far as
    the bookkeeping is concerned: `dcrit` is (re)allocated for all `N` particles and recomputed (`vals` = the new
    array, given by the implementation), the request for new critical radii is cleared; the synchronisation at the
    end of the step (`safe_mode`, the default) asks for new coordinates again (integrator_mercurius.c:543) -/
def integratorStep (c : State) (vals : List Nat) : State × Out :=
  if c.mercurius && decide (c.N ≤ vals.length) then
    ({ c with dcrit := vals, recalcR := false, recalcC := true }, .done)
  else (c, .errIndex)

inductive Op
  | treeUpdate (visit : List Nat)
  | integratorStep (vals : List Nat)
  | add (p : P) (g : Geo)
  | remove (index : Int) (keepSorted : Bool)
  | removeByHash (h : Nat) (keepSorted : Bool)
  | lookup (h : Nat)
  | setHash (idx h : Nat)
  | setActive (k : Int)
  | removeAll
deriving Repr

def step (v : Variant) (srt : Sorter) (c : State) : Op → State × Out
  | .add p g => add c p g
  | .remove i ks => remove v c i ks
  | .removeByHash h ks => removeByHash v srt c h ks
  | .lookup h => particleByHash srt c h
  | .setHash i h => setHash c i h
  | .setActive k => setActive c k
  | .removeAll => removeAll v c
  | .treeUpdate visit => treeUpdate v c visit
  | .integratorStep vals => integratorStep c vals

/-- run a history; every operation comes with the `qsort` behaviour in force when it runs -/
def run (v : Variant) : State → List (Sorter × Op) → State × List Out
  | c, [] => (c, [])
  | c, (srt, op) :: rest =>
    let (c', o) := step v srt c op
    let (c'', os) := run v c' rest
    (c'', o :: os)

/-! ## the abstract specification: a plain list and an active count -/

structure Spec where
  ps : List P
  active : Int            -- -1 = unset
  nVar : Nat
  treeCfg : Bool
  boxCfg : Bool
  treeRoot : Bool
  forceSorted : Bool
  mercurius : Bool
  dcrit : List Nat        -- critical radii: `dcrit[i]` belongs to particle `i` for `i < min N dcrit.length`
  recalcR : Bool
  recalcC : Bool
deriving Repr, DecidableEq

def Spec.activeCount (s : Spec) : Option Nat := if s.active < 0 then none else some s.active.toNat

def abs (c : State) : Spec :=
  { ps := c.mem.take c.N, active := c.nActive, nVar := c.nVar, treeCfg := c.treeCfg,
    boxCfg := c.boxCfg, treeRoot := c.treeRoot, forceSorted := c.forceSorted,
    mercurius := c.mercurius, dcrit := c.dcrit, recalcR := c.recalcR, recalcC := c.recalcC }

def Spec.addCore (s : Spec) (p : P) (g : Geo) : Spec × Out :=
  if g = .outsideBoundary then (s, .errOutsideBoundary)
  else if s.treeCfg then
    if !s.boxCfg then (s, .errNoBox)
    else if g = .outsideTreeBox then (s, .errOutsideTreeBox)
    else ({ s with ps := s.ps ++ [p], treeRoot := true }, .ok)
  else ({ s with ps := s.ps ++ [p] }, .ok)

/-- a particle that has been stored makes MERCURIUS recompute `dcrit` and its coordinates at the next step -/
def Spec.add (s : Spec) (p : P) (g : Geo) : Spec × Out :=
  let r := s.addCore p g
  if r.2 = .ok ∨ r.2 = .errSameCoords then
    (if s.mercurius then { r.1 with recalcR := true, recalcC := true } else r.1, r.2)
  else r

/-- removal from a list of at least two, valid index -/
def Spec.removeMany (s : Spec) (index : Int) (ks : Bool) : Spec × Out :=
  if s.nVar ≠ 0 then (s, .errMegno)
  else if ks then
    if s.treeRoot then (s, .errTreeSorted)
    else ({ s with ps := s.ps.eraseIdx index.toNat,
                   active := if index < s.active then s.active - 1 else s.active }, .removed)
  else if s.treeRoot then
    ({ s with ps := s.ps.modify index.toNat (fun p => { p with flagged := true }) }, .removed)
  else
    match s.ps.getLast? with
    | none => (s, .errRange)
    | some last =>
      ({ s with ps := (s.ps.set index.toNat last).dropLast,
                active := clampActive s.active (s.ps.length - 1) }, .removed)

/-- documented removal: invalid requests fail and change nothing; sorted removal erases one
    element and decrements the active count if an active particle went; unsorted removal
    moves the last element into the hole; the active count never exceeds the length;
    removing the last particle also drops the tree. -/
def Spec.removeCore (s : Spec) (index : Int) (keepSorted : Bool) : Spec × Out :=
  if index < 0 ∨ index ≥ (s.ps.length : Int) then (s, .errRange)
  else if s.ps.length = 1 then
    ({ s with ps := [], active := clampActive s.active 0, treeRoot := false }, .lastRemoved)
  else s.removeMany index (keepSorted || s.forceSorted)

/-- `dcrit` after the particle at `index` has been erased from the array: the critical radii of the
    `m = min N dcrit.length` particles that have one move with their particles; the slots behind keep
    what they held (slot `m-1` is duplicated) -/
def dcritErased (dcrit : List Nat) (n : Nat) (index : Int) : List Nat :=
  if 0 < dcrit.length ∧ index < (dcrit.length : Int) then
    let m := min n dcrit.length
    (dcrit.take m).eraseIdx index.toNat ++ dcrit.drop (m - 1)
  else dcrit

/-- documented removal, MERCURIUS' critical radii included: they follow their particles when (and only
    when) the particle array is shifted -/
def Spec.remove (s : Spec) (index : Int) (keepSorted : Bool) : Spec × Out :=
  let r := s.removeCore index keepSorted
  if r.2 = .removed ∧ s.mercurius then ({ r.1 with dcrit := dcritErased s.dcrit s.ps.length index }, r.2)
  else r

/-- second phase of a removal in tree mode: the flagged particles are gone, the others are all still
    there (in an order that depends on the tree walk) -/
def Spec.TreeUpdated (s s' : Spec) : Prop :=
  s'.ps.Perm (s.ps.filter (fun p => !p.flagged)) ∧
  s' = { s with ps := s'.ps, treeRoot := true, active := clampActive s.active s'.ps.length }

def Spec.integratorStep (s : Spec) (vals : List Nat) : Spec × Out :=
  if s.mercurius && decide (s.ps.length ≤ vals.length) then
    ({ s with dcrit := vals, recalcR := false, recalcC := true }, .done)
  else (s, .errIndex)

def Spec.setHash (s : Spec) (idx h : Nat) : Spec × Out :=
  if idx < s.ps.length then ({ s with ps := s.ps.modify idx (fun p => { p with hash := h }) }, .done)
  else (s, .errIndex)

def Spec.setActive (s : Spec) (k : Int) : Spec × Out :=
  if -1 ≤ k ∧ k ≤ (s.ps.length : Int) then ({ s with active := k }, .done) else (s, .errIndex)

def Spec.removeAll (s : Spec) : Spec × Out :=
  ({ s with ps := [], active := -1, nVar := 0, treeRoot := false }, .done)

/-- lookup by hash is specified only up to the choice among equal hashes -/
def Spec.LookupOK (s : Spec) (h : Nat) : Out → Prop
  | .found i => ∃ p, s.ps[i]? = some p ∧ p.hash = h
  | .notFound => ∀ p ∈ s.ps, p.hash ≠ h
  | _ => False

/-- `SpecStep s op o s'`: the abstract machine may answer `o` and move to `s'` -/
def SpecStep (s : Spec) : Op → Out → Spec → Prop
  | .add p g, o, s' => (s', o) = s.add p g
  | .remove i ks, o, s' => (s', o) = s.remove i ks
  | .removeByHash h ks, o, s' =>
      ((∀ p ∈ s.ps, p.hash ≠ h) ∧ o = .errNotFound ∧ s' = s) ∨
      (∃ (i : Nat) (p : P), s.ps[i]? = some p ∧ p.hash = h ∧ (s', o) = s.remove (i : Int) ks)
  | .lookup h, o, s' => s' = s ∧ s.LookupOK h o
  | .setHash i h, o, s' => (s', o) = s.setHash i h
  | .setActive k, o, s' => (s', o) = s.setActive k
  | .removeAll, o, s' => (s', o) = s.removeAll
  | .treeUpdate _, o, s' => (o = .errIndex ∧ s' = s) ∨ (o = .done ∧ s.TreeUpdated s')
  | .integratorStep vals, o, s' => (s', o) = s.integratorStep vals

inductive SpecRun : Spec → List Op → List Out → Spec → Prop
  | nil (s) : SpecRun s [] [] s
  | cons {s s' s'' op o ops os} : SpecStep s op o s' → SpecRun s' ops os s'' →
      SpecRun s (op :: ops) (o :: os) s''

/-! ## Python container: index normalisation and slices (rebound/particles.py:40-49) -/

/-- `sim.particles[k]` for an integer key: negative keys count from the end -/
def pyIndex (n : Nat) (k : Int) : Option Nat :=
  let k' := if k < 0 then k + n else k
  if k' < 0 ∨ k' ≥ n then none else some k'.toNat

/-- `range(start, stop, step)` as a list, `cnt` = number of elements -/
def rangeList (start step : Int) : Nat → List Int
  | 0 => []
  | cnt + 1 => start :: rangeList (start + step) step cnt

/-- CPython `slice.indices(len)` (`PySlice_AdjustIndices`): the normalised `(start, stop)` for a non-zero
    `step`.  Omitted bounds are the ends in the direction of travel; negative bounds count from the end;
    everything is clamped to `[0, len]` (step > 0) or `[-1, len-1]` (step < 0). -/
def pySliceBounds (n : Nat) (start stop : Option Int) (step : Int) : Int × Int :=
  let len : Int := n
  let lower : Int := if step < 0 then -1 else 0
  let upper : Int := if step < 0 then len - 1 else len
  let adj (x : Int) : Int :=
    if x < 0 then (if x + len < lower then lower else x + len) else (if x > upper then upper else x)
  let s := match start with | none => (if step < 0 then upper else lower) | some x => adj x
  let e := match stop with | none => (if step < 0 then lower else upper) | some x => adj x
  (s, e)

/-- `len(range(s, e, step))` -/
def rangeCount (s e step : Int) : Nat :=
  (if step > 0 then (if s < e then (e - s - 1) / step + 1 else 0)
   else (if e < s then (s - e - 1) / (-step) + 1 else 0)).toNat

/-- `sim.particles[start:stop:step]` = `[self[i] for i in range(*key.indices(len(self)))]`: the indices;
    `step ≠ 0` is checked by the caller (Python raises ValueError) -/
def pySlice (n : Nat) (start stop : Option Int) (step : Int) : List Int :=
  let b := pySliceBounds n start stop step
  rangeList b.1 step (rangeCount b.1 b.2 step)

/-! ## reb_hash = MurmurHash3_x86_32 with seed 1983 (tools.c:1523-1579) -/

def rot32 (x : UInt32) (r : UInt32) : UInt32 := (x <<< r) ||| (x >>> (32 - r))

def c1 : UInt32 := 0xcc9e2d51
def c2 : UInt32 := 0x1b873593

def mixK (k : UInt32) : UInt32 := rot32 (k * c1) 15 * c2

/-- little-endian 32-bit load, as `blocks[i]` on x86 -/
def le32 (a b c d : UInt8) : UInt32 :=
  a.toUInt32 ||| (b.toUInt32 <<< 8) ||| (c.toUInt32 <<< 16) ||| (d.toUInt32 <<< 24)

/-- body blocks, then the `switch (len & 3)` tail -/
def murmurBody : UInt32 → List UInt8 → UInt32
  | h, a :: b :: c :: d :: rest =>
    let h := h ^^^ mixK (le32 a b c d)
    murmurBody (rot32 h 13 * 5 + 0xe6546b64) rest
  | h, [a, b, c] => h ^^^ mixK ((c.toUInt32 <<< 16) ^^^ (b.toUInt32 <<< 8) ^^^ a.toUInt32)
  | h, [a, b] => h ^^^ mixK ((b.toUInt32 <<< 8) ^^^ a.toUInt32)
  | h, [a] => h ^^^ mixK a.toUInt32
  | h, [] => h

def fmix32 (h : UInt32) : UInt32 :=
  let h := h ^^^ (h >>> 16)
  let h := h * 0x85ebca6b
  let h := h ^^^ (h >>> 13)
  let h := h * 0xc2b2ae35
  h ^^^ (h >>> 16)

def murmur3_32 (key : List UInt8) (seed : UInt32) : UInt32 :=
  fmix32 (murmurBody seed key ^^^ key.length.toUInt32)

/-- `strlen`: the key ends at the first NUL byte -/
def cstr : List UInt8 → List UInt8
  | [] => []
  | b :: r => if b = 0 then [] else b :: cstr r

def rebHash (s : List UInt8) : UInt32 := murmur3_32 (cstr s) 1983

end RV.Particles
