import RV.Scalar
import RV.Model.Sync
/-
  C09 — EOS (integrator_eos.c:305-721) at full resolution: the exact list of elementary operator
  calls (shell-1 drift, shell-1 interaction, shell-0 interaction) with their coefficients computed in
  the operation order of the C expressions, over any `[Scalar K]` (`Float`: the replay of rv/c09.py,
  bit for bit against reb_integrator_eos_part2 / _synchronize).  The schedule is obtained by
  *concretising* the abstract outer schedule `eStepOps` / `eSyncOps` of RV.Model.Sync (the one the
  theorem `c09_eos_unsafe_sync_equals_safe_partial` is about), so the replay ties that one too.
-/
namespace RV.Sync.Eos
open RV

/-- elementary operator calls -/
inductive EOp (K : Type) where
  | drift1 (τ : K)          -- reb_integrator_eos_drift_shell1:        x += τ v
  | inter1 (y v : K)        -- reb_integrator_eos_interaction_shell1:  star-planet kick (+ jerk if v ≠ 0)
  | inter0 (y v : K)        -- reb_integrator_eos_interaction_shell0:  planet-planet kick (+ jerk if v ≠ 0)
  deriving Repr

/-- the coefficient tables of integrator_eos.c (rv/c09.py extracts them into RV/Gen/C09Eos.lean) -/
structure Tab (K : Type) where
  lf4_a : K
  lf6_a : List K        -- 5
  lf8_a : List K        -- 9
  lf4_2_a : K
  lf8_6_4_a : List K    -- 4
  lf8_6_4_b : List K    -- 4
  pmlf6_a : List K      -- 2
  pmlf6_b : List K      -- 2
  pmlf6_c : List K      -- 2
  pmlf6_z : List K      -- 6
  pmlf6_y : List K      -- 6
  pmlf6_v : List K      -- 6
  pmlf4_y : List K      -- 3
  pmlf4_z : List K      -- 3
  plf7_6_4_a : List K   -- 2
  plf7_6_4_b : List K   -- 2
  plf7_6_4_z : List K   -- 6
  plf7_6_4_y : List K   -- 6

variable {K : Type} [Scalar K]

def zero : K := Scalar.zero
def half : K := Scalar.div Scalar.one (Scalar.ofNat 2)      -- 0.5, exact
def two : K := Scalar.ofNat 2
def at' (l : List K) (i : Nat) : K := l.getD i Scalar.zero
def neg (a : K) : K := Scalar.neg a
def cube (dt : K) : K := dt * dt * dt                        -- dt*dt*dt

/-- a shell: its drift and interaction operators -/
structure Shell (K : Type) where
  drift : K → List (EOp K)
  inter : K → K → List (EOp K)

/-- `reb_integrator_eos_preprocessor` -/
def pre (T : Tab K) (dt : K) (type : Nat) (sh : Shell K) : List (EOp K) :=
  match type with
  | 8 => (List.range 6).flatMap fun i => sh.drift (dt * at' T.pmlf6_z i) ++ sh.inter (dt * at' T.pmlf6_y i) (cube dt * at' T.pmlf6_v i)
  | 7 => (List.range 3).flatMap fun i => sh.inter (dt * at' T.pmlf4_y i) zero ++ sh.drift (dt * at' T.pmlf4_z i)
  | 6 => (List.range 6).flatMap fun i => sh.drift (dt * at' T.plf7_6_4_z i) ++ sh.inter (dt * at' T.plf7_6_4_y i) zero
  | _ => []

/-- `reb_integrator_eos_postprocessor` (`-dt*…` is `(-dt)*…`) -/
def post (T : Tab K) (dt : K) (type : Nat) (sh : Shell K) : List (EOp K) :=
  match type with
  | 8 => (List.range 6).reverse.flatMap fun i => sh.inter (neg dt * at' T.pmlf6_y i) (neg dt * dt * dt * at' T.pmlf6_v i) ++ sh.drift (neg dt * at' T.pmlf6_z i)
  | 7 => (List.range 3).reverse.flatMap fun i => sh.drift (neg dt * at' T.pmlf4_z i) ++ sh.inter (neg dt * at' T.pmlf4_y i) zero
  | 6 => (List.range 6).reverse.flatMap fun i => sh.inter (neg dt * at' T.plf7_6_4_y i) zero ++ sh.drift (neg dt * at' T.plf7_6_4_z i)
  | _ => []

/-- the palindromic kick/drift sequence of LF6 / LF8 between the first and last drift:
    `I(dt a₀) D(dt (a₀+a₁) ½) I(dt a₁) … I(dt a_{m-1}) … D(dt (a₀+a₁) ½) I(dt a₀)` -/
def lfUp (a : List K) (dt : K) (sh : Shell K) : Nat → Nat → List (EOp K)
  | 0, _ => []
  | fuel + 1, k =>
    if k + 1 < a.length then
      sh.inter (dt * at' a k) zero ++ sh.drift (dt * (at' a k + at' a (k + 1)) * half) ++ lfUp a dt sh fuel (k + 1)
    else sh.inter (dt * at' a k) zero

def lfDown (a : List K) (dt : K) (sh : Shell K) : Nat → List (EOp K)
  | 0 => []
  | k + 1 => sh.drift (dt * (at' a k + at' a (k + 1)) * half) ++ sh.inter (dt * at' a k) zero ++ lfDown a dt sh k

def lfSeq (a : List K) (dt : K) (sh : Shell K) : List (EOp K) :=
  lfUp a dt sh a.length 0 ++ lfDown a dt sh (a.length - 1)

/-- coefficient of the *first* drift of a kernel of the given type (also the last one, and the one
    `synchronize` applies) -/
def firstCoef (T : Tab K) (type : Nat) (dt : K) : K :=
  match type with
  | 0 | 7 => dt * half
  | 1 => dt * T.lf4_a
  | 2 => dt * at' T.lf6_a 0 * half
  | 3 => dt * at' T.lf8_a 0 * half
  | 4 => dt * T.lf4_2_a
  | 5 => dt * at' T.lf8_6_4_a 0
  | 6 => dt * at' T.plf7_6_4_a 0
  | 8 => dt * at' T.pmlf6_a 0
  | _ => zero

/-- everything of one kernel after its first drift and before its last drift / the joining drift -/
def core (T : Tab K) (type : Nat) (dt : K) (sh : Shell K) : List (EOp K) :=
  let one : K := Scalar.one
  match type with
  | 0 => sh.inter dt zero
  | 1 => sh.inter (dt * two * T.lf4_a) zero ++ sh.drift (dt * (half - T.lf4_a)) ++
         sh.inter (dt * (one - Scalar.ofNat 4 * T.lf4_a)) zero ++ sh.drift (dt * (half - T.lf4_a)) ++
         sh.inter (dt * two * T.lf4_a) zero
  | 2 => lfSeq T.lf6_a dt sh
  | 3 => lfSeq T.lf8_a dt sh
  | 4 => sh.inter (dt * half) zero ++ sh.drift (dt * (one - two * T.lf4_2_a)) ++ sh.inter (dt * half) zero
  | 5 => let a := T.lf8_6_4_a; let b := T.lf8_6_4_b
         sh.inter (at' b 0 * dt) zero ++ sh.drift (at' a 1 * dt) ++ sh.inter (at' b 1 * dt) zero ++
         sh.drift (at' a 2 * dt) ++ sh.inter (at' b 2 * dt) zero ++ sh.drift (at' a 3 * dt) ++
         sh.inter (at' b 3 * dt) zero ++ sh.drift (at' a 3 * dt) ++ sh.inter (at' b 2 * dt) zero ++
         sh.drift (at' a 2 * dt) ++ sh.inter (at' b 1 * dt) zero ++ sh.drift (at' a 1 * dt) ++
         sh.inter (at' b 0 * dt) zero
  | 6 => let a := T.plf7_6_4_a; let b := T.plf7_6_4_b
         sh.inter (at' b 0 * dt) zero ++ sh.drift (at' a 1 * dt) ++ sh.inter (at' b 1 * dt) zero ++
         sh.drift (at' a 1 * dt) ++ sh.inter (at' b 0 * dt) zero
  | 7 => sh.inter dt (cube dt / Scalar.ofNat 24)
  | 8 => let a := T.pmlf6_a; let b := T.pmlf6_b; let c := T.pmlf6_c
         sh.inter (dt * at' b 0) (cube dt * at' c 0) ++ sh.drift (dt * at' a 1) ++
         sh.inter (dt * at' b 1) (cube dt * at' c 1) ++ sh.drift (dt * at' a 1) ++
         sh.inter (dt * at' b 0) (cube dt * at' c 0)
  | _ => []

/-- the drift that joins two consecutive inner kernels (`if (i<n-1)` branches of drift_shell0) -/
def joinCoef (T : Tab K) (type : Nat) (dt : K) : K :=
  match type with
  | 0 | 7 => dt
  | 1 => dt * two * T.lf4_a
  | 2 => dt * at' T.lf6_a 0
  | 3 => dt * at' T.lf8_a 0
  | 4 => two * dt * T.lf4_2_a
  | 5 => two * dt * at' T.lf8_6_4_a 0
  | 6 => two * dt * at' T.plf7_6_4_a 0
  | 8 => two * dt * at' T.pmlf6_a 0
  | _ => zero

def shell1 : Shell K := ⟨fun τ => [.drift1 τ], fun y v => [.inter1 y v]⟩

def innerLoop (T : Tab K) (phi1 : Nat) (dt : K) : Nat → List (EOp K)
  | 0 => []
  | 1 => core T phi1 dt shell1
  | m + 2 => core T phi1 dt shell1 ++ [.drift1 (joinCoef T phi1 dt)] ++ innerLoop T phi1 dt (m + 1)

/-- `reb_integrator_eos_drift_shell0(r, _dt)`: `n` inner kernels of step `_dt/n` -/
def driftShell0 (T : Tab K) (phi1 n : Nat) (dtOuter : K) : List (EOp K) :=
  let dt := dtOuter / Scalar.ofNat n
  pre T dt phi1 shell1 ++ [.drift1 (firstCoef T phi1 dt)] ++ innerLoop T phi1 dt n ++
  [.drift1 (firstCoef T phi1 dt)] ++ post T dt phi1 shell1

def shell0 (T : Tab K) (phi1 n : Nat) : Shell K := ⟨driftShell0 T phi1 n, fun y v => [.inter0 y v]⟩

/-- concretisation of the abstract outer schedule of RV.Model.Sync: `drift k` = the scheme's first
    drift times `dtfac = k` (C: `dt*a₀*dtfac`; `dtfac = 1.` is exact), `body` = the rest of the
    `phi0` kernel incl. its last drift … which the C code does *not* have: the kernel ends with an
    interaction, its last drift is the one `synchronize` (or the next step, merged) applies. -/
def concr (T : Tab K) (phi0 phi1 n : Nat) (dt : K) : EPrim → List (EOp K)
  | .pre => pre T dt phi0 (shell0 T phi1 n)
  | .post => post T dt phi0 (shell0 T phi1 n)
  | .drift k => driftShell0 T phi1 n (firstCoef T phi0 dt * Scalar.ofNat k)
  | .body => core T phi0 dt (shell0 T phi1 n)

/-- `reb_integrator_eos_part2` -/
def part2 (T : Tab K) (phi0 phi1 n : Nat) (safe isSync : Bool) (dt : K) : List (EOp K) × Bool :=
  ((eStepOps safe isSync).1.flatMap (concr T phi0 phi1 n dt), (eStepOps safe isSync).2)

/-- `reb_integrator_eos_synchronize` -/
def sync (T : Tab K) (phi0 phi1 n : Nat) (isSync : Bool) (dt : K) : List (EOp K) × Bool :=
  ((eSyncOps isSync).1.flatMap (concr T phi0 phi1 n dt), (eSyncOps isSync).2)

end RV.Sync.Eos
