/-
  Operation-only scalar classes.  No laws, no Mathlib: models written over
  `[Scalar K]` are instantiated at `Float` (correspondence with the C code), at an
  arbitrary field (theorems, in RV/Proofs), and at `Dual K` (derivatives).
-/
namespace RV

class Scalar (K : Type) where
  zero : K
  one  : K
  add  : K → K → K
  sub  : K → K → K
  mul  : K → K → K
  div  : K → K → K
  neg  : K → K
  ofNat : Nat → K

namespace Scalar
variable {K : Type} [Scalar K]
-- low priority: over a field the field's own notation instances win in statements
instance (priority := low) instAdd : Add K := ⟨Scalar.add⟩
instance (priority := low) instSub : Sub K := ⟨Scalar.sub⟩
instance (priority := low) instMul : Mul K := ⟨Scalar.mul⟩
instance (priority := low) instDiv : Div K := ⟨Scalar.div⟩
instance (priority := low) instNeg : Neg K := ⟨Scalar.neg⟩
end Scalar

/-- scalars with a decidable order (what the C comparisons use). -/
class ScalarO (K : Type) extends Scalar K where
  lt : K → K → Bool
  le : K → K → Bool

/-- scalars with the libm functions the C code calls. -/
class ScalarT (K : Type) extends ScalarO K where
  sqrt : K → K
  sin  : K → K
  cos  : K → K
  fabs : K → K
  tan  : K → K
  atan2 : K → K → K
  acos : K → K
  asin : K → K
  atan : K → K
  exp  : K → K
  log  : K → K
  sinh : K → K
  cosh : K → K
  tanh : K → K
  acosh : K → K
  cbrt : K → K
  floor : K → K
  ceil : K → K
  pow  : K → K → K
  isFinite : K → Bool
  isNaN : K → Bool

instance : Scalar Float where
  zero := 0.0
  one := 1.0
  add := Float.add
  sub := Float.sub
  mul := Float.mul
  div := Float.div
  neg := Float.neg
  ofNat := Float.ofNat

instance : ScalarO Float where
  lt a b := a < b
  le a b := a ≤ b

instance : ScalarT Float where
  sqrt := Float.sqrt
  sin := Float.sin
  cos := Float.cos
  fabs := Float.abs
  tan := Float.tan
  atan2 := Float.atan2
  acos := Float.acos
  asin := Float.asin
  atan := Float.atan
  exp := Float.exp
  log := Float.log
  sinh := Float.sinh
  cosh := Float.cosh
  tanh := Float.tanh
  acosh := Float.acosh
  cbrt := Float.cbrt
  floor := Float.floor
  ceil := Float.ceil
  pow := Float.pow
  isFinite := Float.isFinite
  isNaN := Float.isNaN

/-- 3-vectors -/
structure V3 (K : Type) where
  x : K
  y : K
  z : K
deriving Repr, BEq, Inhabited

namespace V3
variable {K : Type} [Scalar K]
def zero : V3 K := ⟨Scalar.zero, Scalar.zero, Scalar.zero⟩
def add (a b : V3 K) : V3 K := ⟨a.x + b.x, a.y + b.y, a.z + b.z⟩
def sub (a b : V3 K) : V3 K := ⟨a.x - b.x, a.y - b.y, a.z - b.z⟩
def smul (s : K) (a : V3 K) : V3 K := ⟨s * a.x, s * a.y, s * a.z⟩
end V3

/-! Hex transport of doubles through the line protocol. -/
def hexDigit (n : Nat) : Char :=
  if n < 10 then Char.ofNat (48 + n) else Char.ofNat (87 + n)

def toHex16 (n : UInt64) : String :=
  let rec go (k : Nat) (v : Nat) (acc : List Char) : List Char :=
    match k with
    | 0 => acc
    | k+1 => go k (v / 16) (hexDigit (v % 16) :: acc)
  String.ofList (go 16 n.toNat [])

def hexVal (c : Char) : Option Nat :=
  if '0' ≤ c ∧ c ≤ '9' then some (c.toNat - 48)
  else if 'a' ≤ c ∧ c ≤ 'f' then some (c.toNat - 87)
  else if 'A' ≤ c ∧ c ≤ 'F' then some (c.toNat - 55)
  else none

def parseHex (s : String) : Option Nat :=
  s.toList.foldl (fun acc c => match acc, hexVal c with
    | some a, some d => some (a * 16 + d)
    | _, _ => none) (some 0)

def floatOfHex (s : String) : Float :=
  match parseHex s with
  | some n => Float.ofBits (UInt64.ofNat n)
  | none => 0.0 / 0.0

/-- canonical print: NaNs collapse to one token -/
def floatToHex (f : Float) : String :=
  if f.isNaN then "nan" else toHex16 f.toBits

end RV
