#!/bin/bash
# ./rv/integrate.sh C14 : clean-tree run + all seeded/<Cxx>-* runs, one summary line each
cd "$(dirname "$0")/.."
id=$1
s=$(date +%s); ./check $id > /tmp/integ-$id.log 2>&1; rc=$?; e=$(date +%s)
echo "$id clean rc=$rc wall=$((e-s))s $(grep -c '^KNOWN-FINDING' /tmp/integ-$id.log) known-finding lines; $(grep '^VIOLATION' /tmp/integ-$id.log | head -2)"
grep "lean:" /tmp/integ-$id.log | tail -1
for sd in seeded/$id-*; do
  [ -d "$sd" ] || continue
  python3 rv/seedtest.py $sd 2>&1 | python3 -c "
import sys,json,re
for l in sys.stdin:
    m=re.match(r'(C\d+) (\{.*)',l)
    if m:
        try:
            r=json.loads(m.group(2)); print('  $sd', 'CAUGHT' if r['caught'] else 'MISSED', 'rc=%s'%r['rc'], r['by'], '%ss'%r['wall_s'])
        except Exception: print('  $sd', l[:200])
"
done
