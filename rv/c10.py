"""C10 — JANUS is bit-wise time reversible; symmetric schemes reverse to rounding error.

proof:   lean/RV/Props/C10.lean — JANUS on an abstract double with the IEEE sign-symmetry
         laws as hypotheses, two's-complement int64, arbitrary force, every palindromic
         scheme, every n;  LEAPFROG / SEI / abstract palindromic splittings over a field.
tables:  lean/RV/Gen/C10Janus.lean regenerated from src/integrator_janus.c on every run
         (gamma text -> exact rationals, compiled IEEE bits, stage counts, gg index
         expressions, order switch).
tie:     drv_c10 (Float / two's complement model + its own BASIC gravity in C operation
         order) vs the compiled code: `ri_janus.p_int` and the particle doubles after every
         step, bit for bit, all orders, scales, dt signs; LEAPFROG likewise.
search:  forward n / backward n round trips on the real code: JANUS exact bits (initial
         conditions snapped to the grid by a dt=0 step), the other symmetric schemes to a
         calibrated bound plus a dt-halving discriminator.
"""
import ctypes, json, math, os, sys
sys.path.insert(0, os.path.dirname(os.path.abspath(__file__)))
from common import *
import extract_c10

MASK = (1 << 64) - 1
COMP = ["x", "y", "z", "vx", "vy", "vz"]
SCALES = [1e-16, 1e-16, 1e-15, 1e-14, 1e-12, 2.0 ** -40, 1e-10, 1e-7]
SABA_UNCORRECTED = ["1", "2", "3", "4", "10,4", "8,6,4", "10,6,4", "h8,4,4", "h8,6,4", "h10,6,4"]
EOS_UNPROCESSED = ["lf", "lf4", "lf6", "lf8", "lf4_2", "lf8_6_4"]
WH_COORDS = ["jacobi", "democraticheliocentric", "whds", "barycentric"]


# ----------------------------------------------------------------------------- dimension map
DIMS = {}
PAIRS = {}        # generator name -> coverage report of its covering array
# cross-cutting dimensions this check considers applicable to C10 (a zero count is a broken obligation)
DIM_REQUIRED = [
    "janus: gravity basic", "janus: gravity compensated", "janus: gravity none + additional force", "janus: softening != 0", "janus: G != 1",
    "janus: scale_pos != scale_vel", "janus: N_active < N, testparticle_type 0", "janus: N_active < N, testparticle_type 1",
    "janus: massless test particles", "janus: massive test particles", "janus: single active body", "janus: zero-mass active body",
    "janus: callback pre_timestep_modifications", "janus: callback post_timestep_modifications", "janus: callback additional_forces (read-only probe)",
    "janus: additional force, velocity independent", "janus: heartbeat + integrate()", "janus: dt < 0 first", "janus: step longer than the inner period",
    "janus: split calls with synchronize/energy between", "janus: save + restore mid-way", "janus: copy() mid-way", "janus: restore at the turning point",
    "janus: dt changed by the user mid-run", "janus: t0 huge (|t|/dt ~ 1e12)", "janus: COM offset + boost", "janus: N > 128", "janus: integrator name upper case",
    "janus tie: N_active < N", "janus tie: callbacks", "janus tie: additional force", "janus tie: softening", "janus tie: no snapping step",
    "sym: safe_mode = 0, synchronize only at the turning point", "sym: restore at the turning point", "sym: dt changed by the user mid-run",
    "sym: COM offset + boost (no move_to_com)", "sym: massless test particles", "sym: callbacks pre/post", "sym: additional force, velocity independent",
    "sym: variational particles with non-zero data", "sym: documented recalculation flag set by the user", "sym: dt < 0 first",
    "sym: half step pending when integrate(t) is asked to synchronize", "sym: keep_unsynchronized = 1", "sym: steps taken by integrate()", "sym: hyperbolic member", "sym: eccentric member, long steps", "sym: G != 1",
    "sei: dt changed by the user mid-run", "sei: restore at the turning point", "sei: shear boundary crossed, no self-gravity", "sei: OMEGAZ != OMEGA",
    "kepler primitive: hyperbolic dt<0 bisection", "kepler primitive: elliptic dt<0 quartic",
]


def dim(name, n=1):
    DIMS[name] = DIMS.get(name, 0) + n


def reload_sim(R, s, how, reinstall=True):
    """every public restore path that keeps the integrator state: binary file round trip, copy()"""
    if how == "copy":
        s2 = s.copy()
    else:
        path = os.path.join(os.environ.get("VERIF_TMP", "/tmp"), "c10_%d_%d.bin" % (os.getpid(), id(s) % 100000))
        if os.path.exists(path):
            os.remove(path)
        s.save_to_file(path)
        s2 = R.rb.Simulation(path)
        os.remove(path)
    s2._c10 = s._c10
    if hasattr(s, "_c10cfg"):
        s2._c10cfg = s._c10cfg
        if reinstall:
            Real.install(s2, asfc(s._c10cfg[0]), s._c10cfg[1], s2._c10)
    return s2


# ----------------------------------------------------------------------------- generators
def gen_planetary(rng, n, calm=False, moderate=False):
    """star + n-1 bodies on nested orbits (heliocentric construction, arbitrary frame offset).
    calm=True: well separated, low mass, low e (non-chaotic regime for the rounding-level schemes);
    moderate=True: the same spacing with giant-planet masses (the interaction and jump terms are
    large enough for an asymmetry in them to show within a few hundred steps)."""
    G = 1.0
    parts = [[1.0, 0.0, 0.0, 0.0, 0.0, 0.0, 0.0]]
    a = rng.uniform(0.7, 1.3)
    for i in range(1, n):
        m = rng.loguniform(1e-4, 2e-3) if moderate else (rng.loguniform(1e-9, 1e-5) if calm else rng.loguniform(1e-8, 3e-2))
        e = rng.uniform(0, 0.05) if calm else rng.uniform(0, 0.4)
        inc = rng.uniform(0, 0.05) if calm else rng.uniform(0, 0.5)
        ph = rng.uniform(0, 2 * math.pi)
        r = a * (1 - e)
        v = math.sqrt(G * (1.0 + m) * (1 + e) / r)
        x, y = r * math.cos(ph), r * math.sin(ph)
        vx, vy = -v * math.sin(ph), v * math.cos(ph)
        parts.append([m, x, y * math.cos(inc), y * math.sin(inc), vx, vy * math.cos(inc), vy * math.sin(inc)])
        a *= rng.uniform(1.5, 2.2) if calm else rng.uniform(1.25, 2.0)
    if not calm and rng.chance(0.5):     # frame offset / boost
        off = [rng.normal() * 3 for _ in range(3)] + [rng.normal() * 0.3 for _ in range(3)]
        for p in parts:
            for k in range(6):
                p[1 + k] += off[k]
    return G, parts


def gen_cloud(rng, n):
    """comparable masses, random positions, sub-virial velocities: strongly interacting"""
    G = rng.choice([1.0, 1.0, 4 * math.pi ** 2, 6.6743e-3])
    parts = []
    for i in range(n):
        parts.append([rng.loguniform(1e-3, 1.0)] + [rng.normal() * 2 for _ in range(3)] + [rng.normal() * 0.3 * math.sqrt(G) for _ in range(3)])
    return G, parts


def inner_period(G, parts):
    m0 = parts[0][0]
    best = None
    for p in parts[1:]:
        r = math.dist(p[1:4], parts[0][1:4])
        P = 2 * math.pi * math.sqrt(r ** 3 / (G * (m0 + p[0])))
        best = P if best is None else min(best, P)
    return best or 1.0


# ----------------------------------------------------------------------------- real code helpers
def mkfc(G=1.0, nactive=-1, tptype=0, k=0.0, cb=(), soft=0.0, gravity="basic", kv=0.0):
    """everything a user can configure around the force / the step that must not affect reversibility:
    N_active, testparticle_type, softening, a velocity-independent additional force a += -k x
    (installed as a ctypes `additional_forces` callback), read-only callbacks
    (cb ⊆ {pre, post, probe}: pre_/post_timestep_modifications, additional_forces), gravity routine"""
    return dict(G=G, nactive=nactive, tptype=tptype, k=k, cb=tuple(cb), soft=soft, gravity=gravity, kv=kv)


def asfc(x):
    return x if isinstance(x, dict) else mkfc(x)


def force_tokens(fc):
    fc = asfc(fc)
    return [d2h(fc["G"]), d2h(fc["soft"]), str(fc["nactive"]), str(fc["tptype"]), d2h(fc["k"]), d2h(fc.get("kv", 0.0))]


def gen_fc(rng, G, parts, full=True, extra=False):
    """random configuration; mutates the masses of `parts` when test particles are made massless.
    extra=True also varies what the Lean model does not replicate (compensated summation)."""
    n = len(parts)
    fc = mkfc(G)
    if not full:
        return fc
    if n >= 2 and rng.chance(0.4):
        fc["nactive"] = rng.randint(1, n - 1)
        fc["tptype"] = rng.randint(0, 1)
        if rng.chance(0.5):
            for p in parts[fc["nactive"]:]:
                p[0] = 0.0
    elif rng.chance(0.1):
        fc["nactive"] = n                      # explicit N_active == N
    if rng.chance(0.2):
        fc["soft"] = rng.loguniform(1e-4, 1e-2)
    cb = []
    if rng.chance(0.25):
        cb.append("pre")
    if rng.chance(0.25):
        cb.append("post")
    if rng.chance(0.3):
        cb.append("probe")
    if rng.chance(0.2):
        fc["k"] = rng.loguniform(1e-3, 1e-1) * G
    fc["cb"] = tuple(cb)
    if extra:
        r = rng.uniform()
        if r < 0.15:
            fc["gravity"] = "compensated"
        elif r < 0.25:
            fc["gravity"] = "none"                # then the additional force is the only force
            if fc["k"] == 0:
                fc["k"] = rng.loguniform(1e-2, 1.0) * G
        if rng.chance(0.1) and n >= 3:
            na = n if fc["nactive"] == -1 else fc["nactive"]
            if na >= 2:
                parts[rng.randint(1, na - 1)][0] = 0.0      # a zero-mass body among the active ones
    return fc


def fc_class(fc):
    fc = asfc(fc)
    return (fc["nactive"] != -1, fc["tptype"], fc["k"] != 0, fc["cb"], fc["soft"] != 0, fc["gravity"])


class Real:
    def __init__(self, rebound):
        self.rb = rebound

    def sim(self, fc, parts, integrator, janus=None):
        """janus = (order, scale_pos, scale_vel) configures JANUS and lets the probe check, at EVERY force
        evaluation (every stage), that the position of EVERY particle (also i >= N_active) is exactly
        to_double(p_int) — the hypothesis of the reversal theorem."""
        fc = asfc(fc)
        s = self.rb.Simulation()
        s.G = fc["G"]
        for p in parts:
            s.add(m=p[0], x=p[1], y=p[2], z=p[3], vx=p[4], vy=p[5], vz=p[6])
        s.integrator = integrator
        if fc["nactive"] != -1:
            s.N_active = fc["nactive"]
        if fc["tptype"]:
            s.testparticle_type = fc["tptype"]
        if fc["soft"]:
            s.softening = fc["soft"]
        if fc["gravity"] != "basic":
            s.gravity = fc["gravity"]
        if janus is not None:
            s.ri_janus.order, s.ri_janus.scale_pos, s.ri_janus.scale_vel = janus
        st = {"af": 0, "pre": 0, "post": 0, "hb": 0, "probe_checked": 0, "probe_bad": 0, "first_bad": None}
        s._c10 = st
        s._c10cfg = (fc, janus)
        self.install(s, fc, janus, st)
        return s

    @staticmethod
    def install(s, fc, janus, st):
        """(re-)install the callbacks of configuration fc on s; function pointers are not part of a saved or copied
        simulation, so a user re-installs them after a restore — `reload_sim` does the same"""
        k = fc["k"]
        kv = fc.get("kv", 0.0)
        cb = fc["cb"]
        if "pre" in cb:
            def pre(ptr):
                st["pre"] += 1
                _ = ptr.contents.t
            s.pre_timestep_modifications = pre
        if "post" in cb:
            def post(ptr):
                st["post"] += 1
                _ = ptr.contents.N
            s.post_timestep_modifications = post
        if "hb" in cb:
            def hb(ptr):
                st["hb"] += 1
            s.heartbeat = hb
        if k != 0.0 or kv != 0.0 or "probe" in cb:
            probe = "probe" in cb and janus is not None
            sp = janus[1] if janus else None

            def af(ptr):
                sim = ptr.contents
                st["af"] += 1
                ps = sim._particles
                N = sim.N
                if probe and sim.ri_janus._N_allocated == N:
                    pi = sim.ri_janus.p_int
                    for i in range(N):
                        q, g = ps[i], pi[i]
                        st["probe_checked"] += 1
                        if q.x != float(g.x) * sp or q.y != float(g.y) * sp or q.z != float(g.z) * sp:
                            st["probe_bad"] += 1
                            if st["first_bad"] is None:
                                st["first_bad"] = dict(particle=i, N=N, N_active=sim.N_active, call=st["af"],
                                                       x=q.x, grid_x_times_scale=float(g.x) * sp)
                if k != 0.0:
                    for i in range(N):
                        q = ps[i]
                        q.ax += -k * q.x
                        q.ay += -k * q.y
                        q.az += -k * q.z
                if kv != 0.0:            # velocity-dependent (drag): outside the reversal theorem
                    for i in range(N):
                        q = ps[i]
                        q.ax += -kv * q.vx
                        q.ay += -kv * q.vy
                        q.az += -kv * q.vz
            s.additional_forces = af

    @staticmethod
    def doubles(s):
        return [getattr(s.particles[i], k) for i in range(s.N) for k in COMP]

    @staticmethod
    def ints(s):
        pi = s.ri_janus.p_int
        return [getattr(pi[i], k) for i in range(s.N) for k in COMP]

    @staticmethod
    def flag_clear(s):
        """the recalculation flag must be 0 and N_allocated == N at every step boundary of an undisturbed run"""
        return s.ri_janus.recalculate_integer_coordinates_this_timestep == 0 and s.ri_janus._N_allocated == s.N


def janus_line(order, sp, sv, fc, every, segs, parts):
    t = ["janus", str(order), d2h(sp), d2h(sv)] + force_tokens(fc) + [str(every), str(len(segs))]
    for dt, n in segs:
        t += [d2h(dt), str(n)]
    t.append(str(len(parts)))
    for p in parts:
        t += [d2h(v) for v in p]
    return " ".join(t)


def leapfrog_line(fc, every, segs, parts):
    t = ["leapfrog"] + force_tokens(fc) + [str(every), str(len(segs))]
    for dt, n in segs:
        t += [d2h(dt), str(n)]
    t.append(str(len(parts)))
    for p in parts:
        t += [d2h(v) for v in p]
    return " ".join(t)


def in_range(parts, sp, sv, margin=2.0 ** 60):
    return all(abs(p[1 + k]) / sp < margin for p in parts for k in range(3)) and \
        all(abs(p[4 + k]) / sv < margin for p in parts for k in range(3))


def real_janus_records(R, order, sp, sv, fc, every, segs, parts):
    """records as the driver prints them (after every `every` steps / at segment ends), the simulation,
    and the number of step boundaries at which the recalculation flag was not clear"""
    s = R.sim(fc, parts, "janus", janus=(order, sp, sv))
    recs = []
    flag_bad = 0
    for dt, n in segs:
        s.dt = dt
        k = 0
        while k < n:
            ch = min(every if every else n, n - k)
            if ch == 1:
                s.step()
            else:
                s.steps(ch)
            k += ch
            flag_bad += not R.flag_clear(s)
            recs.append(" ".join(["%016x" % (v & MASK) for v in R.ints(s)] + [d2h(v) for v in R.doubles(s)]))
    return recs, s, flag_bad


def real_leapfrog_records(R, fc, every, segs, parts):
    s = R.sim(fc, parts, "leapfrog")
    recs = [" ".join(d2h(v) for v in R.doubles(s))]
    for dt, n in segs:
        s.dt = dt
        k = 0
        while k < n:
            ch = min(every if every else n, n - k)
            s.steps(ch)
            k += ch
            recs.append(" ".join(d2h(v) for v in R.doubles(s)))
    return recs


# ----------------------------------------------------------------------------- the check
def run(c):
    d = build()
    rebound = use_scratch_rebound(d)
    R = Real(rebound)
    clib = rebound.clibrebound

    # ---- 2. translator
    try:
        ex, changed = extract_c10.regenerate(d)
    except extract_c10.ExtractError as e:
        ex = None
        c.broken.append("proof obligation: translator could not read src/integrator_janus.c: %s" % e)
        c.log("EXTRACTION FAILED:", e)
    if ex is not None:
        nt = len(ex["tables"])
        c.cov["extracted"] = {"tables": nt, "gamma_entries": sum(len(t["gamma_q"]) for t in ex["tables"]),
                              "stages": {str(t["order"]): t["stages"] for t in ex["tables"]},
                              "gg": ex["gg"]["c_text"], "regenerated": changed,
                              "assignments_to_recalculation_flag": ["%s: = %s" % a for a in ex["flag"]]}
        bad = [(t["name"], i) for t in ex["tables"] for i in range(len(t["bits"])) if t["bits"][i] != t["rounded_bits"][i]]
        c.count(("tables", nt), n=sum(len(t["bits"]) for t in ex["tables"]))
        if bad:
            c.corr_break("compiled gamma constants differ from the correctly rounded decimal text: %s" % bad[:3], bad)

    # the operator schedules of WHFast / SABA / EOS / LEAPFROG (theorems c10_*_real_schedule_reverse) come from
    # builder b-c01's translator (read-only use): regenerate them from the tree under test
    try:
        import extract_c01
        _, ch01 = extract_c01.write_gen(REPO, LEAN, write_if_changed)
        c.cov["extracted"] = dict(c.cov.get("extracted", {}), c01_schedules_regenerated=ch01)
    except Exception as e:      # the translator raises its own exception types
        c.broken.append("proof obligation: rv/extract_c01.py could not derive the operator schedules from the sources: %s" % str(e)[:300])
        c.log("SCHEDULE EXTRACTION FAILED:", str(e)[:200])

    # ---- 3. proofs
    c.prove(["RV.Props.C10"])
    exe = lean_exe("drv_c10")

    c.cov["trusted_base"] = [
        "Lean 4.33 kernel (+ Mathlib ring/field_simp for the field-level theorems)",
        "IEEE-754 sign symmetry of * and /, commutativity of +, oddness of the double->int64 cast: hypotheses (structure JLaws) of the JANUS theorems, exercised on Float by the `laws` lines of the correspondence",
        "int64 `+=` is two's-complement addition in the compiled code (signed overflow is UB in C)",
        "correspondence drv_c10 (Float/BitVec 64 model + its own BASIC gravity) vs compiled integrator_janus.c / integrator_leapfrog.c / gravity.c on generated inputs (differential test, bitwise)",
        "rv/extract_c10.py (regex translator for the static tables, gg and the order switch); compiled bits read back from a program that #includes integrator_janus.c",
        "ctypes layout of reb_integrator_janus / reb_particle_int (checked by C18)",
    ]
    c.assumptions += [
        "JANUS theorem: the force is a function of the grid positions only (no velocity-dependent or time-dependent additional forces), particles are not modified between steps (recalculate_integer_coordinates_this_timestep stays 0), every double->int64 conversion is in range; both hypotheses are validated on the real code on every run: a probe installed as additional_forces callback checks at every force evaluation (every stage) that the position of every particle, including i >= N_active, is exactly to_double(p_int), and the flag / N_allocated are read after every step; every assignment to the flag in src/ and the Python package is extracted and a theorem states that only part1 sets it non-zero",
        "LEAPFROG/SEI/splitting theorems are exact-arithmetic (any field): the size of the rounding error of the round trip is only measured by the search",
        "WHFast/SABA/EOS are covered by the abstract palindromic-splitting theorems plus the search, not by a model of their Kepler solver (C03/C09 own those models); the hypothesis kepler(-tau) o kepler(tau) = id of those theorems is validated on the real reb_whfast_kepler_solver directly (inverse and time-mirror probes over elliptic/hyperbolic x sign x step size, solver branch recorded)",
    ]
    c.cov["rule"] = ("configuration sweep (tie and search): N_active<N with massive and massless test particles, testparticle_type 0/1, softening, read-only "
                     "pre_/post_timestep_modifications and additional_forces callbacks (ctypes), a velocity-independent additional force a += -k x, for the search also compensated "
                     "gravity, synchronize/energy/angular_momentum calls between steps and integrate() with a heartbeat; "
                     "Kepler primitive: conics with e 0..0.999 and 1.001..3, q 0.05..2, steps 1e-3..3 periods resp. 0.01..40 pericentre passage times, both signs; "
                     "fly-by families: star + 1..3 planets + close hyperbolic fly-by (q 0.05..0.5, e 1.05..2) or massless eccentric body with long steps, WHFast x4 x safe_mode 0/1, SABA, MERCURIUS; "
                     "correspondence: random N-body systems (planetary with masses 1e-8..3e-2, e<0.4, frame offsets; clouds of comparable masses), N 2..8, "
                     "all 5 JANUS orders, scale_pos/scale_vel from {1e-16..1e-7, 2^-40} independently, dt>0 and dt<0 segments, state compared after every step; "
                     "LEAPFROG and SEI (shearing-sheet particles, OMEGA/OMEGAZ/G varied) likewise after every step; "
                     "search: forward n / backward n round trips on the real code, n up to 1e3 (quick) / 1e4 (thorough): JANUS on planetary systems and clouds, exact bits after "
                     "snapping with a dt=0 step; LEAPFROG, WHFast x4 coordinates, 10 uncorrected SABA types, 10 unprocessed EOS combinations on well separated systems with "
                     "low (1e-9..1e-5) and giant-planet (1e-4..2e-3) masses, SEI on sheets; a case is non-trivial when the forward leg moved every particle off its initial "
                     "grid point (JANUS) / moved the state by more than 1e-3 relative (others); distinct_nontrivial = distinct (integrator variant, order/type, N, scales, n decade, dt sign)")

    corr_janus(c, R, exe)
    corr_leapfrog(c, R, exe)
    corr_sei(c, R, exe)
    corr_saba(c, R, exe)
    corr_unsync(c, R)
    corr_laws(c, exe)
    search_janus(c, R)
    search_symmetric(c, R)
    probe_kepler(c, R)
    search_flyby(c, R)
    velocity_dependent(c, R, exe)
    entry_points(c, R)
    c.cov["dimensions"] = {k: DIMS.get(k, 0) for k in DIM_REQUIRED}
    c.cov["dimensions"].update({k: v for k, v in DIMS.items() if k not in DIM_REQUIRED})
    for k in DIM_REQUIRED:
        if DIMS.get(k, 0) == 0:
            c.broken.append("dimension not covered in this run: " + k)
            c.log("DIMENSION NOT COVERED:", k)
    # ---- pairwise coverage of the generators' factors
    tot = {"covered": sum(r["covered"] for r in PAIRS.values()), "total": sum(r["total"] for r in PAIRS.values()),
           "excluded": sum(r["excluded"] for r in PAIRS.values())}
    if any("triples_total" in r for r in PAIRS.values()):
        tot["triples_covered"] = sum(r.get("triples_covered", 0) for r in PAIRS.values())
        tot["triples_total"] = sum(r.get("triples_total", 0) for r in PAIRS.values())
    tot["by_generator"] = PAIRS
    c.cov["pairs"] = tot
    for name, r in PAIRS.items():
        c.log("pairs %s: %d/%d covered, %d excluded%s" % (name, r["covered"], r["total"], r["excluded"],
              (", triples %d/%d" % (r["triples_covered"], r["triples_total"])) if "triples_total" in r else ""))
        if c.thorough and (r["covered"] < r["total"] or r.get("triples_covered", 0) < r.get("triples_total", 0)):
            c.broken.append("pairwise coverage incomplete for %s: %d of %d pairs%s; first missing: %s" % (
                name, r["covered"], r["total"], (", %d of %d triples" % (r["triples_covered"], r["triples_total"])) if "triples_total" in r else "", r["missing"][:3]))


# ----------------------------------------------------------------------------- correspondence
def corr_janus(c, R, exe):
    rng = c.rng.fork()
    ncase = 180 if c.thorough else 80
    lines, expect, meta = [], [], []
    flag_bad, probe_checked, probe_first = 0, 0, None
    cbcalls = {"pre": 0, "post": 0, "af": 0}
    fch = {}
    # the model-vs-code runs come from an all-pairs array of the factors the Lean model has a notion of
    import c10_cover as CV
    TF = CV.Factors(dict(order=[2, 4, 6, 8, 10], force=["basic", "basic+k"],
                         roles=["all", "tp0_massless", "tp0_massive", "tp1_massless", "tp1_massive", "single_active", "zero_mass_active"],
                         cb=["none", "pre", "post", "probe", "pre+post+probe"], soft=["0", ">0"], scales=["equal", "unequal", "coarse"],
                         system=["planetary", "offset+boost", "cloud", "G=4pi^2"], sign=["+", "-"], snap=["dt=0 step", "none"],
                         segs=["there+back", "there+back+other dt"], length=["short", "long"]),
                    [("length", "long", "cb", ["probe", "pre+post+probe"], "cost: a Python callback at every stage"),
                     ("length", "long", "force", "basic+k", "cost: a Python callback at every stage")])
    tcases = []
    tstuck = []
    while len(tcases) < ncase:
        a2, st2 = CV.covering_array(TF, rng.fork(), ncand=25)
        tcases += a2
        tstuck += st2
    tcov = CV.Coverage(TF, implied_excluded=tstuck)
    for case, tf in enumerate(tcases):
        f = dict(tf, call="steps", turn="plain", evA="none", evB="none", t0="0", ncls="short", nsize="small", name="janus")
        Pc = build_janus_case(rng, f, 1000)
        tcov.add(tf)
        n, G, parts, order, sp, sv, fc = Pc["n"], Pc["G"], Pc["parts"], Pc["order"], Pc["sp"], Pc["sv"], Pc["fc"]
        dt = inner_period(G, parts) / rng.choice([15, 40, 100, 300]) * (1 if tf["sign"] == "+" else -1)
        long = tf["length"] == "long"
        nf = rng.randint(200, 600) if long else rng.randint(3, 25)
        if fc["k"] != 0 or "probe" in fc["cb"]:
            nf = min(nf, 60)          # a Python callback at every stage
        every = 50 if long else 1
        segs = [(0.0, 1), (dt, nf), (-dt, nf)]
        if tf["segs"] != "there+back":
            segs.append((dt * 0.37, 3))
        if tf["snap"] == "none":
            segs = segs[1:]      # no snapping step: to_int happens inside the first real step
        lines.append(janus_line(order, sp, sv, fc, every, segs, parts))
        recs, sim, fb = real_janus_records(R, order, sp, sv, fc, every, segs, parts)
        flag_bad += fb
        probe_checked += sim._c10["probe_checked"]
        if sim._c10["probe_bad"] and probe_first is None:
            probe_first = dict(sim._c10["first_bad"], order=order, fc=fc, bad=sim._c10["probe_bad"], checked=sim._c10["probe_checked"])
        for kk in ("pre", "post", "af"):
            cbcalls[kk] += sim._c10[kk]
        expect.append(recs)
        meta.append(dict(order=order, N=n, scale_pos=sp, scale_vel=sv, dt=dt, segs=segs, G=G, fc=fc, parts=parts, every=every))
        c.count(("corr-janus", order, n, sp, sv, dt < 0) + fc_class(fc), n=sum(s[1] for s in segs))
        for cond, nm in ((fc["nactive"] not in (-1, n), "N_active < N"), (bool(fc["cb"]), "callbacks"), (fc["k"] != 0, "additional force"),
                         (fc["soft"] != 0, "softening"), (segs[0][0] != 0.0, "no snapping step")):
            if cond:
                dim("janus tie: " + nm)
        fch[str(fc_class(fc)[:3])] = fch.get(str(fc_class(fc)[:3]), 0) + 1
    rep = tcov.report()
    rep["excluded_reasons"] = CV.excluded_table(TF)
    rep["cases"] = len(tcases)
    PAIRS["janus model-vs-code tie"] = rep
    c.cov["janus_tie_config_histogram(test_particles,testparticle_type,additional_force)"] = fch
    c.cov["janus_tie_callback_calls"] = cbcalls
    c.cov["janus_force_position_probe_checks"] = probe_checked
    if probe_first is not None:
        c.corr_break("hypothesis of the JANUS theorem violated on the real code: at a force evaluation the position of particle %d (N=%d, N_active=%d) "
                     "is not to_double(p_int) (order %d)" % (probe_first["particle"], probe_first["N"], probe_first["N_active"], probe_first["order"]), probe_first)
    if flag_bad:
        c.corr_break("ri_janus.recalculate_integer_coordinates_this_timestep / N_allocated not clear at %d step boundaries of undisturbed runs "
                     "(the model: only part1 sets it, on a particle-count change)" % flag_bad)
    # a few out-of-range cases: the model must say `err`, the C code is not compared (UB)
    nerr = 0
    for k in range(4):
        G, parts = gen_planetary(rng, 3)
        parts[1][1] = 1e4 * (1 if k % 2 else -1)      # 1e4/1e-16 = 1e20 > 2^63
        got = run_driver(exe, [janus_line(2, 1e-16, 1e-16, G, 1, [(0.01, 2)], parts)])
        if got[0].strip() != "err":
            c.corr_break("model did not flag an out-of-range double->int64 conversion", got[0][:100])
        nerr += 1
    c.cov["out_of_range_cases"] = nerr
    got = run_driver(exe, lines)
    ndis = 0
    ncmp = 0
    nrange = 0
    first = None
    if len(got) != len(lines):
        c.corr_break("drv_c10 returned %d lines for %d janus ops" % (len(got), len(lines)))
        return
    for g, e, mt in zip(got, expect, meta):
        grecs = [r.strip() for r in g.split("|")]
        grecs = grecs[1:]   # record 0 is the state after to_int (not observable before the first drift in the real code)
        if grecs and grecs[-1] == "err":
            # the model met a double->int64 conversion outside the range: undefined behaviour in C from here on
            grecs = grecs[:-1]
            e = e[:len(grecs)]
            mt["truncated_at"] = len(grecs)
            nrange += 1
        if len(grecs) != len(e):
            ndis += 1
            first = first or dict(mt, why="record count model=%d impl=%d" % (len(grecs), len(e)), model_tail=g[-200:])
            continue
        for k, (a, b) in enumerate(zip(grecs, e)):
            ncmp += 1
            if a != b:
                ndis += 1
                if first is None:
                    ta, tb = a.split(), b.split()
                    j = next((i for i in range(min(len(ta), len(tb))) if ta[i] != tb[i]), -1)
                    first = dict(mt, record=k, token=j, model=ta[j] if j >= 0 else None, impl=tb[j] if j >= 0 else None,
                                 what=("p_int" if j < 6 * mt["N"] else "double") + " " + COMP[j % 6] if j >= 0 else "length")
                break
    c.cov["janus_records_compared"] = ncmp
    c.cov["janus_tie_runs_leaving_the_int64_range(compared up to there)"] = nrange
    c.cov["janus_bitwise_disagreements"] = ndis
    c.sample({"janus_line": lines[0][:300], "first_record": expect[0][0][:200]})
    c.cov["janus_tie"] = "bitwise"
    if ndis:
        # The property (reversal) is bitwise, the tie need not be: a refactoring that re-associates an
        # increment changes single grid units.  Compare single steps from the implementation's own
        # states within a grid tolerance before declaring the model broken.
        bad = janus_tolerant(c, exe, expect, meta)
        if bad is None:
            c.cov["janus_tie"] = "single steps agree within the grid tolerance, not bitwise (%d of %d runs differ bitwise; first: %s)" % (
                ndis, len(lines), json.dumps({k: first.get(k) for k in ("order", "N", "record", "what", "model", "impl")}, default=str))
            c.log("JANUS tie: not bitwise, but single steps agree within the grid tolerance")
        else:
            c.corr_break("JANUS model and implementation differ on %d of %d runs (bitwise) and single steps differ beyond the grid tolerance; first: order %s N %s"
                         % (ndis, len(lines), bad.get("order"), bad.get("N")), dict(first or {}, single_step=bad))


def stages_of(order):
    return {2: 1, 4: 5, 6: 9, 8: 15, 10: 33}.get(order, 33)


def janus_tolerant(c, exe, expect, meta):
    """one model step from every recorded implementation state (runs recorded after every step);
    None if all agree within the tolerance, else the first offending case"""
    lines, want, info = [], [], []
    for recs, mt in zip(expect, meta):
        if mt["every"] != 1:
            continue
        n = mt["N"]
        dts = [dt for dt, k in mt["segs"] for _ in range(k)]
        recs = recs[:mt.get("truncated_at", len(recs))]
        for j in range(len(recs) - 1):
            t = recs[j].split()[:6 * n]
            ms = [d2h(p[0]) for p in mt["parts"]]
            toks = ["janus1", str(mt["order"]), d2h(mt["scale_pos"]), d2h(mt["scale_vel"])] + force_tokens(mt["fc"]) + [d2h(dts[j + 1]), str(n)]
            for i in range(n):
                toks += [ms[i]] + t[6 * i:6 * i + 6]
            lines.append(" ".join(toks))
            want.append(recs[j + 1].split())
            info.append((mt, j, t))
    got = run_driver(exe, lines)
    worst = 0.0
    sgn = lambda h: (int(h, 16) ^ (1 << 63)) - (1 << 63)
    for g, w, (mt, j, prev) in zip(got, want, info):
        n = mt["N"]
        p0 = [sgn(x) for x in prev]
        gi = g.split()
        if len(gi) != 6 * n:
            return dict(order=mt["order"], N=n, step=j, why="model: " + g[:60])
        a = [sgn(x) for x in gi]
        b = [sgn(x) for x in w[:6 * n]]
        S = stages_of(mt["order"])
        for cls in (0, 3):
            idx = [6 * i + cls + k for i in range(n) for k in range(3)]
            mx = max(abs(b[i]) for i in idx)
            # grid units lost to re-association, plus the sensitivity of the force to them (close pairs):
            # a fraction 1e-9 of the largest displacement of the step — a wrong coefficient, index or
            # sign changes the displacement by O(1)
            tol = 8 * (2 * S + 1) * max(1.0, mx * 2.0 ** -52) + 1e-9 * max(abs(b[i] - p0[i]) for i in idx)
            dmax = max(abs(a[i] - b[i]) for i in idx)
            worst = max(worst, dmax / tol)
            if dmax > tol:
                i = max(idx, key=lambda i: abs(a[i] - b[i]))
                return dict(order=mt["order"], N=n, step=j, what=COMP[i % 6], model=a[i], impl=b[i], tolerance=tol,
                            scale_pos=mt["scale_pos"], scale_vel=mt["scale_vel"], dt=mt["dt"])
        # the doubles must be the grid values times the scale (to_double), to 4 ulp
        for i in range(6 * n):
            sc = mt["scale_pos"] if i % 6 < 3 else mt["scale_vel"]
            dv, ref = h2d(w[6 * n + i]), float(b[i]) * sc
            if not abs(dv - ref) <= 4 * 2.3e-16 * abs(ref):
                return dict(order=mt["order"], N=n, step=j, what="to_double " + COMP[i % 6], impl=dv, grid_times_scale=ref)
    c.cov["janus_single_steps_compared_with_tolerance"] = len(lines)
    c.cov["janus_single_step_worst_fraction_of_tolerance"] = float("%.3g" % worst)
    return None


def float_tie(c, exe, name, lines, expect, meta, relinker):
    """bitwise comparison of the per-step records of a Float model with the implementation; when it
    fails, single steps from the implementation's own states must agree to 64 N ulp of the largest
    coordinate ("to rounding error": a harmless re-association must not fire, a wrong constant must).
    relinker(mt, state_doubles, dt) -> driver line for one step from that state."""
    got = run_driver(exe, lines)
    ndis, ncmp, first = 0, 0, None
    for g, e, mt in zip(got, expect, meta):
        grecs = [r.strip() for r in g.split("|")]
        if grecs != e:
            ndis += 1
            first = first or dict(mt, model=g[:200], impl=" | ".join(e)[:200])
        ncmp += len(e)
    c.cov[name + "_records_compared"] = ncmp
    c.cov[name + "_tie"] = "bitwise"
    if len(got) != len(lines):
        c.corr_break("drv_c10 returned %d lines for %d %s ops" % (len(got), len(lines), name))
        return
    if not ndis:
        return
    l2, w2, i2 = [], [], []
    for e, mt in zip(expect, meta):
        dts = [dt for dt, k in mt["segs"] for _ in range(k)]
        for j in range(len(e) - 1):
            st = [h2d(t) for t in e[j].split()]
            l2.append(relinker(mt, st, dts[j]))
            w2.append([h2d(t) for t in e[j + 1].split()])
            i2.append((mt, j))
    g2 = run_driver(exe, l2)
    bad = None
    for g, w, (mt, j) in zip(g2, w2, i2):
        n = mt["N"]
        try:
            gv = [h2d(t) for t in g.split("|")[-1].split()]
        except ValueError:
            gv = []
        if len(gv) != 6 * n:
            bad = dict(N=n, step=j, why=g[:80])
            break
        for cls in (0, 3):
            idx = [6 * i + cls + k for i in range(n) for k in range(3)]
            sc = max(abs(w[i]) for i in idx) or 1.0
            if any(not abs(gv[i] - w[i]) <= 64 * n * 2.3e-16 * sc for i in idx):
                bad = dict(N=n, step=j, dt=mt["dt"], model=[gv[i] for i in idx][:6], impl=[w[i] for i in idx][:6])
                break
        if bad:
            break
    if bad is None:
        c.cov[name + "_tie"] = "single steps agree to 64 N ulp, not bitwise (%d of %d runs differ bitwise)" % (ndis, len(lines))
        c.log("%s tie: not bitwise, single steps agree to 64 N ulp" % name)
    else:
        c.corr_break("%s model and implementation differ on %d of %d runs, single steps beyond 64 N ulp" % (name.upper(), ndis, len(lines)),
                     dict(first or {}, single_step=bad))


def corr_leapfrog(c, R, exe):
    rng = c.rng.fork()
    ncase = 60 if c.thorough else 20
    lines, expect, meta = [], [], []
    for case in range(ncase):
        n = rng.randint(2, 8)
        G, parts = gen_planetary(rng, n) if rng.chance(0.7) else gen_cloud(rng, n)
        fc = gen_fc(rng, G, parts, full=(case % 2 == 1))
        dt = inner_period(G, parts) / rng.choice([30, 100, 300]) * (1 if rng.chance(0.6) else -1)
        nf = rng.randint(3, 40)
        segs = [(dt, nf), (-dt, nf)]
        lines.append(leapfrog_line(fc, 1, segs, parts))
        expect.append(real_leapfrog_records(R, fc, 1, segs, parts))
        meta.append(dict(N=n, dt=dt, G=G, fc=fc, parts=parts, nf=nf, segs=segs))
        c.count(("corr-leapfrog", n, dt < 0) + fc_class(fc), n=2 * nf)

    def relink(mt, st, dt):
        parts = [[mt["parts"][i][0]] + st[6 * i:6 * i + 6] for i in range(mt["N"])]
        return leapfrog_line(mt["fc"], 1, [(dt, 1)], parts)
    float_tie(c, exe, "leapfrog", lines, expect, meta, relink)


def sei_line(om, omz, fc, every, segs, parts):
    t = ["sei", d2h(om), d2h(omz)] + force_tokens(fc) + [str(every), str(len(segs))]
    for dt, n in segs:
        t += [d2h(dt), str(n)]
    t.append(str(len(parts)))
    for p in parts:
        t += [d2h(v) for v in p]
    return " ".join(t)


def gen_sheet(rng, n, omz_differs=None):
    om = rng.choice([1.0, 0.5, 2.0 * math.pi])
    if omz_differs is None:
        omz_differs = rng.chance(0.5)
    omz = om * rng.uniform(0.8, 1.3) if omz_differs else om
    G = rng.choice([0.0, 1e-6, 1e-4])
    parts = [[rng.loguniform(1e-4, 1e-2)] + [rng.uniform(-5, 5), rng.uniform(-5, 5), rng.uniform(-0.5, 0.5)] + [rng.normal() * 0.2 * om for _ in range(3)]
             for i in range(n)]
    return om, omz, G, parts


def sei_sim(R, om, omz, fc, parts):
    s = R.sim(fc, parts, "sei")
    s.ri_sei.OMEGA = om
    if omz != om:
        s.ri_sei.OMEGAZ = omz       # otherwise leave the default -1 (= use OMEGA)
    return s


def corr_sei(c, R, exe):
    rng = c.rng.fork()
    ncase = 60 if c.thorough else 15
    lines, expect, meta = [], [], []
    for case in range(ncase):
        n = rng.randint(1, 8)
        om, omz, G, parts = gen_sheet(rng, n)
        fc = gen_fc(rng, G, parts, full=(case % 2 == 1))
        dt = (2 * math.pi / om) / rng.choice([20, 50, 200]) * (1 if rng.chance(0.6) else -1)
        nf = rng.randint(3, 40)
        segs = [(dt, nf), (-dt, nf)]
        lines.append(sei_line(om, omz, fc, 1, segs, parts))
        s = sei_sim(R, om, omz, fc, parts)
        recs = [" ".join(d2h(v) for v in R.doubles(s))]
        for sdt, k in segs:
            s.dt = sdt
            for _ in range(k):
                s.step()
                recs.append(" ".join(d2h(v) for v in R.doubles(s)))
        expect.append(recs)
        meta.append(dict(N=n, dt=dt, G=G, fc=fc, parts=parts, OMEGA=om, OMEGAZ=omz, segs=segs))
        c.count(("corr-sei", n, om, omz != om, dt < 0) + fc_class(fc), n=2 * nf)

    def relink(mt, st, dt):
        parts = [[mt["parts"][i][0]] + st[6 * i:6 * i + 6] for i in range(mt["N"])]
        return sei_line(mt["OMEGA"], mt["OMEGAZ"], mt["fc"], 1, [(dt, 1)], parts)
    float_tie(c, exe, "sei", lines, expect, meta, relink)


def corr_laws(c, exe):
    """exercise the hypotheses of the JANUS theorem (JLaws) on IEEE doubles / the cast as the driver
    computes them, and compare the cast with the C cast through ctypes-free Python arithmetic
    (int(a) truncates toward zero exactly)."""
    rng = c.rng.fork()
    n = 20000 if c.thorough else 3000
    lines, vals = [], []
    for k in range(n):
        kind = k % 6
        if kind == 0:
            a, b = rng.normal() * 10 ** rng.uniform(-20, 18), rng.normal() * 10 ** rng.uniform(-20, 18)
        elif kind == 1:
            a, b = float(rng.randint(-2 ** 62, 2 ** 62)), rng.choice(SCALES)
        elif kind == 2:
            a, b = rng.randint(-10 ** 6, 10 ** 6) / 2.0, rng.choice([1.0, 3.0, 0.1, 1e-16])     # ties
        elif kind == 3:
            a, b = rng.choice([0.0, -0.0, 0.5, -0.5, 0.999999, 1.0, 2.0 ** 53, 2.0 ** 53 + 2, 2.0 ** 62, 2.0 ** 63 - 1024, 5e-324, 1e-310]), rng.normal()
        elif kind == 4:
            a, b = rng.uniform(-2, 2) * 2.0 ** rng.randint(40, 62), rng.loguniform(1e-17, 1e3)
        else:
            a, b = rng.uniform(-1, 1) * 10 ** rng.uniform(-3, 3), rng.uniform(-1, 1) * 10 ** rng.uniform(-3, 3)
        if b == 0.0:
            b = 1.0
        lines.append("laws %s %s" % (d2h(a), d2h(b)))
        vals.append((a, b))
    got = run_driver(exe, lines)
    nbad = 0
    firstbad = None
    for (a, b), g in zip(vals, got):
        t = g.split()
        ok = len(t) == 10 and t[0] == t[1] == t[2] and t[3] == t[4] and t[5] == t[6] and t[7] == t[8]
        # the cast itself against exact integer truncation
        if ok and abs(a) < 2.0 ** 63:
            ok = t[8] == "%016x" % ((-int(a)) & MASK) and h2d(t[9]) == float(int(a))
        elif ok:
            ok = t[8] == "err"
        c.count(None, nontrivial=False)
        if not ok:
            nbad += 1
            firstbad = firstbad or dict(a=d2h(a), b=d2h(b), got=g)
    c.cov["sign_symmetry_laws_exercised_on_Float"] = len(lines)
    c._distinct.add("laws-on-Float")
    if nbad:
        c.corr_break("IEEE sign-symmetry hypotheses (JLaws) fail on Float for %d of %d operand pairs" % (nbad, len(lines)), firstbad)


# ----------------------------------------------------------------------------- search
# ---- factors of the JANUS round-trip generator (explicit, finite; see c10_cover.py)
EVENTS_J = ["none", "sync", "dt", "save", "copy"]
JANUS_FACTORS = dict(
    order=[2, 4, 6, 8, 10],
    force=["basic", "basic+k", "compensated", "compensated+k", "none+k"],
    roles=["all", "tp0_massless", "tp0_massive", "tp1_massless", "tp1_massive", "single_active", "zero_mass_active"],
    cb=["none", "pre", "post", "probe", "pre+post+probe"],
    call=["steps", "single", "integrate+heartbeat"],
    turn=["plain", "restore", "copy"],
    evA=EVENTS_J, evB=EVENTS_J,         # event adjacency: evA after step s, evB after step s+1 of the forward leg
    sign=["+", "-"],
    scales=["equal", "unequal", "coarse"],
    soft=["0", ">0"],
    system=["planetary", "offset+boost", "cloud", "G=4pi^2"],
    t0=["0", "huge"],
    ncls=["short", "medium", "long"],
    nsize=["small", ">128"],
    name=["janus", "JANUS"],
)
JANUS_EXCLUDED = [
    ("nsize", ">128", "ncls", ["medium", "long"], "cost: N>128 only with short runs"),
    ("nsize", ">128", "system", ["planetary", "offset+boost", "G=4pi^2"], "N>128 systems are generated as clouds"),
    ("cb", ["probe", "pre+post+probe"], "ncls", "long", "cost: a Python callback at every stage"),
    ("force", ["basic+k", "compensated+k", "none+k"], "ncls", "long", "cost: a Python callback at every stage"),
    ("system", "cloud", "ncls", "long", "clouds eject particles towards the int64 range"),
]
JANUS_TRIPLES = ["order", "force", "roles", "cb", "turn", "evA", "evB", "call"]


def build_janus_case(rng, f, nmax):
    """factor values -> concrete parameters (everything not a factor is drawn at random)"""
    big = f["nsize"] == ">128"
    n = rng.randint(129, 160) if big else rng.randint(3, 8)
    if big or f["system"] == "cloud":
        G, parts = gen_cloud(rng, n)
        kind = 2
    else:
        G, parts = gen_planetary(rng, n)
        kind = 0
        star = parts[0][1:]
        if f["system"] == "offset+boost":
            if not any(star):
                off = [rng.normal() * 3 for _ in range(3)] + [rng.normal() * 0.3 for _ in range(3)]
                for p in parts:
                    for k in range(6):
                        p[1 + k] += off[k]
        else:
            for p in parts:                         # star at the origin, at rest
                for k in range(6):
                    p[1 + k] -= star[k]
            if f["system"] == "G=4pi^2":
                G = 4 * math.pi ** 2
                for p in parts:
                    for k in (4, 5, 6):
                        p[k] *= 2 * math.pi
    fc = mkfc(G)
    r = f["roles"]
    if r.startswith("tp"):
        fc["nactive"] = rng.randint(2, n - 1)
        fc["tptype"] = int(r[2])
        if r.endswith("massless"):
            for p in parts[fc["nactive"]:]:
                p[0] = 0.0
        else:
            for p in parts[fc["nactive"]:]:
                p[0] = p[0] or 1e-7
    elif r == "single_active":
        fc["nactive"] = 1
        fc["tptype"] = rng.randint(0, 1)
    elif r == "zero_mass_active":
        parts[rng.randint(1, n - 1)][0] = 0.0
    fc["gravity"] = f["force"].split("+")[0]
    if f["force"].endswith("+k"):
        fc["k"] = (rng.loguniform(1e-2, 1.0) if fc["gravity"] == "none" else rng.loguniform(1e-3, 1e-1)) * G
    fc["cb"] = tuple(x for x in f["cb"].split("+") if x != "none")
    if f["soft"] != "0":
        fc["soft"] = rng.loguniform(1e-4, 1e-2)
    if f["scales"] == "equal":
        sp = sv = 1e-16
    elif f["scales"] == "unequal":
        sp, sv = rng.choice([(1e-16, 1e-15), (1e-15, 1e-16), (1e-14, 1e-16), (2.0 ** -40, 1e-14), (1e-16, 1e-12)])
    else:
        sp, sv = rng.choice([(1e-10, 1e-7), (1e-7, 1e-10), (1e-10, 1e-10), (1e-7, 1e-7)])
    if not in_range(parts, sp, sv, 2.0 ** 56):
        sp, sv = (1e-16, 1e-16) if f["scales"] == "equal" else (1e-16, 1e-15)
    P = inner_period(G, parts)
    dt = P / rng.choice([8, 20, 50, 150, 400]) * (1 if f["sign"] == "+" else -1)
    longstep = kind == 0 and f["ncls"] == "short" and rng.chance(0.15)
    if longstep:
        dt = P * rng.uniform(1.1, 2.5) * (1 if dt > 0 else -1)
    nst = {"short": rng.randint(3, 10), "medium": rng.randint(11, 150), "long": rng.randint(151, nmax)}[f["ncls"]]
    if kind == 2:
        nst = min(nst, 300)
    if fc["k"] != 0 or "probe" in fc["cb"]:
        nst = min(nst, 80)
    if big:
        nst = min(nst, 12)
    return dict(order=f["order"], sp=sp, sv=sv, fc=fc, parts=parts, dt=dt, nst=nst, call=f["call"], turn=f["turn"], evA=f["evA"], evB=f["evB"],
                t0=(rng.choice([1e12, -3e11]) * abs(dt) if f["t0"] == "huge" else None), name=f["name"], G=G, n=n, longstep=longstep,
                dtfacs=[rng.choice([0.5, 0.37, 2.0, -1.5]), rng.choice([0.7, 1.3, -0.6])], again=rng.chance(0.15))


def janus_run(R, P):
    """snap to the grid (one dt=0 step); forward leg of P['nst'] steps with event evA after step s and evB after step s+1
    (sync = synchronize/energy/angular_momentum, dt = the user changes the step, save / copy = binary file round trip /
    copy(), continuing on the restored object with the callbacks re-installed); turning point (plain: `sim.dt = -sim.dt`,
    or after a restore / on a copy); the backward leg mirrors the segments.  call: steps(n) | n times step() |
    integrate() without exact finish time, heartbeat installed.  Returns dict(i0,d0,i1,i2,d2,i3?,flag_bad,sim)."""
    fc = P["fc"]
    if P["call"].startswith("integrate"):
        fc = dict(fc, cb=tuple(fc["cb"]) + ("hb",))
    s = R.sim(fc, P["parts"], P.get("name", "janus"), janus=(P["order"], P["sp"], P["sv"]))
    if P.get("t0") is not None:
        s.t = P["t0"]
    s.dt = 0.0
    s.step()                                   # snap the initial conditions to the grid
    out = dict(sim=s, flag_bad=0)
    out["flag_bad"] += not R.flag_clear(s)
    out["i0"], out["d0"] = R.ints(s), [d2h(v) for v in R.doubles(s)]
    segs = []                                  # (dt, n) actually executed on the forward leg

    def advance(s, n):
        if n <= 0:
            return s
        if P["call"] == "single":
            for _ in range(n):
                s.step()
        elif P["call"].startswith("integrate"):
            before = s.steps_done
            s.integrate(s.t + (n - 0.5) * s.dt, exact_finish_time=0)
            if s.steps_done - before != n:
                out["steps_mismatch"] = (s.steps_done - before, n)
        else:
            s.steps(n)
        out["flag_bad"] += not R.flag_clear(s)
        return s

    def fwd(s, n):
        if n > 0:
            segs.append((s.dt, n))
        return advance(s, n)

    def event(s, ev, k):
        if ev == "sync":
            s.synchronize()
            s.energy()
            s.angular_momentum()
        elif ev == "dt":
            s.dt = s.dt * P["dtfacs"][k]
        elif ev in ("save", "copy"):
            s = reload_sim(R, s, ev)
        out["flag_bad"] += not R.flag_clear(s)
        return s
    nst = P["nst"]
    s.dt = P["dt"]
    if P["evA"] == "none" and P["evB"] == "none":
        s = fwd(s, nst)
    else:
        na = max(1, (nst - 1) // 2)
        s = fwd(s, na)
        s = event(s, P["evA"], 0)
        s = fwd(s, 1)
        s = event(s, P["evB"], 1)
        s = fwd(s, nst - 1 - na)
    out["i1"] = R.ints(s)
    out["sim"] = s
    if max(abs(v) for v in out["i1"]) >= 2 ** 62:
        out["near_range"] = True
        return out
    if P["turn"] == "restore":
        s = reload_sim(R, s, "save")
    elif P["turn"] == "copy":
        s = reload_sim(R, s, "copy")
    single = len({d for d, _ in segs}) == 1
    if single:
        s.dt = -s.dt                             # the way users do it
        s = advance(s, sum(n for _, n in segs))
    else:
        for d, n in reversed(segs):
            s.dt = -d
            s = advance(s, n)
    out["i2"], out["d2"] = R.ints(s), [d2h(v) for v in R.doubles(s)]
    if P.get("again") and single:
        s.dt = -s.dt
        s = advance(s, sum(n for _, n in segs))
        out["i3"] = R.ints(s)
    out["sim"] = s
    return out


def search_janus(c, R):
    """the property itself on the real code: snap to the grid (one dt=0 step), n steps with dt, flip the sign of dt the
    way users do, n steps, compare bits of p_int and of every particle double.  Cases come from a greedy all-pairs
    covering array of JANUS_FACTORS (every pair of values of two factors occurs in some case; in thorough also every
    triple of JANUS_TRIPLES); whatever is not a factor is drawn at random."""
    import c10_cover as CV
    rng = c.rng.fork()
    ncase = 1200 if c.thorough else 450
    nmax = 10000 if c.thorough else 1000
    F = CV.Factors(JANUS_FACTORS, JANUS_EXCLUDED, JANUS_TRIPLES)
    arr3, stuck = CV.covering_array(F, rng.fork(), with_triples=True, ncand=12)
    cases = []
    if c.thorough:
        cases += arr3
    else:
        k = max(1, len(arr3) // 3)           # a seed-rotated third of the 3-way array
        off = (c.seed * k) % len(arr3)
        cases += (arr3 + arr3)[off:off + k]
    while len(cases) < ncase:                # independent pairwise arrays (different random completions)
        a2, st2 = CV.covering_array(F, rng.fork(), ncand=25)
        cases += a2
        stuck += st2
    cases = cases[:max(ncase, len(arr3) if c.thorough else 0)]
    cov = CV.Coverage(F, with_triples=c.thorough, implied_excluded=stuck)
    hist, cfgh = {}, {}
    moved_all = 0
    nviol = 0
    flag_bad = 0
    probe_checked, probe_first = 0, None
    retried = False
    idx = 0
    while idx < len(cases):
        f = cases[idx]
        idx += 1
        P = build_janus_case(rng, f, nmax)
        o = janus_run(R, P)
        fc, parts, order, n, nst, dt, sp, sv, G = P["fc"], P["parts"], P["order"], P["n"], P["nst"], P["dt"], P["sp"], P["sv"], P["G"]
        st = o["sim"]._c10
        probe_checked += st["probe_checked"]
        if st["probe_bad"] and probe_first is None:
            probe_first = dict(st["first_bad"], order=order, fc=fc, bad=st["probe_bad"], checked=st["probe_checked"])
        flag_bad += o["flag_bad"]
        skip = None
        if o.get("near_range"):
            skip = "skipped_near_int64_range"
        elif "steps_mismatch" in o:
            skip = "integrate_step_count_mismatch"
        if skip:
            c.count(None, nontrivial=False)
            hist[skip] = hist.get(skip, 0) + 1
        else:
            cov.add(f)
            i0, d0, i1, i2, d2 = o["i0"], o["d0"], o["i1"], o["i2"], o["d2"]
            moved = all(any(i1[6 * p + k] != i0[6 * p + k] for k in range(3)) for p in range(n))
            c.count(("janus",) + tuple(f[k] for k in F.names), nontrivial=moved)
            moved_all += moved
            hist[str(order)] = hist.get(str(order), 0) + 1
            na_eff = n if fc["nactive"] == -1 else fc["nactive"]
            dim("janus: gravity " + ("none + additional force" if fc["gravity"] == "none" else fc["gravity"]))
            evs = (f["evA"], f["evB"])
            for cond, nm in ((fc["soft"] != 0, "softening != 0"), (G != 1.0, "G != 1"), (sp != sv, "scale_pos != scale_vel"),
                             (na_eff < n and fc["tptype"] == 0, "N_active < N, testparticle_type 0"), (na_eff < n and fc["tptype"] == 1, "N_active < N, testparticle_type 1"),
                             (na_eff < n and any(p[0] == 0 for p in parts[na_eff:]), "massless test particles"),
                             (na_eff < n and any(p[0] != 0 for p in parts[na_eff:]), "massive test particles"),
                             (na_eff == 1 and n > 1, "single active body"), (any(p[0] == 0 for p in parts[1:na_eff]), "zero-mass active body"),
                             ("pre" in fc["cb"], "callback pre_timestep_modifications"), ("post" in fc["cb"], "callback post_timestep_modifications"),
                             ("probe" in fc["cb"], "callback additional_forces (read-only probe)"), (fc["k"] != 0, "additional force, velocity independent"),
                             (f["call"].startswith("integrate"), "heartbeat + integrate()"), (dt < 0, "dt < 0 first"), (P["longstep"], "step longer than the inner period"),
                             ("sync" in evs or f["call"] == "single", "split calls with synchronize/energy between"), ("save" in evs, "save + restore mid-way"),
                             ("copy" in evs, "copy() mid-way"), (f["turn"] != "plain", "restore at the turning point"), ("dt" in evs, "dt changed by the user mid-run"),
                             (P["t0"] is not None, "t0 huge (|t|/dt ~ 1e12)"), (f["system"] == "offset+boost", "COM offset + boost"),
                             (n > 128, "N > 128"), (f["name"] == "JANUS", "integrator name upper case")):
                if cond:
                    dim("janus: " + nm)
            tag = " ".join("%s=%s" % (k, f[k]) for k in ("force", "roles", "cb", "call", "turn", "evA", "evB", "scales", "system", "t0", "nsize") if f[k] not in ("none", "plain", "all", "0", "small", "equal", "planetary", "basic", "steps"))
            cfgh[tag] = cfgh.get(tag, 0) + 1
            rep_d = dict(integrator="janus", case=P, factors=f, order=order, scale_pos=sp, scale_vel=sv, G=G, fc=fc, dt=dt, nsteps=nst, particles=parts,
                         procedure="add particles; configure per `factors`; janus; one step with dt=0 (snap); forward leg with the two adjacent events; turning point; "
                                   "mirrored backward leg; compare p_int and particle bits")
            suffix = ("-testparticles" if na_eff < n else "") + ("-callbacks" if (fc["cb"] or fc["k"] or f["call"].startswith("integrate")) else "") + \
                     ("-history" if (f["turn"] != "plain" or set(evs) - {"none"}) else "")
            if i2 != i0 or d2 != d0:
                nviol += 1
                j = next(i for i in range(6 * n) if i2[i] != i0[i] or d2[i] != d0[i])
                c.violation("janus-roundtrip-order%d%s" % (order, suffix),
                            "JANUS order %d (%s): %d steps forward and %d steps back do not return the initial bits (particle %d %s: %s -> %s, grid %d -> %d)"
                            % (order, tag or "default configuration", nst, nst, j // 6, COMP[j % 6], d0[j], d2[j], i0[j], i2[j]), rep_d)
                if nviol >= 5:
                    break
            if "i3" in o and o["i3"] != i1:
                c.violation("janus-there-back-there-order%d%s" % (order, suffix),
                            "JANUS order %d (%s): forward/back/forward does not reproduce the first forward leg" % (order, tag), rep_d)
            if idx <= 2:
                c.sample(dict(kind="janus round trip", factors=f, N=n, dt=dt, nsteps=nst, returned_exact=(i2 == i0)))
        if idx == len(cases) and not retried:
            # tuples lost to skipped runs: one more case for each
            retried = True
            for t in cov.missing_cases_seed()[:200]:
                extra = CV.complete(F, t, rng)
                if extra is not None:
                    cases.append(extra)
    rep = cov.report()
    rep["excluded_reasons"] = CV.excluded_table(F)
    rep["cases"] = idx
    PAIRS["janus round trips"] = rep
    c.cov["janus_roundtrips_by_order"] = hist
    c.cov["janus_roundtrips_by_configuration"] = dict(sorted(cfgh.items(), key=lambda kv: -kv[1])[:25])
    c.cov["janus_roundtrips_all_particles_moved"] = moved_all
    c.cov["janus_search_force_position_probe_checks"] = probe_checked
    if probe_first is not None:
        c.corr_break("hypothesis of the JANUS theorem violated on the real code (search runs): at a force evaluation the position of particle %d (N=%d, N_active=%d) "
                     "is not to_double(p_int) (order %d)" % (probe_first["particle"], probe_first["N"], probe_first["N_active"], probe_first["order"]), probe_first)
    if flag_bad:
        c.corr_break("ri_janus.recalculate_integer_coordinates_this_timestep / N_allocated not clear at %d step boundaries of undisturbed search runs" % flag_bad)


# ----------------------------------------------------------------------------- SABA schedule replay
SABA_INDEX = {"1": 0, "2": 1, "3": 2, "4": 3, "10,4": 4, "8,6,4": 5, "10,6,4": 6, "h8,4,4": 7, "h8,6,4": 8, "h10,6,4": 9}


def corr_saba(c, R, exe):
    """tie of RV/Model/C10Saba.lean (the stage loop of reb_integrator_saba_part2 with its mirror indices): the operator
    list the Lean model produces (driver op `saba`) is replayed through the exported primitives
    (reb_whfast_kepler_step + reb_whfast_com_step / reb_integrator_whfast_to_inertial + reb_simulation_update_acceleration /
    reb_whfast_interaction_step) and must reproduce reb_simulation_step with integrator = "saba" bit for bit, for all ten
    uncorrected types, with and without test particles, both signs of dt, several consecutive steps."""
    from fractions import Fraction
    rng = c.rng.fork()
    clib = R.rb.clibrebound
    got = run_driver(exe, ["saba %d" % i for i in range(10)])
    scheds = []
    for g in got:
        ops = []
        for t in g.split():
            kind, q = t.split(":")
            num, den = q.split("/")
            ops.append((int(kind), float(Fraction(int(num), int(den)))))
        scheds.append(ops)
    nbad, ncmp, first = 0, 0, None
    reps = 4 if c.thorough else 2
    for name, idx in SABA_INDEX.items():
        ops = scheds[idx]
        if not ops:
            c.corr_break("driver returned no schedule for SABA type %s: %s" % (name, got[idx][:60]))
            continue
        for rep in range(reps):
            n = rng.randint(3, 6)
            G, parts = gen_planetary(rng, n, calm=True, moderate=(rep % 2 == 1))
            fc = mkfc(G)
            if rep % 2 == 1:
                fc["nactive"] = rng.randint(2, n - 1)
                for p in parts[fc["nactive"]:]:
                    p[0] = 0.0
            dt = inner_period(G, parts) / rng.choice([20, 60]) * (1 if rng.chance(0.5) else -1)
            a, b = R.sim(fc, parts, "saba"), R.sim(fc, parts, "saba")
            for s_ in (a, b):
                s_.ri_saba.type = name
                s_.move_to_com()
                s_.dt = dt
            r = ctypes.byref(b)
            for step in range(4):
                a.step()
                b.gravity_ignore_terms = 1
                clib.reb_integrator_whfast_init(r)
                clib.reb_integrator_whfast_from_inertial(r)
                for kind, co in ops:
                    if kind == 0:
                        clib.reb_whfast_kepler_step(r, ctypes.c_double(co * dt))
                        clib.reb_whfast_com_step(r, ctypes.c_double(co * dt))
                    elif kind == 2:
                        clib.reb_integrator_whfast_to_inertial(r)
                        clib.reb_simulation_update_acceleration(r)
                    elif kind == 1:
                        clib.reb_whfast_interaction_step(r, ctypes.c_double(co * dt))
                clib.reb_integrator_whfast_to_inertial(r)
                ncmp += 1
                da, db = R.doubles(a), R.doubles(b)
                if [d2h(v) for v in da] != [d2h(v) for v in db]:
                    e = relerr(da, db, n)
                    if not e <= 64 * n * 2.3e-16:        # tolerance policy of a "to rounding error" tie
                        nbad += 1
                        first = first or dict(type=name, step=step, N=n, N_active=fc["nactive"], dt=dt, error=e, ops=len(ops))
                    break
            c.count(("corr-saba", name, fc["nactive"] != -1, dt < 0), n=4)
    c.cov["saba_model_replay_steps_compared"] = ncmp
    c.cov["saba_model_schedule_lengths"] = {k: len(scheds[i]) for k, i in SABA_INDEX.items()}
    if nbad:
        c.corr_break("SABA: replaying the operator list of the Lean model through the exported primitives does not reproduce reb_simulation_step (%d runs); first: type %s"
                     % (nbad, first["type"]), first)


# ----------------------------------------------------------------------------- unsynchronised stepping replay
def corr_unsync(c, R):
    """tie of `uStep` / `uSync` (RV/Model/Reversal.lean): WHFast in Jacobi coordinates with safe_mode = 0 — the state machine
    "first half drift or combined drift; force; kick; pending" and "synchronisation = pending half drift with the current dt",
    replayed through the exported primitives, must reproduce steps(n) followed by either public synchronisation request
    (synchronize(), integrate(t) with nothing left to integrate) bit for bit."""
    rng = c.rng.fork()
    clib = R.rb.clibrebound
    ncmp, bad = 0, None
    for rep in range(8 if c.thorough else 4):
        n = rng.randint(3, 6)
        G, parts = gen_planetary(rng, n, calm=True, moderate=(rep % 2 == 1))
        fc = mkfc(G)
        if rep % 2 == 1:
            fc["nactive"] = rng.randint(2, n - 1)
            for p in parts[fc["nactive"]:]:
                p[0] = 0.0
        dt = inner_period(G, parts) / rng.choice([20, 60]) * (1 if rep % 4 < 2 else -1)
        nsteps = rng.randint(1, 5)
        for via in ("synchronize", "integrate(t)"):
            a, b = R.sim(fc, parts, "whfast"), R.sim(fc, parts, "whfast")
            for s_ in (a, b):
                s_.ri_whfast.safe_mode = 0
                s_.move_to_com()
                s_.dt = dt
            a.steps(nsteps)
            if via == "synchronize":
                a.synchronize()
            else:
                a.integrate(a.t)
            r = ctypes.byref(b)
            b.gravity_ignore_terms = 1
            clib.reb_integrator_whfast_init(r)
            clib.reb_integrator_whfast_from_inertial(r)
            pending = False
            for k in range(nsteps):                                   # uStep
                co = dt if pending else dt / 2.
                clib.reb_whfast_kepler_step(r, ctypes.c_double(co))
                clib.reb_whfast_com_step(r, ctypes.c_double(co))
                clib.reb_integrator_whfast_to_inertial(r)
                clib.reb_simulation_update_acceleration(r)
                clib.reb_whfast_interaction_step(r, ctypes.c_double(dt))
                pending = True
            if pending:                                               # uSync
                clib.reb_whfast_kepler_step(r, ctypes.c_double(dt / 2.))
                clib.reb_whfast_com_step(r, ctypes.c_double(dt / 2.))
            clib.reb_integrator_whfast_to_inertial(r)
            ncmp += 1
            da, db = R.doubles(a), R.doubles(b)
            if [d2h(v) for v in da] != [d2h(v) for v in db] and not relerr(da, db, n) <= 64 * n * 2.3e-16 and bad is None:
                bad = dict(via=via, steps=nsteps, N=n, N_active=fc["nactive"], dt=dt, error=relerr(da, db, n))
            c.count(("corr-unsync", via, nsteps, dt < 0, fc["nactive"] != -1), n=nsteps)
    c.cov["unsynchronised_stepping_replays_compared"] = ncmp
    if bad:
        c.corr_break("WHFast safe_mode=0: the model of unsynchronised stepping (combined drifts, synchronisation = pending half drift with the current dt) "
                     "replayed through the primitives differs from steps(n) + %s" % bad["via"], bad)


# ----------------------------------------------------------------------------- public entry points
def entry_points(c, R):
    """every public function / attribute that reaches the reversal mechanism, extracted from the headers of the anchored files
    and from the Python classes, must be exercised in this run:
      C   reb_integrator_{janus,leapfrog,sei,whfast,saba,eos}_{part1,part2,synchronize,reset,init}: a step assembled by hand
          (part1; reb_simulation_update_acceleration; part2) must equal reb_simulation_step bit for bit, synchronize must not
          move a synchronized state, reset must restore the documented defaults; reb_simulation_step / _steps / _integrate /
          _synchronize / _reset_integrator; reb_whfast_kepler_solver (probe_kepler);
      Py  Simulation.step / steps / integrate / synchronize, the integrator names (both cases), every field of
          IntegratorJanus and IntegratorSEI (written and read back)."""
    import re
    rb, clib = R.rb, R.rb.clibrebound
    src = os.path.join(REPO, "src")
    fams = ["janus", "leapfrog", "sei", "whfast", "saba", "eos"]
    table = []
    for fam in fams:
        h = open(os.path.join(src, "integrator_%s.h" % fam)).read()
        table += ["C:" + m for m in re.findall(r"\b(reb_integrator_%s_(?:part1|part2|synchronize|reset|init))\s*\(" % fam, h)]
    hdr = open(os.path.join(src, "rebound.h")).read()
    table += ["C:" + m for m in re.findall(r"DLLEXPORT[^;\n]*?\b(reb_simulation_(?:step|steps|integrate|synchronize|reset_integrator))\s*\(", hdr)]
    table += ["C:" + m for m in re.findall(r"\b(reb_whfast_kepler_solver)\s*\(", open(os.path.join(src, "integrator_whfast.h")).read())]
    simpy = open(os.path.join(REPO, "rebound", "simulation.py")).read()
    table += ["Py:Simulation." + m for m in sorted(set(re.findall(r"^    def (step|steps|integrate|synchronize)\(", simpy, flags=re.M)))]
    mi = re.search(r"^INTEGRATORS\s*=\s*\{(.*?)\}", simpy, flags=re.M | re.S)
    names = re.findall(r'"(\w+)"\s*:', mi.group(1)) if mi else []
    table += ["Py:integrator=" + nm for nm in names if nm in fams]
    for cls, fn in (("IntegratorJanus", "janus.py"), ("IntegratorSEI", "sei.py")):
        txt = open(os.path.join(REPO, "rebound", "integrators", fn)).read()
        mf = re.search(r"class %s\(.*?_fields_\s*=\s*\[(.*?)\]\s*$" % cls, txt, flags=re.S | re.M)
        table += ["Py:%s.%s" % (cls, f_) for f_ in re.findall(r'\(\s*"(\w+)"', mf.group(1) if mf else "")]
    table = sorted(set(table))
    done = set()

    def mk(fam):
        s = rb.Simulation()
        s.add(m=1.0)
        s.add(m=1e-3, x=1.0, vy=1.0)
        s.add(m=1e-4, x=-1.9, y=0.3, vy=-0.7, vz=0.05)
        s.move_to_com()
        s.integrator = fam
        s.dt = 0.03
        if fam == "sei":
            s.ri_sei.OMEGA = 1.0
            s.G = 1e-6
        return s
    bad = []
    for fam in fams:
        fn = lambda suffix: getattr(clib, "reb_integrator_%s_%s" % (fam, suffix))
        a, b = mk(fam), mk(fam)
        for k in range(3):
            clib.reb_simulation_step(ctypes.byref(a))
            fn("part1")(ctypes.byref(b))
            clib.reb_simulation_update_acceleration(ctypes.byref(b))
            fn("part2")(ctypes.byref(b))
        done |= {"C:reb_integrator_%s_part1" % fam, "C:reb_integrator_%s_part2" % fam, "C:reb_simulation_step"}
        if [d2h(v) for v in R.doubles(a)] != [d2h(v) for v in R.doubles(b)] or d2h(a.t) != d2h(b.t):
            bad.append("%s: part1; update_acceleration; part2 differs from reb_simulation_step" % fam)
        before = [d2h(v) for v in R.doubles(b)]
        fn("synchronize")(ctypes.byref(b))
        done.add("C:reb_integrator_%s_synchronize" % fam)
        if [d2h(v) for v in R.doubles(b)] != before:
            bad.append("%s: synchronize moved a synchronized state" % fam)
        if "C:reb_integrator_%s_init" % fam in table:
            fn("init")(ctypes.byref(b))
            done.add("C:reb_integrator_%s_init" % fam)
        if "C:reb_integrator_%s_reset" % fam in table:
            if fam == "janus":
                b.ri_janus.order, b.ri_janus.scale_pos = 6, 1e-12
            fn("reset")(ctypes.byref(b))
            done.add("C:reb_integrator_%s_reset" % fam)
            if fam == "janus" and not (b.ri_janus.order == 2 and b.ri_janus.scale_pos == 1e-16 and b.ri_janus.scale_vel == 1e-16 and b.ri_janus._N_allocated == 0
                                       and b.ri_janus.recalculate_integer_coordinates_this_timestep == 0):
                bad.append("janus: reset does not restore the defaults")
            # after a reset the integrator must start over cleanly and reverse as before
            d0 = [d2h(v) for v in R.doubles(b)]
            if fam == "janus":
                b.dt = 0.0
                clib.reb_simulation_step(ctypes.byref(b))
                d0 = [d2h(v) for v in R.doubles(b)]
                b.dt = 0.03
                clib.reb_simulation_steps(ctypes.byref(b), ctypes.c_uint(5))
                b.dt = -b.dt
                clib.reb_simulation_steps(ctypes.byref(b), ctypes.c_uint(5))
                if [d2h(v) for v in R.doubles(b)] != d0:
                    bad.append("janus: round trip after reb_integrator_janus_reset is not exact")
    # the two public ways of asking for a synchronisation must agree while a half step is pending: sim.synchronize() and an
    # integrate() call with nothing left to integrate (an output request at the time already reached) — also twice in a row, also with
    # keep_unsynchronized, and the run must continue identically afterwards
    npaths = 0
    for fam, opts in ([("whfast", dict(coordinates=k)) for k in WH_COORDS] + [("saba", dict(type=t)) for t in ("2", "10,6,4")] +
                      [("eos", dict(phi0="lf4", phi1="lf", n=2)), ("eos", dict(phi0="lf", phi1="lf4", n=3))]):
        for keep in ((0, 1) if fam != "eos" else (0,)):
            for sign in (1, -1):
                pair = []
                for via in ("synchronize", "integrate"):
                    s_ = mk(fam)
                    ri = getattr(s_, "ri_" + fam)
                    for k_, v_ in opts.items():
                        setattr(s_.ri_whfast if (fam == "whfast") else ri, k_, v_)
                    ri.safe_mode = 0
                    if keep:
                        ri.keep_unsynchronized = 1
                    s_.dt = 0.03 * sign
                    s_.steps(5)
                    rec = []
                    for rep_ in range(2):
                        if via == "synchronize":
                            s_.synchronize()
                        else:
                            s_.integrate(s_.t)
                        rec.append([d2h(v) for v in R.doubles(s_)])
                    s_.steps(3)
                    s_.synchronize()
                    rec.append([d2h(v) for v in R.doubles(s_)])
                    pair.append(rec)
                npaths += 1
                if pair[0] != pair[1]:
                    j_ = next(i for i in range(3) if pair[0][i] != pair[1][i])
                    bad.append("%s %s keep_unsynchronized=%d dt%s0: integrate(t) with a half step pending differs from synchronize() (%s)"
                               % (fam, opts, keep, ">" if sign > 0 else "<", ["at the request", "at the repeated request", "after continuing"][j_]))
    c.cov["synchronisation_entry_paths_compared"] = npaths
    # generic public C entry points on a JANUS simulation
    a, b = mk("janus"), mk("janus")
    clib.reb_simulation_steps(ctypes.byref(a), ctypes.c_uint(4))
    clib.reb_simulation_integrate.restype = ctypes.c_int
    b.exact_finish_time = 0
    clib.reb_simulation_integrate(ctypes.byref(b), ctypes.c_double(3.5 * 0.03))
    clib.reb_simulation_synchronize(ctypes.byref(a))
    clib.reb_simulation_synchronize(ctypes.byref(b))
    done |= {"C:reb_simulation_steps", "C:reb_simulation_integrate", "C:reb_simulation_synchronize"}
    if [d2h(v) for v in R.doubles(a)] != [d2h(v) for v in R.doubles(b)]:
        bad.append("janus: reb_simulation_integrate (4 steps, no exact finish) differs from reb_simulation_steps(4)")
    clib.reb_simulation_reset_integrator(ctypes.byref(a))
    done.add("C:reb_simulation_reset_integrator")
    if a.ri_janus._N_allocated != 0:
        bad.append("reb_simulation_reset_integrator does not reset JANUS")
    if c.cov.get("kepler_primitive_solves_by(orbit,sign of dt,solver branch)"):
        done.add("C:reb_whfast_kepler_solver")
    # Python layer
    a, b = mk("janus"), mk("janus")
    a.step(); a.step(); a.step()
    b.steps(3)
    done |= {"Py:Simulation.step", "Py:Simulation.steps"}
    if [d2h(v) for v in R.doubles(a)] != [d2h(v) for v in R.doubles(b)]:
        bad.append("Simulation.step x3 differs from Simulation.steps(3)")
    a.integrate(a.t + 2.5 * a.dt, exact_finish_time=0)
    b.steps(3)
    a.synchronize()
    b.synchronize()
    done |= {"Py:Simulation.integrate", "Py:Simulation.synchronize"}
    if [d2h(v) for v in R.doubles(a)] != [d2h(v) for v in R.doubles(b)]:
        bad.append("Simulation.integrate (3 steps, no exact finish) differs from Simulation.steps(3)")
    for nm in fams:
        for spelling in (nm, nm.upper()):
            t_ = rb.Simulation()
            t_.integrator = spelling
            if t_.integrator != nm:
                bad.append("integrator spelling %r reads back as %r" % (spelling, t_.integrator))
        done.add("Py:integrator=" + nm)
    t_ = rb.Simulation()
    vals = {"scale_pos": 1e-12, "scale_vel": 1e-13, "order": 8, "recalculate_integer_coordinates_this_timestep": 1, "_N_allocated": 0,
            "OMEGA": 2.5, "OMEGAZ": 1.5, "_lastdt": 0.25, "_sindt": 0.1, "_tandt": 0.2, "_sindtz": 0.3, "_tandtz": 0.4}
    for e in table:
        if e.startswith("Py:IntegratorJanus.") or e.startswith("Py:IntegratorSEI."):
            obj = t_.ri_janus if "Janus" in e else t_.ri_sei
            f_ = e.split(".")[1]
            if f_ == "p_int":
                ok = not bool(obj.p_int)          # NULL before the first step
            elif f_ in vals:
                setattr(obj, f_, vals[f_])
                ok = getattr(obj, f_) == vals[f_]
            else:
                ok = False                        # a field this check does not know yet
            if ok:
                done.add(e)
            else:
                bad.append("field %s cannot be written and read back (or is new)" % e)
    missing = [e for e in table if e not in done]
    c.cov["entry_points"] = {"extracted": len(table), "exercised": len(table) - len(missing), "missing": missing, "list": table}
    c.count(("entry-points", len(table)), n=len(table))
    if len(table) < 40:
        c.corr_break("entry-point extraction found only %d entries (headers / Python classes no longer have the expected shape)" % len(table))
    if missing:
        c.corr_break("public entry points of the reversal mechanism not exercised in this run: " + ", ".join(missing[:8]))
    if bad:
        c.corr_break("entry points: " + "; ".join(bad[:4]), bad)


# ----------------------------------------------------------------------------- velocity-dependent force (negative)
def velocity_dependent(c, R, exe):
    """theorem c10_janus_velocity_dependent_force_not_reversible on the real code: with a drag a += -kv v installed as
    additional_forces the model (stepV) still matches the implementation bit for bit, and the round trip is NOT exact.
    Evidence only (a velocity-dependent force is outside the property); a mismatch of the tie is reported."""
    rng = c.rng.fork()
    ncase = 30 if c.thorough else 10
    lines, expect, meta = [], [], []
    notexact = 0
    for case in range(ncase):
        n = rng.randint(2, 5)
        G, parts = gen_planetary(rng, n)
        order = [2, 4, 6, 8, 10][case % 5]
        fc = mkfc(G, kv=rng.loguniform(1e-3, 1e-1))
        dt = inner_period(G, parts) / rng.choice([20, 50])
        nf = rng.randint(5, 15)
        segs = [(0.0, 1), (dt, nf), (-dt, nf)]
        lines.append(janus_line(order, 1e-16, 1e-16, fc, 1, segs, parts))
        recs, sim, fb = real_janus_records(R, order, 1e-16, 1e-16, fc, 1, segs, parts)
        expect.append(recs)
        notexact += recs[0] != recs[-1]
        c.count(("velocity-dependent", order, n), n=2 * nf)
    got = run_driver(exe, lines)
    bad = sum(1 for g, e in zip(got, expect) if [r.strip() for r in g.split("|")][1:] != e)
    c.cov["velocity_dependent_force"] = {"runs": ncase, "model_bitwise_equal": ncase - bad, "round_trips_not_exact(expected: all)": notexact}
    if bad:
        c.corr_break("JANUS model with a velocity-dependent additional force (stepV) differs from the implementation on %d of %d runs" % (bad, ncase))


# ----------------------------------------------------------------------------- Kepler primitive
INVF = [1.0 / math.factorial(i) for i in range(35)]


def _cs3(z):
    n = 0
    while abs(z) > 0.1 and math.isfinite(z):
        z /= 4.
        n += 1
    co, ce = INVF[13], INVF[12]
    for k in range(11, 2, -2):
        co = INVF[k] - z * co
        ce = INVF[k - 1] - z * ce
    c3, c2, c1, c0 = co, ce, INVF[1] - z * co, INVF[0] - z * ce
    for _ in range(n):
        c3 = (c2 + c0 * c3) * 0.25
        c2 = c1 * c1 * 0.5
        c1 = c0 * c1
        c0 = 2. * c0 * c0 - 1.
    return [c0, c1, c2, c3]


def _Gs3(beta, X):
    g = _cs3(beta * X * X)
    g[1] *= X
    g[2] *= X * X
    g[3] *= X * X * X
    return g


def kepler_branch(M, p, dt):
    """which way `reb_whfast_kepler_solver` goes for this input (a Python re-run of its control flow only,
    used for the coverage record, not as an oracle): (ell|hyp, +|-, newton|quartic|bisect)"""
    x, y, z, vx, vy, vz = p
    r0 = math.sqrt(x * x + y * y + z * z)
    r0i = 1. / r0
    beta = 2. * M * r0i - (vx * vx + vy * vy + vz * vz)
    eta0 = x * vx + y * vy + z * vz
    zeta0 = M - beta * r0
    Xpp = float("nan")
    if beta > 0:
        Xpp = 2 * math.pi / math.sqrt(beta)
        dtr0i = dt * r0i
        X = dtr0i * (1. - dtr0i * eta0 * 0.5 * r0i)
    else:
        X = 0.
    oldX = X
    G = _Gs3(beta, X)
    e12 = eta0 * G[1] + zeta0 * G[2]
    X = (X * e12 - eta0 * G[2] - zeta0 * G[3] + dt) / (r0 + e12)
    conv = False
    if abs(X - oldX) > 0.01 * Xpp:
        kind = "quartic"
        X = beta * dt / M
        prev = {}
        n = 1
        while n < 64:
            G = _Gs3(beta, X)
            f = r0 * X + eta0 * G[2] + zeta0 * G[3] - dt
            fp = r0 + eta0 * G[1] + zeta0 * G[2]
            fpp = eta0 * G[0] + zeta0 * G[1]
            den = fp + math.sqrt(abs(16. * fp * fp - 20. * f * fpp))
            X = (X * den - 5. * f) / den
            if any(X == prev.get(i) for i in range(1, n)):
                conv = True
                break
            prev[n] = X
            n += 1
    else:
        kind = "newton"
        for n in range(1, 32):
            oldX2, oldX = oldX, X
            G = _Gs3(beta, X)
            e12 = eta0 * G[1] + zeta0 * G[2]
            X = (X * e12 - eta0 * G[2] - zeta0 * G[3] + dt) / (r0 + e12)
            if X == oldX or X == oldX2:
                conv = True
                break
    return ("ell" if beta > 0 else "hyp", "+" if dt > 0 else "-", kind if conv else "bisect")


def orbit_state(rng, M, q, e, f):
    """Cartesian state of a conic (pericentre q, eccentricity e, true anomaly f) in a random orientation"""
    pp = q * (1 + e)
    r = pp / (1 + e * math.cos(f))
    sq = math.sqrt(M / pp)
    a, b, g = [rng.uniform(0, 2 * math.pi) for _ in range(3)]

    def rot(v):
        x, y, z = v
        x, y = x * math.cos(a) - y * math.sin(a), x * math.sin(a) + y * math.cos(a)
        y, z = y * math.cos(b) - z * math.sin(b), y * math.sin(b) + z * math.cos(b)
        x, y = x * math.cos(g) - y * math.sin(g), x * math.sin(g) + y * math.cos(g)
        return [x, y, z]
    return rot([r * math.cos(f), r * math.sin(f), 0.]) + rot([-sq * math.sin(f), sq * (e + math.cos(f)), 0.])


def probe_kepler(c, R):
    """the hypothesis `kepler(-τ) ∘ kepler(τ) = id` of the splitting theorems, on the real primitive
    `reb_whfast_kepler_solver` (called directly through ctypes), over elliptic/hyperbolic × sign of τ ×
    step size (down to |τ| << pericentre passage time, up to 3 periods / 40 passage times) so that the
    Newton, quartic and bisection branches are reached in both directions:
      inverse  K(-τ)(K(τ) s) = s            to 1e-8 × (1+|τ|/t_peri)   (conditioning of the flow)
      mirror   K(-τ)(x,v) = flip K(τ)(x,-v)  to 1e-12 × (1+|τ|/t_peri)  (bitwise on the unchanged tree)"""
    rng = c.rng.fork()
    clib = R.rb.clibrebound
    P = R.rb.Particle
    sim = R.rb.Simulation()
    sim.ri_whfast.timestep_warning = 1        # the "step larger than a period" warning is not under test

    def kep(M, p, dt):
        a = (P * 1)()
        for k, v in zip(COMP, p):
            setattr(a[0], k, v)
        clib.reb_whfast_kepler_solver(ctypes.byref(sim), a, ctypes.c_double(M), ctypes.c_uint(0), ctypes.c_double(dt))
        return [getattr(a[0], k) for k in COMP]

    def err(a, b, cc):
        sp = max(math.dist(a[:3], [0] * 3), math.dist(b[:3], [0] * 3))
        sv = max(math.dist(a[3:], [0] * 3), math.dist(b[3:], [0] * 3))
        e = max(math.dist(a[:3], cc[:3]) / sp, math.dist(a[3:], cc[3:]) / sv)
        return e if e == e else float("inf")
    n = 12000 if c.thorough else 2500
    hits = {"%s %s %s" % (t, sg, b): 0 for t in ("ell", "hyp") for sg in "+-" for b in (("newton", "quartic", "bisect") if t == "ell" else ("newton", "bisect"))}
    worst_inv, worst_mir, nbit = 0.0, 0.0, 0
    nviol = 0
    for it in range(n):
        M = rng.loguniform(0.1, 10)
        q = rng.loguniform(0.05, 2)
        if it % 2 == 0:
            e = rng.choice([rng.uniform(0, 0.3), rng.uniform(0.3, 0.9), rng.uniform(0.9, 0.999)])
            f = rng.uniform(-math.pi, math.pi)
            per = 2 * math.pi * math.sqrt((q / (1 - e)) ** 3 / M)
            dt = per * rng.choice([rng.loguniform(1e-3, 0.05), rng.uniform(0.05, 0.5), rng.uniform(0.5, 3)])
        else:
            e = rng.choice([rng.uniform(1.001, 1.1), rng.uniform(1.1, 1.5), rng.uniform(1.5, 3)])
            f = rng.uniform(-0.9, 0.9) * math.acos(-1 / e)
            dt = None
        tp = math.sqrt(q ** 3 / (M * (1 + e)))          # pericentre passage time q / v_q
        if dt is None:
            dt = tp * rng.choice([rng.loguniform(0.01, 0.3), rng.uniform(0.3, 5), rng.uniform(5, 40)])
        if rng.chance(0.5):
            dt = -dt
        p = orbit_state(rng, M, q, e, f)
        y = kep(M, p, dt)
        z = kep(M, y, -dt)
        m1 = kep(M, p, -dt)
        m2 = kep(M, p[:3] + [-v for v in p[3:]], dt)
        m2 = m2[:3] + [-v for v in m2[3:]]
        cond = 1 + abs(dt) / tp
        b1, b2, b3 = kepler_branch(M, p, dt), kepler_branch(M, y, -dt), kepler_branch(M, p, -dt)
        for b in (b1, b2, b3):
            hits["%s %s %s" % b] = hits.get("%s %s %s" % b, 0) + 1
        c.count(("kepler",) + b1 + b2[1:], nontrivial=True)
        e1, e2 = err(p, y, z), err(m1, m1, m2)
        worst_inv, worst_mir = max(worst_inv, e1 / cond), max(worst_mir, e2 / cond)
        nbit += [d2h(v) for v in m1] == [d2h(v) for v in m2]
        rep = dict(integrator="kepler-primitive", M=M, state=p, dt=dt, nsteps=1, particles=[], q=q, e=e, branches=[b1, b2, b3],
                   procedure="reb_whfast_kepler_solver(r, p, M, 0, dt) then (.., -dt); and K(-dt)(x,v) against the velocity-flipped K(dt)(x,-v)")
        if not e1 <= 1e-8 * cond and nviol < 3:
            nviol += 1
            c.violation("kepler-inverse-%s%s" % (b1[0], b1[1]),
                        "reb_whfast_kepler_solver: kepler(-dt) does not undo kepler(dt) (%s, dt %+.3g = %.3g passage times, branches %s then %s): error %.2e"
                        % ("hyperbolic e=%.3f" % e if e > 1 else "elliptic e=%.3f" % e, dt, abs(dt) / tp, b1[2], b2[2], e1), dict(rep, error=e1))
        elif not e2 <= 1e-12 * cond and nviol < 3:
            nviol += 1
            c.violation("kepler-mirror-%s%s" % (b3[0], b3[1]),
                        "reb_whfast_kepler_solver: kepler(-dt)(x,v) is not the time reverse of kepler(dt)(x,-v) (%s, dt %+.3g, branch %s): error %.2e"
                        % ("hyperbolic e=%.3f" % e if e > 1 else "elliptic e=%.3f" % e, dt, b3[2], e2), dict(rep, error=e2))
    c.cov["kepler_primitive_solves_by(orbit,sign of dt,solver branch)"] = hits
    c.cov["kepler_primitive_not_covered"] = sorted(k for k, v in hits.items() if v == 0)
    dim("kepler primitive: hyperbolic dt<0 bisection", hits.get("hyp - bisect", 0))
    dim("kepler primitive: elliptic dt<0 quartic", hits.get("ell - quartic", 0))
    c.cov["kepler_primitive_worst_inverse_error_over_conditioning"] = float("%.3g" % worst_inv)
    c.cov["kepler_primitive_worst_mirror_error_over_conditioning"] = float("%.3g" % worst_mir)
    c.cov["kepler_primitive_mirror_bitwise"] = "%d of %d" % (nbit, n)


def gen_flyby(rng, kind, light=False):
    """star + 1..3 well separated planets + one body that exercises the Kepler solver away from the
    easy regime: kind 'hyp' = close hyperbolic fly-by (q 0.05..0.5, e 1.05..2, starts inbound, passes
    pericentre during the run), kind 'ecc' = massless eccentric bound orbit (e 0.6..0.9, q 0.1..0.4) stepped with
    3..20 % of its period for 8..25 steps"""
    parts = [[1.0, 0.0, 0.0, 0.0, 0.0, 0.0, 0.0]]
    a = rng.uniform(0.8, 1.2)
    for i in range(rng.randint(1, 3)):
        m = rng.loguniform(1e-7, 1e-4) if light else rng.loguniform(1e-6, 1e-3)
        ph = rng.uniform(0, 2 * math.pi)
        v = math.sqrt((1 + m) / a)
        parts.append([m, a * math.cos(ph), a * math.sin(ph), 0.0, -v * math.sin(ph), v * math.cos(ph), 0.0])
        a *= rng.uniform(1.6, 2.2)
    if kind == "hyp":
        e, q = rng.uniform(1.05, 2.0), rng.loguniform(0.05, 0.5)
        f = -rng.uniform(0.6, 0.9) * math.acos(-1 / e)
        dt = 2 * math.pi * rng.uniform(0.02, 0.08)
        nst = rng.randint(30, 80)
    else:
        e, q = rng.uniform(0.6, 0.9), rng.loguniform(0.1, 0.4)
        f = rng.uniform(-math.pi, math.pi)
        dt = 2 * math.pi * (q / (1 - e)) ** 1.5 * rng.uniform(0.03, 0.2)
        nst = rng.randint(8, 25)
    parts.append([(0.0 if kind == "ecc" else rng.choice([0.0, 1e-9, 1e-6]))] + orbit_state(rng, 1.0, q, e, f))
    return parts, dt * (1 if rng.chance(0.5) else -1), nst, dict(q=q, e=e)


def search_flyby(c, R):
    """whole-integrator round trips whose Kepler drifts are not the easy ones: unbound fly-bys and eccentric
    bound bodies with long steps; WHFast ×4 coordinates × safe_mode 0/1, uncorrected SABA, MERCURIUS (fly-by only).
    Bounds (clean-tree calibration over 600 systems each): fly-by ≤ 4e-13 → 3e-10; MERCURIUS fly-by ≤ 2.2e-8
    (switching function near planets) → 1e-6; massless eccentric body with long steps: median 2e-13, 99.9 % ≤ 5e-8,
    max 6.6e-6 over 3900 runs (ill-conditioned: a coarse net only, the sharp instrument is probe_kepler) → 1e-3."""
    rng = c.rng.fork()
    reps = 10 if c.thorough else 3
    variants = [("whfast", k, sm) for k in WH_COORDS for sm in (1, 0)] + [("saba", t) for t in ("1", "2", "4", "10,6,4", "h8,6,4")] + [("mercurius",)]
    worst = {}
    solves = {"hyperbolic body, dt>0 leg": 0, "hyperbolic body, dt<0 leg": 0, "eccentric body, dt>0 leg": 0, "eccentric body, dt<0 leg": 0}
    for rep in range(reps):
        for variant in variants:
            for kind in ("hyp", "ecc"):
                if variant[0] == "mercurius" and kind == "ecc":
                    continue
                parts, dt, nst, info = gen_flyby(rng, kind, light=(variant[0] == "mercurius"))
                n = len(parts)
                s = R.sim(1.0, parts, "leapfrog")
                if variant[0] == "mercurius":
                    s.integrator = "mercurius"
                else:
                    configure(s, variant[:2])
                    if variant[0] == "whfast":
                        s.ri_whfast.safe_mode = variant[2]
                s.move_to_com()
                d0 = R.doubles(s)
                s.dt = dt
                s.steps(nst)
                d1 = R.doubles(s)
                s.synchronize()
                s.dt = -s.dt
                s.steps(nst)
                s.synchronize()
                e = relerr(d0, R.doubles(s), n)
                name = "-".join(str(v) for v in variant) + ":" + kind
                worst[name] = max(worst.get(name, 0.0), e)
                dim("sym: hyperbolic member" if kind == "hyp" else "sym: eccentric member, long steps")
                lab = "hyperbolic body" if kind == "hyp" else "eccentric body"
                solves[lab + (", dt>0 leg" if dt > 0 else ", dt<0 leg")] += nst
                solves[lab + (", dt<0 leg" if dt > 0 else ", dt>0 leg")] += nst
                c.count((name, n, dt > 0), nontrivial=relerr(d0, d1, n) > 1e-3)
                tol = 1e-3 if kind == "ecc" else (1e-6 if variant[0] == "mercurius" else tol_for(nst))
                if not e <= tol:
                    c.violation("%s-roundtrip-%s" % ("-".join(str(v) for v in variant[:2]), "flyby" if kind == "hyp" else "eccentric"),
                                "%s with %s (q=%.3f e=%.3f): %d steps forward and back return to the start only to %.2e (bound %.0e)"
                                % ("-".join(str(v) for v in variant), "a hyperbolic fly-by" if kind == "hyp" else "an eccentric body and long steps", info["q"], info["e"], nst, e, tol),
                                dict(integrator=variant[0], variant=list(variant), G=1.0, dt=dt, nsteps=nst, particles=parts, error=e, bound=tol,
                                     procedure="add particles; configure (safe_mode as given); move_to_com; nsteps; synchronize; sim.dt=-sim.dt; nsteps; synchronize"))
    c.cov["flyby_worst_roundtrip_error"] = {k: float("%.3g" % v) for k, v in sorted(worst.items())}
    c.cov["flyby_kepler_steps_by(orbit type, direction)"] = solves


def relerr(a, b, n):
    """max over particles of |Δpos|/max|pos| and |Δvel|/max|vel|"""
    sp = max(abs(a[6 * i + k]) for i in range(n) for k in range(3)) or 1.0
    sv = max(abs(a[6 * i + 3 + k]) for i in range(n) for k in range(3)) or 1.0
    ep = max(abs(a[6 * i + k] - b[6 * i + k]) for i in range(n) for k in range(3)) / sp
    ev = max(abs(a[6 * i + 3 + k] - b[6 * i + 3 + k]) for i in range(n) for k in range(3)) / sv
    e = max(ep, ev)
    return e if e == e else float("inf")


def tol_for(nst):
    """calibrated on the clean tree: the rounding error of a forward/backward round trip grows like
    n^1.5 … n^2 (along-track / shear drift of a rounding-level offset): worst seen 3e-11 at n=1e3 and
    9e-9 at n=1e4 (SEI), 7e-10 at n=1e4 (EOS)."""
    return 3e-10 * max(1.0, (nst / 1000.0) ** 2)



def configure(s, variant):
    kind = variant[0]
    if kind == "leapfrog":
        s.integrator = "leapfrog"
    elif kind == "whfast":
        s.integrator = "whfast"
        s.ri_whfast.coordinates = variant[1]
        s.ri_whfast.safe_mode = 1
        s.ri_whfast.corrector = 0
    elif kind == "saba":
        s.integrator = "saba"
        s.ri_saba.type = variant[1]
        s.ri_saba.safe_mode = 1
    elif kind == "eos":
        s.integrator = "eos"
        s.ri_eos.phi0 = variant[1]
        s.ri_eos.phi1 = variant[2]
        s.ri_eos.n = variant[3]
        s.ri_eos.safe_mode = 1


# ---- factors of the round-trip generator for the rounding-level schemes
EVENTS_S = ["none", "sync", "dt", "save", "flag"]


def sym_variants():
    v = [("leapfrog",)] + [("whfast", k) for k in WH_COORDS] + [("saba", t) for t in SABA_UNCORRECTED]
    for a in EOS_UNPROCESSED:
        v.append(("eos", a, "lf", 2))
    for b in EOS_UNPROCESSED[1:]:
        v.append(("eos", "lf", b, 2))          # every splitting also as the inner one (phi1)
    v += [("eos", "lf4", "lf4", 1), ("eos", "lf", "lf8_6_4", 3), ("eos", "lf8", "lf6", 2), ("eos", "lf4_2", "lf4_2", 1), ("eos", "lf6", "lf4", 4)]
    return v


def vname(variant):
    return "-".join(str(x) for x in variant)


def sym_factors():
    names = [vname(v) for v in sym_variants()]
    noflag = [n for n in names if not (n.startswith("whfast") or n.startswith("saba"))]
    novar = [n for n in names if n not in ("leapfrog", "whfast-jacobi")]
    nokeep = [n for n in names if not (n.startswith("whfast") or n.startswith("saba"))]
    F = dict(scheme=names, safe=["1", "0"], keep=["0", "1"], call=["steps", "single", "integrate"], syncvia=["synchronize()", "integrate(t)"],
             turn=["sync", "restore", "flag"], evA=EVENTS_S, evB=EVENTS_S, com=["moved", "boost"],
             roles=["all", "tp_massless"], cb=["none", "pre", "post", "pre+post"], force=["none", "k"], var=["no", "yes"], G=["1", "other"],
             sign=["+", "-"], fam=["calm_long", "calm_short", "moderate"])
    X = [("scheme", "leapfrog", "safe", "0", "LEAPFROG has no safe_mode"),
         ("keep", "1", "safe", "1", "rejected by the code: keep_unsynchronized == 1 is not compatible with safe_mode"),
         ("keep", "1", "scheme", nokeep, "keep_unsynchronized exists only for WHFast and SABA"),
         ("scheme", noflag, "turn", "flag", "no recalculation flag outside WHFast/SABA"),
         ("scheme", noflag, "evA", "flag", "no recalculation flag outside WHFast/SABA"),
         ("scheme", noflag, "evB", "flag", "no recalculation flag outside WHFast/SABA"),
         ("scheme", novar, "var", "yes", "variational equations exist only for LEAPFROG and WHFast/Jacobi (SABA raises, the others ignore them)"),
         ("var", "yes", "roles", "tp_massless", "variational particles of test particles: not generated"),
         ("com", "boost", "fam", "calm_long", "ill-conditioned beyond 1000 steps: |x| grows with t"),
         ("com", "boost", "force", "k", "an external force with a net pull on a travelling centre of mass: WHFast's DH / WHDS / barycentric coordinates assume a uniformly "
                                        "moving COM and do not converge then (dt vs dt/4 differ by O(1), Jacobi 2e-4): not a reversal question; noted as an observation"),
         ("force", "k", "fam", "calm_long", "cost: Python callback"),
         ("var", "yes", "fam", "calm_long", "tangent vectors grow like t: the bound is calibrated for bounded states (4.5e-8 against 3e-8 at 1e4 steps)"),
         ("cb", ["pre", "post", "pre+post"], "fam", "calm_long", "cost: Python callback")]
    return F, X, ["safe", "keep", "call", "syncvia", "turn", "evA", "evB", "com", "roles", "var", "force"]


def build_sym_case(rng, f, nmax):
    variant = next(v for v in sym_variants() if vname(v) == f["scheme"])
    moderate = f["fam"] == "moderate"
    n = rng.randint(3, 6) if moderate else rng.randint(3, 8)
    G, parts = gen_planetary(rng, n, calm=True, moderate=moderate)
    P0 = inner_period(G, parts)
    dt = P0 / rng.choice([20, 40, 100]) * (1 if f["sign"] == "+" else -1)
    nst = {"calm_long": rng.choice([500, nmax, rng.randint(300, nmax)]), "calm_short": rng.randint(20, 200), "moderate": rng.randint(50, 300)}[f["fam"]]
    if f["G"] != "1":
        G = rng.choice([4 * math.pi ** 2, 0.01])
        for p in parts:
            for k3 in (4, 5, 6):
                p[k3] *= math.sqrt(G)
        dt /= math.sqrt(G)
    fc = mkfc(G)
    if f["roles"] == "tp_massless":
        fc["nactive"] = rng.randint(2, n - 1)
        for p in parts[fc["nactive"]:]:
            p[0] = 0.0
        if variant[0] == "leapfrog":
            fc["tptype"] = rng.randint(0, 1)
    fc["cb"] = tuple(x for x in f["cb"].split("+") if x != "none")
    if f["force"] == "k":
        fc["k"] = rng.loguniform(1e-3, 3e-2) * G
        nst = min(nst, 150)
    if f["com"] == "boost":
        off = [rng.normal() * 2 for _ in range(3)] + [rng.normal() * 0.2 * math.sqrt(G) for _ in range(3)]
        for p in parts:
            for k3 in range(6):
                p[1 + k3] += off[k3]
        nst = min(nst, 1000)
    return dict(variant=list(variant), fc=fc, parts=parts, dt=dt, nst=nst, safe=int(f["safe"]), keep=int(f["keep"]), call=f["call"], syncvia=f["syncvia"],
                turn=f["turn"], evA=f["evA"], evB=f["evB"], com=f["com"],
                var=f["var"] == "yes", dtfacs=[rng.choice([0.5, 0.7, 1.5]), rng.choice([0.8, 1.25])], G=G, n=n)


def sym_run(R, P, dtdiv=1):
    """forward leg of nst steps with event evA after step s and evB after step s+1 (sync = an output synchronisation; dt = really
    synchronize, then the user changes the step; save = binary file round trip of the possibly unsynchronized simulation, continue
    on the restored object; flag = really synchronize, then set ri_whfast.recalculate_coordinates_this_timestep as documented after
    touching particles); turning point: really synchronize, then (restore | set the flag | nothing), negate dt; mirrored backward
    leg; synchronize.
    call: how steps are taken — steps(n) | n times step() | integrate() without exact finish time (which synchronizes at its end);
    syncvia: how a synchronisation is requested — sim.synchronize() | sim.integrate(sim.t), an integrate() call with nothing left
    to integrate (an output request at the time already reached);
    keep = 1: ri_*.keep_unsynchronized — output synchronisations leave the internal state unsynchronized; where the state must
    really be synchronized (before dt is changed) the user switches it off for that call.
    dtdiv: all steps divided / all counts multiplied (dt-halving discriminator)."""
    variant = tuple(P["variant"])
    s = R.sim(P["fc"], P["parts"], "leapfrog")
    configure(s, variant)
    ri = getattr(s, "ri_" + variant[0]) if variant[0] in ("whfast", "saba", "eos") else None
    if P["safe"] == 0 and ri is not None:
        ri.safe_mode = 0
    keep = bool(P.get("keep")) and variant[0] in ("whfast", "saba")
    if keep:
        ri.keep_unsynchronized = 1
    if P["com"] == "moved" and variant[0] != "leapfrog":
        s.move_to_com()
    if P["var"]:
        v = s.add_variation()
        for i in range(len(P["parts"])):
            q = v.particles[i]
            q.x, q.y, q.z = 0.3 + 0.1 * i, -0.2 + 0.05 * i, 0.01 * (i + 1)
            q.vx, q.vy, q.vz = 0.05 * (i + 1), 0.4 - 0.1 * i, -0.02 * i
    d0 = R.doubles(s)
    segs = []          # [dt, n, synchronized_after]: the backward leg synchronizes exactly where the forward leg did (for EOS an
                       # unsynchronised pair of steps is a different — still symmetric — scheme than two synchronized ones)
    via_integrate = P.get("syncvia") == "integrate(t)"
    call = P.get("call", "steps")

    def request_sync(s):
        if via_integrate:
            s.integrate(s.t)              # nothing left to integrate: only synchronizes
        else:
            s.synchronize()

    def really_sync(s):
        r_ = getattr(s, "ri_" + variant[0]) if keep else None
        if keep:
            r_.keep_unsynchronized = 0
        request_sync(s)
        if keep:
            r_.keep_unsynchronized = 1

    def advance(s, n):
        """n steps; returns True if the call pattern synchronized at its end"""
        if call == "single":
            for _ in range(n):
                s.step()
            return False
        if call == "integrate":
            before = s.steps_done
            s.integrate(s.t + (n - 0.5) * s.dt, exact_finish_time=0)
            if s.steps_done - before != n:
                raise Infra("integrate() took %d steps instead of %d" % (s.steps_done - before, n))
            return not keep
        s.steps(n)
        return False

    def fwd(s, n):
        if n > 0:
            segs.append([s.dt, n, False])
            segs[-1][2] = advance(s, n)
        return s

    def event(s, ev, k):
        if ev == "sync":
            request_sync(s)
            if segs and not keep:
                segs[-1][2] = True
        elif ev in ("dt", "flag"):
            really_sync(s)
            if segs:
                segs[-1][2] = True
        if ev == "dt":
            s.dt = s.dt * P["dtfacs"][k]
        elif ev == "save":
            s = reload_sim(R, s, "save")
        elif ev == "flag":
            s.ri_whfast.recalculate_coordinates_this_timestep = 1
        return s
    nst = P["nst"] * dtdiv
    s.dt = P["dt"] / dtdiv
    if P["evA"] == "none" and P["evB"] == "none":
        s = fwd(s, nst)
    else:
        na = max(1, (nst - dtdiv) // 2)
        s = fwd(s, na)
        s = event(s, P["evA"], 0)
        s = fwd(s, dtdiv)
        s = event(s, P["evB"], 1)
        s = fwd(s, nst - dtdiv - na)
    request_sync(s)                                # what the user looks at …
    d1 = R.doubles(s)
    really_sync(s)                                 # … and the real synchronisation before the step is negated
    if P["turn"] == "restore":
        s = reload_sim(R, s, "save")
    elif P["turn"] == "flag":
        s.ri_whfast.recalculate_coordinates_this_timestep = 1
    s.dt = -s.dt                                  # the user's sign flip at the turning point
    for j in range(len(segs) - 1, -1, -1):
        d, n, _ = segs[j]
        if s.dt != -d:
            s.dt = -d                             # (only after a real synchronisation: a dt event synchronized the forward leg here)
        advance(s, n)
        if j > 0 and segs[j - 1][2]:
            really_sync(s)
    really_sync(s)
    return d0, d1, R.doubles(s)


def search_symmetric(c, R):
    import c10_cover as CV
    rng = c.rng.fork()
    nmax = 10000 if c.thorough else 1000
    Fd, X, T = sym_factors()
    F = CV.Factors(Fd, X, T)
    arr, stuck = CV.covering_array(F, rng.fork(), with_triples=c.thorough, ncand=12)
    cases = arr                    # the complete pairwise array also in quick (about 170 cases); pairs + triples in thorough
    cov = CV.Coverage(F, with_triples=c.thorough, implied_excluded=stuck)
    worst, worst_fam = {}, {}
    disc = 0
    for f in cases:
        P = build_sym_case(rng, f, nmax)
        variant, nst, dt, G = tuple(P["variant"]), P["nst"], P["dt"], P["G"]
        d0, d1, d2 = sym_run(R, P)
        n = len(d0) // 6                       # variational particles included
        e = relerr(d0, d2, n)
        travelled = relerr(d0, d1, n)
        cov.add(f)
        name = f["scheme"]
        worst[name] = max(worst.get(name, 0.0), e)
        worst_fam[f["fam"]] = max(worst_fam.get(f["fam"], 0.0), e)
        c.count(("sym",) + tuple(f[k] for k in F.names), nontrivial=travelled > 1e-3)
        evs = (f["evA"], f["evB"])
        for cond, nm in ((f["safe"] == "0", "safe_mode = 0, synchronize only at the turning point"), (f["turn"] == "restore" or "save" in evs, "restore at the turning point"),
                         ("dt" in evs, "dt changed by the user mid-run"), (f["com"] == "boost", "COM offset + boost (no move_to_com)"),
                         (f["roles"] != "all", "massless test particles"), (f["cb"] != "none", "callbacks pre/post"), (f["force"] == "k", "additional force, velocity independent"),
                         (P["var"], "variational particles with non-zero data"), (dt < 0, "dt < 0 first"), (f["G"] != "1", "G != 1"),
                         (f["turn"] == "flag" or "flag" in evs, "documented recalculation flag set by the user"),
                         (f["syncvia"] == "integrate(t)" and f["safe"] == "0", "half step pending when integrate(t) is asked to synchronize"),
                         (f["keep"] == "1", "keep_unsynchronized = 1"), (f["call"] == "integrate", "steps taken by integrate()")):
            if cond:
                dim("sym: " + nm)
        tag = " ".join("%s=%s" % (k, f[k]) for k in F.names[1:] if (k, f[k]) not in (("safe", "1"), ("keep", "0"), ("call", "steps"), ("syncvia", "synchronize()"),
               ("turn", "sync"), ("evA", "none"), ("evB", "none"), ("com", "moved"), ("roles", "all"), ("cb", "none"), ("force", "none"), ("var", "no"), ("G", "1"), ("sign", "+"), ("fam", "calm_short")))
        rep_d = dict(integrator=variant[0], variant=list(variant), case=P, factors=f, G=G, dt=dt, nsteps=nst, particles=P["parts"], error=e,
                     procedure="add particles; configure per `factors`; forward leg with the two adjacent events; synchronize; turning point; mirrored backward leg; synchronize; "
                               "relative max-norm difference to the start")
        TOL = tol_for(nst)
        if not e <= TOL:
            c.violation("%s-roundtrip" % name, "%s (%s): %d steps forward and back return to the start only to %.2e (bound %.0e)" % (name, tag, nst, e, TOL), rep_d)
        elif e > 20 * nst ** 1.5 * 1.1e-16:
            # dt-halving discriminator, for errors above the rounding level expected for this n (calibration: clean-tree errors
            # stay below 4 n^1.5 eps) but below the bound: the reversal defect of a non-symmetric scheme is a power of dt, rounding
            # is not.  Same time span with dt/2 and dt/4; a hit must repeat on a perturbed copy (rounding noise does not).
            disc += 1

            def scaling(pp):
                es = []
                for k in (1, 2, 4):
                    r0, _, r2 = sym_run(R, dict(P, parts=pp), dtdiv=k)
                    es.append(relerr(r0, r2, n))
                return es, (es[0] > 1.7 * es[1] and es[1] > 1.7 * es[2] and es[0] > 5 * es[2])
            es, hit = scaling(P["parts"])
            if hit:
                parts2 = [[p[0]] + [v * (1 + 1e-9 * (i + 1)) for v in p[1:]] for i, p in enumerate(P["parts"])]
                es2, hit2 = scaling(parts2)
                if hit2 and es2[0] > 20 * nst ** 1.5 * 1.1e-16:
                    c.violation("%s-roundtrip-dt-scaling" % name,
                                "%s (%s): reversal error falls with the step like a truncation error (dt %.2e, dt/2 %.2e, dt/4 %.2e), not like rounding" % (name, tag, es[0], es[1], es[2]),
                                dict(rep_d, errors_dt_dt2_dt4=es, errors_perturbed_copy=es2))
    rep = cov.report()
    rep["excluded_reasons"] = CV.excluded_table(F)
    rep["cases"] = len(cases)
    rep["array_size"] = len(arr)
    PAIRS["symmetric-scheme round trips"] = rep
    search_sei(c, R, rng, worst)
    c.cov["worst_roundtrip_error_by_scheme"] = {k: float("%.3g" % v) for k, v in sorted(worst.items())}
    c.cov["worst_roundtrip_error_by_family"] = {k: float("%.3g" % v) for k, v in sorted(worst_fam.items())}
    c.cov["dt_halving_discriminator_runs"] = disc


SEI_FACTORS = dict(evA=["none", "sync", "dt", "save"], evB=["none", "sync", "dt", "save"], turn=["plain", "restore"], omz=["same", "differs"], sign=["+", "-"],
                   roles=["all", "tp0_massless", "tp1_massless"], cb=["none", "pre", "post"], box=["none", "shear", "shear+ghost"], ncls=["50", "200", "long"])
SEI_EXCLUDED = [("box", ["shear", "shear+ghost"], "ncls", "long", "cost; 200 steps are several shear times already")]


def sei_run(R, P):
    s = sei_sim(R, P["om"], P["omz"], P["fc"], P["parts"])
    if P["box"]:
        s.configure_box(P["box"])
        s.boundary = "shear"
        s.N_ghost_x = s.N_ghost_y = P["ghost"]
    d0 = R.doubles(s)
    segs = []

    def fwd(s, n):
        if n > 0:
            segs.append((s.dt, n))
            s.steps(n)
        return s

    def event(s, ev, k):
        if ev == "sync":
            s.synchronize()
            s.energy()
        elif ev == "dt":
            s.dt = s.dt * P["dtfacs"][k]
        elif ev == "save":
            s = reload_sim(R, s, "save")
        return s
    nst = P["nst"]
    s.dt = P["dt"]
    if P["evA"] == "none" and P["evB"] == "none":
        s = fwd(s, nst)
    else:
        na = max(1, (nst - 1) // 2)
        s = fwd(s, na)
        s = event(s, P["evA"], 0)
        s = fwd(s, 1)
        s = event(s, P["evB"], 1)
        s = fwd(s, nst - 1 - na)
    d1 = R.doubles(s)
    tmid = s.t
    if P["turn"] == "restore":
        s = reload_sim(R, s, "save")
    if len({d for d, _ in segs}) == 1:
        s.dt = -s.dt
        s.steps(sum(n for _, n in segs))
    else:
        for d, n in reversed(segs):
            s.dt = -d
            s.steps(n)
    return d0, d1, R.doubles(s), tmid


def build_sei_case(rng, f, nmax, selfgravity_in_box=False):
    n = rng.randint(2, 8)
    om, omz, G, parts = gen_sheet(rng, n, omz_differs=(f["omz"] == "differs"))
    box, ghost = None, 0
    if f["box"] != "none":
        box = rng.uniform(3.0, 6.0)
        ghost = 1 if f["box"].endswith("ghost") else 0
        for q in parts:
            q[1], q[2] = rng.uniform(-box / 2, box / 2), rng.uniform(-box / 2, box / 2)
            q[5] += -1.5 * om * q[1]
        G = (G or 1e-6) if selfgravity_in_box else 0.0
    fc = mkfc(G)
    if f["roles"] != "all" and n >= 2:
        fc["nactive"] = rng.randint(1, n - 1)
        fc["tptype"] = int(f["roles"][2])
        for p in parts[fc["nactive"]:]:
            p[0] = 0.0
    fc["cb"] = tuple(x for x in [f["cb"]] if x != "none")
    dt = (2 * math.pi / om) / rng.choice([20, 50, 200]) * (1 if f["sign"] == "+" else -1)
    nst = {"50": 50, "200": 200, "long": nmax}[f["ncls"]]
    if box:
        dt = (2 * math.pi / om) / rng.choice([20, 50]) * (1 if dt > 0 else -1)
        nst = 200                 # several shear times: every particle streams through the box
    return dict(om=om, omz=omz, fc=fc, parts=parts, dt=dt, nst=nst, evA=f["evA"], evB=f["evB"], turn=f["turn"], box=box, ghost=ghost,
                dtfacs=[rng.choice([0.5, 0.7, 1.5, -0.8]), rng.choice([0.8, 1.25])], n=n, G=G)


def search_sei(c, R, rng, worst):
    import c10_cover as CV
    nmax = 10000 if c.thorough else 1000
    F = CV.Factors(SEI_FACTORS, SEI_EXCLUDED, ["evA", "evB", "turn", "box", "roles"])
    arr, stuck = CV.covering_array(F, rng.fork(), with_triples=c.thorough, ncand=20)
    cov = CV.Coverage(F, with_triples=c.thorough, implied_excluded=stuck)
    shear_g = []
    for f in arr:
        P = build_sei_case(rng, f, nmax)
        n, nst, om = P["n"], P["nst"], P["om"]
        d0, d1, d2, tmid = sei_run(R, P)
        e = relerr(d0, d2, n)
        cov.add(f)
        worst["sei"] = max(worst.get("sei", 0.0), e)
        crossed = bool(P["box"]) and abs(tmid) * 1.5 * om * max(abs(q[1]) for q in P["parts"]) > P["box"]
        c.count(("sei",) + tuple(f[k] for k in F.names), nontrivial=relerr(d0, d1, n) > 1e-3)
        evs = (f["evA"], f["evB"])
        for cond, nm in (("dt" in evs, "dt changed by the user mid-run"), (f["turn"] == "restore" or "save" in evs, "restore at the turning point"),
                         (crossed, "shear boundary crossed, no self-gravity"), (P["omz"] != om, "OMEGAZ != OMEGA")):
            if cond:
                dim("sei: " + nm)
        TOL = tol_for(nst)
        if not e <= TOL:
            tag = " ".join("%s=%s" % (k, f[k]) for k in F.names if f[k] not in ("none", "plain", "same", "all"))
            c.violation("sei-roundtrip", "SEI (%s): %d steps forward and back return to the start only to %.2e (bound %.0e)" % (tag, nst, e, TOL),
                        dict(integrator="sei", case=P, factors=f, OMEGA=om, OMEGAZ=P["omz"], G=P["G"], fc=P["fc"], dt=P["dt"], nsteps=nst, particles=P["parts"], error=e))
    # shear-periodic box WITH self-gravity: wrapping happens after the step in both directions; with a force summed over a finite
    # set of ghost boxes the step does not commute with the wrap, so the round trip closes only to ~G m/L^2 dt^2: outside the
    # property ("rounding error") — measured, not asserted.
    for k in range(4 if c.thorough else 2):
        f = dict(evA="none", evB="none", turn="plain", omz="same", sign="+", roles="all", cb="none", box=("shear+ghost" if k % 2 else "shear"), ncls="200")
        P = build_sei_case(rng, f, nmax, selfgravity_in_box=True)
        d0, d1, d2, _ = sei_run(R, P)
        shear_g.append(relerr(d0, d2, P["n"]))
        c.count(None, nontrivial=False)
    c.cov["sei_shear_box_with_self_gravity_roundtrip_error(measured, not asserted)"] = [float("%.2g" % v) for v in shear_g]
    rep = cov.report()
    rep["excluded_reasons"] = CV.excluded_table(F)
    rep["cases"] = len(arr)
    PAIRS["sei round trips"] = rep


def replay(path):
    """./check C10 --replay replays/C10-….json : re-run a recorded failing input on the current tree"""
    rp = json.load(open(path))["replay"]
    d = build()
    R = Real(use_scratch_rebound(d))
    if rp["integrator"] == "kepler-primitive":
        clib, P = R.rb.clibrebound, R.rb.Particle
        sim = R.rb.Simulation()

        def kep(p, dt):
            a = (P * 1)()
            for k, v in zip(COMP, p):
                setattr(a[0], k, v)
            clib.reb_whfast_kepler_solver(ctypes.byref(sim), a, ctypes.c_double(rp["M"]), ctypes.c_uint(0), ctypes.c_double(dt))
            return [getattr(a[0], k) for k in COMP]
        p, dt = rp["state"], rp["dt"]
        z = kep(kep(p, dt), -dt)
        m1, m2 = kep(p, -dt), kep(p[:3] + [-v for v in p[3:]], dt)
        e1 = max(abs(a - b) for a, b in zip(p, z)) / max(abs(v) for v in p)
        e2 = max(abs(a - b) for a, b in zip(m1, m2[:3] + [-v for v in m2[3:]])) / max(abs(v) for v in m1)
        print("kepler(-dt) o kepler(dt): error %.3e; mirror symmetry: error %.3e" % (e1, e2))
        ok = e1 <= rp.get("error", 1) / 100 or (e1 < 1e-6 and e2 < 1e-9)
        print("replay:", "property holds on this input" if ok else "STILL FAILING")
        sys.stdout.flush()
        os._exit(0 if ok else 1)
    parts, dt, nst = rp["particles"], rp["dt"], rp["nsteps"]
    G = rp.get("fc") or mkfc(rp.get("G", 1.0))        # the whole force / callback configuration
    G["cb"] = tuple(G["cb"])
    if rp["integrator"] == "janus":
        P = rp["case"]
        P["fc"]["cb"] = tuple(P["fc"]["cb"])
        o = janus_run(R, P)
        ok = o["i2"] == o["i0"] and o["d2"] == o["d0"] and not o["flag_bad"] and not o["sim"]._c10["probe_bad"]
        print("JANUS order %d, %d steps there and back: %s (flag not clear at %d boundaries, %d stale positions at force evaluations)"
              % (rp["order"], nst, "exact" if (o["i2"] == o["i0"] and o["d2"] == o["d0"]) else "NOT exact", o["flag_bad"], o["sim"]._c10["probe_bad"]))
    elif rp["integrator"] == "sei":
        P = rp["case"]
        P["fc"]["cb"] = tuple(P["fc"]["cb"])
        d0, _, d2, _ = sei_run(R, P)
        e = relerr(d0, d2, len(parts))
        ok = e <= tol_for(nst)
        print("SEI %d steps there and back: error %.3e (bound %.1e)" % (nst, e, tol_for(nst)))
    elif "bound" in rp:
        variant = tuple(rp["variant"])
        s = R.sim(1.0, parts, "leapfrog")
        if variant[0] == "mercurius":
            s.integrator = "mercurius"
        else:
            configure(s, variant[:2])
            if variant[0] == "whfast":
                s.ri_whfast.safe_mode = variant[2]
        s.move_to_com()
        d0 = R.doubles(s)
        s.dt = dt
        s.steps(nst)
        s.synchronize()
        s.dt = -s.dt
        s.steps(nst)
        s.synchronize()
        e = relerr(d0, R.doubles(s), len(parts))
        ok = e <= rp["bound"]
        print("%s %d steps there and back: error %.3e (bound %.1e)" % ("-".join(map(str, variant)), nst, e, rp["bound"]))
    else:
        P = rp["case"]
        P["fc"]["cb"] = tuple(P["fc"]["cb"])
        es = []
        for k in (1, 2, 4):
            r0, _, r2 = sym_run(R, P, dtdiv=k)
            es.append(relerr(r0, r2, len(r0) // 6))
        ok = es[0] <= tol_for(nst) and not (es[0] > 20 * nst ** 1.5 * 1.1e-16 and es[0] > 1.7 * es[1] and es[1] > 1.7 * es[2] and es[0] > 5 * es[2])
        print("%s %d steps there and back: error %.3e (bound %.1e); with dt/2, dt/4: %.3e %.3e" % (vname(rp["variant"]), nst, es[0], tol_for(nst), es[1], es[2]))
    print("replay:", "property holds on this input" if ok else "STILL FAILING")
    sys.stdout.flush()
    os._exit(0 if ok else 1)


if __name__ == "__main__":
    if "--replay" in sys.argv:
        replay(sys.argv[sys.argv.index("--replay") + 1])
    main("C10", run)
