"""C10 — JANUS is bit-wise time reversible; symmetric schemes reverse to rounding error.

proof:   lean/RV/Props/C10.lean — JANUS on an abstract double with the IEEE sign-symmetry
         laws as hypotheses, two's-complement int64, arbitrary force, every palindromic
         scheme, every n;  LEAPFROG / SEI / abstract palindromic splittings over a field.
tables:  lean/RV/Gen/C10Janus.lean regenerated from src/integrator_janus.c on every run
         (gamma text -> exact rationals, compiled IEEE bits, stage counts, gg index
         expressions, order switch).
tie:     drv_c10 (Float / two's complement model + its own BASIC gravity in C operation
         order) vs the compiled code: `ri_janus.p_int` and the particle doubles after every
         step, bit for bit, all orders, scales, dt signs; LEAPFROG likewise.
search:  forward n / backward n round trips on the real code: JANUS exact bits (initial
         conditions snapped to the grid by a dt=0 step), the other symmetric schemes to a
         calibrated bound plus a dt-halving discriminator.
"""
import ctypes, json, math, os, sys
sys.path.insert(0, os.path.dirname(os.path.abspath(__file__)))
from common import *
import extract_c10

MASK = (1 << 64) - 1
COMP = ["x", "y", "z", "vx", "vy", "vz"]
SCALES = [1e-16, 1e-16, 1e-15, 1e-14, 1e-12, 2.0 ** -40, 1e-10, 1e-7]
SABA_UNCORRECTED = ["1", "2", "3", "4", "10,4", "8,6,4", "10,6,4", "h8,4,4", "h8,6,4", "h10,6,4"]
EOS_UNPROCESSED = ["lf", "lf4", "lf6", "lf8", "lf4_2", "lf8_6_4"]
WH_COORDS = ["jacobi", "democraticheliocentric", "whds", "barycentric"]


# ----------------------------------------------------------------------------- dimension map
DIMS = {}
# cross-cutting dimensions this check considers applicable to C10 (a zero count is a broken obligation)
DIM_REQUIRED = [
    "janus: gravity basic", "janus: gravity compensated", "janus: gravity none + additional force", "janus: softening != 0", "janus: G != 1",
    "janus: scale_pos != scale_vel", "janus: N_active < N, testparticle_type 0", "janus: N_active < N, testparticle_type 1",
    "janus: massless test particles", "janus: massive test particles", "janus: single active body", "janus: zero-mass active body",
    "janus: callback pre_timestep_modifications", "janus: callback post_timestep_modifications", "janus: callback additional_forces (read-only probe)",
    "janus: additional force, velocity independent", "janus: heartbeat + integrate()", "janus: dt < 0 first", "janus: step longer than the inner period",
    "janus: split calls with synchronize/energy between", "janus: save + restore mid-way", "janus: copy() mid-way", "janus: restore at the turning point",
    "janus: dt changed by the user mid-run", "janus: t0 huge (|t|/dt ~ 1e12)", "janus: COM offset + boost", "janus: N > 128", "janus: integrator name upper case",
    "janus tie: N_active < N", "janus tie: callbacks", "janus tie: additional force", "janus tie: softening", "janus tie: no snapping step",
    "sym: safe_mode = 0, synchronize only at the turning point", "sym: restore at the turning point", "sym: dt changed by the user mid-run",
    "sym: COM offset + boost (no move_to_com)", "sym: massless test particles", "sym: callbacks pre/post", "sym: additional force, velocity independent",
    "sym: variational particles with non-zero data", "sym: dt < 0 first", "sym: hyperbolic member", "sym: eccentric member, long steps", "sym: G != 1",
    "sei: dt changed by the user mid-run", "sei: restore at the turning point", "sei: shear boundary crossed, no self-gravity", "sei: OMEGAZ != OMEGA",
    "kepler primitive: hyperbolic dt<0 bisection", "kepler primitive: elliptic dt<0 quartic",
]


def dim(name, n=1):
    DIMS[name] = DIMS.get(name, 0) + n


def reload_sim(R, s, how):
    """every public restore path that keeps the integrator state: binary file round trip, copy()"""
    if how == "copy":
        s2 = s.copy()
    else:
        path = os.path.join(os.environ.get("VERIF_TMP", "/tmp"), "c10_%d_%d.bin" % (os.getpid(), id(s) % 100000))
        if os.path.exists(path):
            os.remove(path)
        s.save_to_file(path)
        s2 = R.rb.Simulation(path)
        os.remove(path)
    s2._c10 = s._c10
    return s2


# ----------------------------------------------------------------------------- generators
def gen_planetary(rng, n, calm=False, moderate=False):
    """star + n-1 bodies on nested orbits (heliocentric construction, arbitrary frame offset).
    calm=True: well separated, low mass, low e (non-chaotic regime for the rounding-level schemes);
    moderate=True: the same spacing with giant-planet masses (the interaction and jump terms are
    large enough for an asymmetry in them to show within a few hundred steps)."""
    G = 1.0
    parts = [[1.0, 0.0, 0.0, 0.0, 0.0, 0.0, 0.0]]
    a = rng.uniform(0.7, 1.3)
    for i in range(1, n):
        m = rng.loguniform(1e-4, 2e-3) if moderate else (rng.loguniform(1e-9, 1e-5) if calm else rng.loguniform(1e-8, 3e-2))
        e = rng.uniform(0, 0.05) if calm else rng.uniform(0, 0.4)
        inc = rng.uniform(0, 0.05) if calm else rng.uniform(0, 0.5)
        ph = rng.uniform(0, 2 * math.pi)
        r = a * (1 - e)
        v = math.sqrt(G * (1.0 + m) * (1 + e) / r)
        x, y = r * math.cos(ph), r * math.sin(ph)
        vx, vy = -v * math.sin(ph), v * math.cos(ph)
        parts.append([m, x, y * math.cos(inc), y * math.sin(inc), vx, vy * math.cos(inc), vy * math.sin(inc)])
        a *= rng.uniform(1.5, 2.2) if calm else rng.uniform(1.25, 2.0)
    if not calm and rng.chance(0.5):     # frame offset / boost
        off = [rng.normal() * 3 for _ in range(3)] + [rng.normal() * 0.3 for _ in range(3)]
        for p in parts:
            for k in range(6):
                p[1 + k] += off[k]
    return G, parts


def gen_cloud(rng, n):
    """comparable masses, random positions, sub-virial velocities: strongly interacting"""
    G = rng.choice([1.0, 1.0, 4 * math.pi ** 2, 6.6743e-3])
    parts = []
    for i in range(n):
        parts.append([rng.loguniform(1e-3, 1.0)] + [rng.normal() * 2 for _ in range(3)] + [rng.normal() * 0.3 * math.sqrt(G) for _ in range(3)])
    return G, parts


def inner_period(G, parts):
    m0 = parts[0][0]
    best = None
    for p in parts[1:]:
        r = math.dist(p[1:4], parts[0][1:4])
        P = 2 * math.pi * math.sqrt(r ** 3 / (G * (m0 + p[0])))
        best = P if best is None else min(best, P)
    return best or 1.0


# ----------------------------------------------------------------------------- real code helpers
def mkfc(G=1.0, nactive=-1, tptype=0, k=0.0, cb=(), soft=0.0, gravity="basic", kv=0.0):
    """everything a user can configure around the force / the step that must not affect reversibility:
    N_active, testparticle_type, softening, a velocity-independent additional force a += -k x
    (installed as a ctypes `additional_forces` callback), read-only callbacks
    (cb ⊆ {pre, post, probe}: pre_/post_timestep_modifications, additional_forces), gravity routine"""
    return dict(G=G, nactive=nactive, tptype=tptype, k=k, cb=tuple(cb), soft=soft, gravity=gravity, kv=kv)


def asfc(x):
    return x if isinstance(x, dict) else mkfc(x)


def force_tokens(fc):
    fc = asfc(fc)
    return [d2h(fc["G"]), d2h(fc["soft"]), str(fc["nactive"]), str(fc["tptype"]), d2h(fc["k"]), d2h(fc.get("kv", 0.0))]


def gen_fc(rng, G, parts, full=True, extra=False):
    """random configuration; mutates the masses of `parts` when test particles are made massless.
    extra=True also varies what the Lean model does not replicate (compensated summation)."""
    n = len(parts)
    fc = mkfc(G)
    if not full:
        return fc
    if n >= 2 and rng.chance(0.4):
        fc["nactive"] = rng.randint(1, n - 1)
        fc["tptype"] = rng.randint(0, 1)
        if rng.chance(0.5):
            for p in parts[fc["nactive"]:]:
                p[0] = 0.0
    elif rng.chance(0.1):
        fc["nactive"] = n                      # explicit N_active == N
    if rng.chance(0.2):
        fc["soft"] = rng.loguniform(1e-4, 1e-2)
    cb = []
    if rng.chance(0.25):
        cb.append("pre")
    if rng.chance(0.25):
        cb.append("post")
    if rng.chance(0.3):
        cb.append("probe")
    if rng.chance(0.2):
        fc["k"] = rng.loguniform(1e-3, 1e-1) * G
    fc["cb"] = tuple(cb)
    if extra:
        r = rng.uniform()
        if r < 0.15:
            fc["gravity"] = "compensated"
        elif r < 0.25:
            fc["gravity"] = "none"                # then the additional force is the only force
            if fc["k"] == 0:
                fc["k"] = rng.loguniform(1e-2, 1.0) * G
        if rng.chance(0.1) and n >= 3:
            na = n if fc["nactive"] == -1 else fc["nactive"]
            if na >= 2:
                parts[rng.randint(1, na - 1)][0] = 0.0      # a zero-mass body among the active ones
    return fc


def fc_class(fc):
    fc = asfc(fc)
    return (fc["nactive"] != -1, fc["tptype"], fc["k"] != 0, fc["cb"], fc["soft"] != 0, fc["gravity"])


class Real:
    def __init__(self, rebound):
        self.rb = rebound

    def sim(self, fc, parts, integrator, janus=None):
        """janus = (order, scale_pos, scale_vel) configures JANUS and lets the probe check, at EVERY force
        evaluation (every stage), that the position of EVERY particle (also i >= N_active) is exactly
        to_double(p_int) — the hypothesis of the reversal theorem."""
        fc = asfc(fc)
        s = self.rb.Simulation()
        s.G = fc["G"]
        for p in parts:
            s.add(m=p[0], x=p[1], y=p[2], z=p[3], vx=p[4], vy=p[5], vz=p[6])
        s.integrator = integrator
        if fc["nactive"] != -1:
            s.N_active = fc["nactive"]
        if fc["tptype"]:
            s.testparticle_type = fc["tptype"]
        if fc["soft"]:
            s.softening = fc["soft"]
        if fc["gravity"] != "basic":
            s.gravity = fc["gravity"]
        if janus is not None:
            s.ri_janus.order, s.ri_janus.scale_pos, s.ri_janus.scale_vel = janus
        st = {"af": 0, "pre": 0, "post": 0, "hb": 0, "probe_checked": 0, "probe_bad": 0, "first_bad": None}
        s._c10 = st
        k = fc["k"]
        kv = fc.get("kv", 0.0)
        cb = fc["cb"]
        if "pre" in cb:
            def pre(ptr):
                st["pre"] += 1
                _ = ptr.contents.t
            s.pre_timestep_modifications = pre
        if "post" in cb:
            def post(ptr):
                st["post"] += 1
                _ = ptr.contents.N
            s.post_timestep_modifications = post
        if "hb" in cb:
            def hb(ptr):
                st["hb"] += 1
            s.heartbeat = hb
        if k != 0.0 or kv != 0.0 or "probe" in cb:
            probe = "probe" in cb and janus is not None
            sp = janus[1] if janus else None

            def af(ptr):
                sim = ptr.contents
                st["af"] += 1
                ps = sim._particles
                N = sim.N
                if probe and sim.ri_janus._N_allocated == N:
                    pi = sim.ri_janus.p_int
                    for i in range(N):
                        q, g = ps[i], pi[i]
                        st["probe_checked"] += 1
                        if q.x != float(g.x) * sp or q.y != float(g.y) * sp or q.z != float(g.z) * sp:
                            st["probe_bad"] += 1
                            if st["first_bad"] is None:
                                st["first_bad"] = dict(particle=i, N=N, N_active=sim.N_active, call=st["af"],
                                                       x=q.x, grid_x_times_scale=float(g.x) * sp)
                if k != 0.0:
                    for i in range(N):
                        q = ps[i]
                        q.ax += -k * q.x
                        q.ay += -k * q.y
                        q.az += -k * q.z
                if kv != 0.0:            # velocity-dependent (drag): outside the reversal theorem
                    for i in range(N):
                        q = ps[i]
                        q.ax += -kv * q.vx
                        q.ay += -kv * q.vy
                        q.az += -kv * q.vz
            s.additional_forces = af
        return s

    @staticmethod
    def doubles(s):
        return [getattr(s.particles[i], k) for i in range(s.N) for k in COMP]

    @staticmethod
    def ints(s):
        pi = s.ri_janus.p_int
        return [getattr(pi[i], k) for i in range(s.N) for k in COMP]

    @staticmethod
    def flag_clear(s):
        """the recalculation flag must be 0 and N_allocated == N at every step boundary of an undisturbed run"""
        return s.ri_janus.recalculate_integer_coordinates_this_timestep == 0 and s.ri_janus._N_allocated == s.N


def janus_line(order, sp, sv, fc, every, segs, parts):
    t = ["janus", str(order), d2h(sp), d2h(sv)] + force_tokens(fc) + [str(every), str(len(segs))]
    for dt, n in segs:
        t += [d2h(dt), str(n)]
    t.append(str(len(parts)))
    for p in parts:
        t += [d2h(v) for v in p]
    return " ".join(t)


def leapfrog_line(fc, every, segs, parts):
    t = ["leapfrog"] + force_tokens(fc) + [str(every), str(len(segs))]
    for dt, n in segs:
        t += [d2h(dt), str(n)]
    t.append(str(len(parts)))
    for p in parts:
        t += [d2h(v) for v in p]
    return " ".join(t)


def in_range(parts, sp, sv, margin=2.0 ** 60):
    return all(abs(p[1 + k]) / sp < margin for p in parts for k in range(3)) and \
        all(abs(p[4 + k]) / sv < margin for p in parts for k in range(3))


def real_janus_records(R, order, sp, sv, fc, every, segs, parts):
    """records as the driver prints them (after every `every` steps / at segment ends), the simulation,
    and the number of step boundaries at which the recalculation flag was not clear"""
    s = R.sim(fc, parts, "janus", janus=(order, sp, sv))
    recs = []
    flag_bad = 0
    for dt, n in segs:
        s.dt = dt
        k = 0
        while k < n:
            ch = min(every if every else n, n - k)
            if ch == 1:
                s.step()
            else:
                s.steps(ch)
            k += ch
            flag_bad += not R.flag_clear(s)
            recs.append(" ".join(["%016x" % (v & MASK) for v in R.ints(s)] + [d2h(v) for v in R.doubles(s)]))
    return recs, s, flag_bad


def real_leapfrog_records(R, fc, every, segs, parts):
    s = R.sim(fc, parts, "leapfrog")
    recs = [" ".join(d2h(v) for v in R.doubles(s))]
    for dt, n in segs:
        s.dt = dt
        k = 0
        while k < n:
            ch = min(every if every else n, n - k)
            s.steps(ch)
            k += ch
            recs.append(" ".join(d2h(v) for v in R.doubles(s)))
    return recs


# ----------------------------------------------------------------------------- the check
def run(c):
    d = build()
    rebound = use_scratch_rebound(d)
    R = Real(rebound)
    clib = rebound.clibrebound

    # ---- 2. translator
    try:
        ex, changed = extract_c10.regenerate(d)
    except extract_c10.ExtractError as e:
        ex = None
        c.broken.append("proof obligation: translator could not read src/integrator_janus.c: %s" % e)
        c.log("EXTRACTION FAILED:", e)
    if ex is not None:
        nt = len(ex["tables"])
        c.cov["extracted"] = {"tables": nt, "gamma_entries": sum(len(t["gamma_q"]) for t in ex["tables"]),
                              "stages": {str(t["order"]): t["stages"] for t in ex["tables"]},
                              "gg": ex["gg"]["c_text"], "regenerated": changed,
                              "assignments_to_recalculation_flag": ["%s: = %s" % a for a in ex["flag"]]}
        bad = [(t["name"], i) for t in ex["tables"] for i in range(len(t["bits"])) if t["bits"][i] != t["rounded_bits"][i]]
        c.count(("tables", nt), n=sum(len(t["bits"]) for t in ex["tables"]))
        if bad:
            c.corr_break("compiled gamma constants differ from the correctly rounded decimal text: %s" % bad[:3], bad)

    # the operator schedules of WHFast / SABA / EOS / LEAPFROG (theorems c10_*_real_schedule_reverse) come from
    # builder b-c01's translator (read-only use): regenerate them from the tree under test
    try:
        import extract_c01
        _, ch01 = extract_c01.write_gen(REPO, LEAN, write_if_changed)
        c.cov["extracted"] = dict(c.cov.get("extracted", {}), c01_schedules_regenerated=ch01)
    except Exception as e:      # the translator raises its own exception types
        c.broken.append("proof obligation: rv/extract_c01.py could not derive the operator schedules from the sources: %s" % str(e)[:300])
        c.log("SCHEDULE EXTRACTION FAILED:", str(e)[:200])

    # ---- 3. proofs
    c.prove(["RV.Props.C10"])
    exe = lean_exe("drv_c10")

    c.cov["trusted_base"] = [
        "Lean 4.33 kernel (+ Mathlib ring/field_simp for the field-level theorems)",
        "IEEE-754 sign symmetry of * and /, commutativity of +, oddness of the double->int64 cast: hypotheses (structure JLaws) of the JANUS theorems, exercised on Float by the `laws` lines of the correspondence",
        "int64 `+=` is two's-complement addition in the compiled code (signed overflow is UB in C)",
        "correspondence drv_c10 (Float/BitVec 64 model + its own BASIC gravity) vs compiled integrator_janus.c / integrator_leapfrog.c / gravity.c on generated inputs (differential test, bitwise)",
        "rv/extract_c10.py (regex translator for the static tables, gg and the order switch); compiled bits read back from a program that #includes integrator_janus.c",
        "ctypes layout of reb_integrator_janus / reb_particle_int (checked by C18)",
    ]
    c.assumptions += [
        "JANUS theorem: the force is a function of the grid positions only (no velocity-dependent or time-dependent additional forces), particles are not modified between steps (recalculate_integer_coordinates_this_timestep stays 0), every double->int64 conversion is in range; both hypotheses are validated on the real code on every run: a probe installed as additional_forces callback checks at every force evaluation (every stage) that the position of every particle, including i >= N_active, is exactly to_double(p_int), and the flag / N_allocated are read after every step; every assignment to the flag in src/ and the Python package is extracted and a theorem states that only part1 sets it non-zero",
        "LEAPFROG/SEI/splitting theorems are exact-arithmetic (any field): the size of the rounding error of the round trip is only measured by the search",
        "WHFast/SABA/EOS are covered by the abstract palindromic-splitting theorems plus the search, not by a model of their Kepler solver (C03/C09 own those models); the hypothesis kepler(-tau) o kepler(tau) = id of those theorems is validated on the real reb_whfast_kepler_solver directly (inverse and time-mirror probes over elliptic/hyperbolic x sign x step size, solver branch recorded)",
    ]
    c.cov["rule"] = ("configuration sweep (tie and search): N_active<N with massive and massless test particles, testparticle_type 0/1, softening, read-only "
                     "pre_/post_timestep_modifications and additional_forces callbacks (ctypes), a velocity-independent additional force a += -k x, for the search also compensated "
                     "gravity, synchronize/energy/angular_momentum calls between steps and integrate() with a heartbeat; "
                     "Kepler primitive: conics with e 0..0.999 and 1.001..3, q 0.05..2, steps 1e-3..3 periods resp. 0.01..40 pericentre passage times, both signs; "
                     "fly-by families: star + 1..3 planets + close hyperbolic fly-by (q 0.05..0.5, e 1.05..2) or massless eccentric body with long steps, WHFast x4 x safe_mode 0/1, SABA, MERCURIUS; "
                     "correspondence: random N-body systems (planetary with masses 1e-8..3e-2, e<0.4, frame offsets; clouds of comparable masses), N 2..8, "
                     "all 5 JANUS orders, scale_pos/scale_vel from {1e-16..1e-7, 2^-40} independently, dt>0 and dt<0 segments, state compared after every step; "
                     "LEAPFROG and SEI (shearing-sheet particles, OMEGA/OMEGAZ/G varied) likewise after every step; "
                     "search: forward n / backward n round trips on the real code, n up to 1e3 (quick) / 1e4 (thorough): JANUS on planetary systems and clouds, exact bits after "
                     "snapping with a dt=0 step; LEAPFROG, WHFast x4 coordinates, 10 uncorrected SABA types, 10 unprocessed EOS combinations on well separated systems with "
                     "low (1e-9..1e-5) and giant-planet (1e-4..2e-3) masses, SEI on sheets; a case is non-trivial when the forward leg moved every particle off its initial "
                     "grid point (JANUS) / moved the state by more than 1e-3 relative (others); distinct_nontrivial = distinct (integrator variant, order/type, N, scales, n decade, dt sign)")

    corr_janus(c, R, exe)
    corr_leapfrog(c, R, exe)
    corr_sei(c, R, exe)
    corr_laws(c, exe)
    search_janus(c, R)
    search_symmetric(c, R)
    probe_kepler(c, R)
    search_flyby(c, R)
    velocity_dependent(c, R, exe)
    c.cov["dimensions"] = {k: DIMS.get(k, 0) for k in DIM_REQUIRED}
    c.cov["dimensions"].update({k: v for k, v in DIMS.items() if k not in DIM_REQUIRED})
    for k in DIM_REQUIRED:
        if DIMS.get(k, 0) == 0:
            c.broken.append("dimension not covered in this run: " + k)
            c.log("DIMENSION NOT COVERED:", k)


# ----------------------------------------------------------------------------- correspondence
def corr_janus(c, R, exe):
    rng = c.rng.fork()
    ncase = 180 if c.thorough else 80
    lines, expect, meta = [], [], []
    flag_bad, probe_checked, probe_first = 0, 0, None
    cbcalls = {"pre": 0, "post": 0, "af": 0}
    fch = {}
    for case in range(ncase):
        n = rng.randint(2, 8)
        G, parts = gen_planetary(rng, n) if rng.chance(0.7) else gen_cloud(rng, n)
        order = [2, 4, 6, 8, 10][case % 5]
        sp, sv = rng.choice(SCALES), rng.choice(SCALES)
        if not in_range(parts, sp, sv):
            sp = sv = 1e-16
        P = inner_period(G, parts)
        fc = gen_fc(rng, G, parts, full=(case % 3 != 0))
        dt = P / rng.choice([15, 40, 100, 300]) * (1 if rng.chance(0.6) else -1)
        long = case % 8 == 7
        nf = rng.randint(200, 1000) if long else rng.randint(3, 25)
        if fc["k"] != 0 or "probe" in fc["cb"]:
            nf = min(nf, 60)          # a Python callback at every stage
        every = 50 if long else 1
        segs = [(0.0, 1), (dt, nf), (-dt, nf)]
        if rng.chance(0.3):
            segs.append((dt * 0.37, 3))
        if case % 6 == 5:
            segs = segs[1:]      # no snapping step: to_int happens inside the first real step
        lines.append(janus_line(order, sp, sv, fc, every, segs, parts))
        recs, sim, fb = real_janus_records(R, order, sp, sv, fc, every, segs, parts)
        flag_bad += fb
        probe_checked += sim._c10["probe_checked"]
        if sim._c10["probe_bad"] and probe_first is None:
            probe_first = dict(sim._c10["first_bad"], order=order, fc=fc, bad=sim._c10["probe_bad"], checked=sim._c10["probe_checked"])
        for kk in ("pre", "post", "af"):
            cbcalls[kk] += sim._c10[kk]
        expect.append(recs)
        meta.append(dict(order=order, N=n, scale_pos=sp, scale_vel=sv, dt=dt, segs=segs, G=G, fc=fc, parts=parts, every=every))
        c.count(("corr-janus", order, n, sp, sv, dt < 0) + fc_class(fc), n=sum(s[1] for s in segs))
        for cond, nm in ((fc["nactive"] not in (-1, n), "N_active < N"), (bool(fc["cb"]), "callbacks"), (fc["k"] != 0, "additional force"),
                         (fc["soft"] != 0, "softening"), (segs[0][0] != 0.0, "no snapping step")):
            if cond:
                dim("janus tie: " + nm)
        fch[str(fc_class(fc)[:3])] = fch.get(str(fc_class(fc)[:3]), 0) + 1
    c.cov["janus_tie_config_histogram(test_particles,testparticle_type,additional_force)"] = fch
    c.cov["janus_tie_callback_calls"] = cbcalls
    c.cov["janus_force_position_probe_checks"] = probe_checked
    if probe_first is not None:
        c.corr_break("hypothesis of the JANUS theorem violated on the real code: at a force evaluation the position of particle %d (N=%d, N_active=%d) "
                     "is not to_double(p_int) (order %d)" % (probe_first["particle"], probe_first["N"], probe_first["N_active"], probe_first["order"]), probe_first)
    if flag_bad:
        c.corr_break("ri_janus.recalculate_integer_coordinates_this_timestep / N_allocated not clear at %d step boundaries of undisturbed runs "
                     "(the model: only part1 sets it, on a particle-count change)" % flag_bad)
    # a few out-of-range cases: the model must say `err`, the C code is not compared (UB)
    nerr = 0
    for k in range(4):
        G, parts = gen_planetary(rng, 3)
        parts[1][1] = 1e4 * (1 if k % 2 else -1)      # 1e4/1e-16 = 1e20 > 2^63
        got = run_driver(exe, [janus_line(2, 1e-16, 1e-16, G, 1, [(0.01, 2)], parts)])
        if got[0].strip() != "err":
            c.corr_break("model did not flag an out-of-range double->int64 conversion", got[0][:100])
        nerr += 1
    c.cov["out_of_range_cases"] = nerr
    got = run_driver(exe, lines)
    ndis = 0
    ncmp = 0
    nrange = 0
    first = None
    if len(got) != len(lines):
        c.corr_break("drv_c10 returned %d lines for %d janus ops" % (len(got), len(lines)))
        return
    for g, e, mt in zip(got, expect, meta):
        grecs = [r.strip() for r in g.split("|")]
        grecs = grecs[1:]   # record 0 is the state after to_int (not observable before the first drift in the real code)
        if grecs and grecs[-1] == "err":
            # the model met a double->int64 conversion outside the range: undefined behaviour in C from here on
            grecs = grecs[:-1]
            e = e[:len(grecs)]
            mt["truncated_at"] = len(grecs)
            nrange += 1
        if len(grecs) != len(e):
            ndis += 1
            first = first or dict(mt, why="record count model=%d impl=%d" % (len(grecs), len(e)), model_tail=g[-200:])
            continue
        for k, (a, b) in enumerate(zip(grecs, e)):
            ncmp += 1
            if a != b:
                ndis += 1
                if first is None:
                    ta, tb = a.split(), b.split()
                    j = next((i for i in range(min(len(ta), len(tb))) if ta[i] != tb[i]), -1)
                    first = dict(mt, record=k, token=j, model=ta[j] if j >= 0 else None, impl=tb[j] if j >= 0 else None,
                                 what=("p_int" if j < 6 * mt["N"] else "double") + " " + COMP[j % 6] if j >= 0 else "length")
                break
    c.cov["janus_records_compared"] = ncmp
    c.cov["janus_tie_runs_leaving_the_int64_range(compared up to there)"] = nrange
    c.cov["janus_bitwise_disagreements"] = ndis
    c.sample({"janus_line": lines[0][:300], "first_record": expect[0][0][:200]})
    c.cov["janus_tie"] = "bitwise"
    if ndis:
        # The property (reversal) is bitwise, the tie need not be: a refactoring that re-associates an
        # increment changes single grid units.  Compare single steps from the implementation's own
        # states within a grid tolerance before declaring the model broken.
        bad = janus_tolerant(c, exe, expect, meta)
        if bad is None:
            c.cov["janus_tie"] = "single steps agree within the grid tolerance, not bitwise (%d of %d runs differ bitwise; first: %s)" % (
                ndis, len(lines), json.dumps({k: first.get(k) for k in ("order", "N", "record", "what", "model", "impl")}, default=str))
            c.log("JANUS tie: not bitwise, but single steps agree within the grid tolerance")
        else:
            c.corr_break("JANUS model and implementation differ on %d of %d runs (bitwise) and single steps differ beyond the grid tolerance; first: order %s N %s"
                         % (ndis, len(lines), bad.get("order"), bad.get("N")), dict(first or {}, single_step=bad))


def stages_of(order):
    return {2: 1, 4: 5, 6: 9, 8: 15, 10: 33}.get(order, 33)


def janus_tolerant(c, exe, expect, meta):
    """one model step from every recorded implementation state (runs recorded after every step);
    None if all agree within the tolerance, else the first offending case"""
    lines, want, info = [], [], []
    for recs, mt in zip(expect, meta):
        if mt["every"] != 1:
            continue
        n = mt["N"]
        dts = [dt for dt, k in mt["segs"] for _ in range(k)]
        recs = recs[:mt.get("truncated_at", len(recs))]
        for j in range(len(recs) - 1):
            t = recs[j].split()[:6 * n]
            ms = [d2h(p[0]) for p in mt["parts"]]
            toks = ["janus1", str(mt["order"]), d2h(mt["scale_pos"]), d2h(mt["scale_vel"])] + force_tokens(mt["fc"]) + [d2h(dts[j + 1]), str(n)]
            for i in range(n):
                toks += [ms[i]] + t[6 * i:6 * i + 6]
            lines.append(" ".join(toks))
            want.append(recs[j + 1].split())
            info.append((mt, j, t))
    got = run_driver(exe, lines)
    worst = 0.0
    sgn = lambda h: (int(h, 16) ^ (1 << 63)) - (1 << 63)
    for g, w, (mt, j, prev) in zip(got, want, info):
        n = mt["N"]
        p0 = [sgn(x) for x in prev]
        gi = g.split()
        if len(gi) != 6 * n:
            return dict(order=mt["order"], N=n, step=j, why="model: " + g[:60])
        a = [sgn(x) for x in gi]
        b = [sgn(x) for x in w[:6 * n]]
        S = stages_of(mt["order"])
        for cls in (0, 3):
            idx = [6 * i + cls + k for i in range(n) for k in range(3)]
            mx = max(abs(b[i]) for i in idx)
            # grid units lost to re-association, plus the sensitivity of the force to them (close pairs):
            # a fraction 1e-9 of the largest displacement of the step — a wrong coefficient, index or
            # sign changes the displacement by O(1)
            tol = 8 * (2 * S + 1) * max(1.0, mx * 2.0 ** -52) + 1e-9 * max(abs(b[i] - p0[i]) for i in idx)
            dmax = max(abs(a[i] - b[i]) for i in idx)
            worst = max(worst, dmax / tol)
            if dmax > tol:
                i = max(idx, key=lambda i: abs(a[i] - b[i]))
                return dict(order=mt["order"], N=n, step=j, what=COMP[i % 6], model=a[i], impl=b[i], tolerance=tol,
                            scale_pos=mt["scale_pos"], scale_vel=mt["scale_vel"], dt=mt["dt"])
        # the doubles must be the grid values times the scale (to_double), to 4 ulp
        for i in range(6 * n):
            sc = mt["scale_pos"] if i % 6 < 3 else mt["scale_vel"]
            dv, ref = h2d(w[6 * n + i]), float(b[i]) * sc
            if not abs(dv - ref) <= 4 * 2.3e-16 * abs(ref):
                return dict(order=mt["order"], N=n, step=j, what="to_double " + COMP[i % 6], impl=dv, grid_times_scale=ref)
    c.cov["janus_single_steps_compared_with_tolerance"] = len(lines)
    c.cov["janus_single_step_worst_fraction_of_tolerance"] = float("%.3g" % worst)
    return None


def float_tie(c, exe, name, lines, expect, meta, relinker):
    """bitwise comparison of the per-step records of a Float model with the implementation; when it
    fails, single steps from the implementation's own states must agree to 64 N ulp of the largest
    coordinate ("to rounding error": a harmless re-association must not fire, a wrong constant must).
    relinker(mt, state_doubles, dt) -> driver line for one step from that state."""
    got = run_driver(exe, lines)
    ndis, ncmp, first = 0, 0, None
    for g, e, mt in zip(got, expect, meta):
        grecs = [r.strip() for r in g.split("|")]
        if grecs != e:
            ndis += 1
            first = first or dict(mt, model=g[:200], impl=" | ".join(e)[:200])
        ncmp += len(e)
    c.cov[name + "_records_compared"] = ncmp
    c.cov[name + "_tie"] = "bitwise"
    if len(got) != len(lines):
        c.corr_break("drv_c10 returned %d lines for %d %s ops" % (len(got), len(lines), name))
        return
    if not ndis:
        return
    l2, w2, i2 = [], [], []
    for e, mt in zip(expect, meta):
        dts = [dt for dt, k in mt["segs"] for _ in range(k)]
        for j in range(len(e) - 1):
            st = [h2d(t) for t in e[j].split()]
            l2.append(relinker(mt, st, dts[j]))
            w2.append([h2d(t) for t in e[j + 1].split()])
            i2.append((mt, j))
    g2 = run_driver(exe, l2)
    bad = None
    for g, w, (mt, j) in zip(g2, w2, i2):
        n = mt["N"]
        try:
            gv = [h2d(t) for t in g.split("|")[-1].split()]
        except ValueError:
            gv = []
        if len(gv) != 6 * n:
            bad = dict(N=n, step=j, why=g[:80])
            break
        for cls in (0, 3):
            idx = [6 * i + cls + k for i in range(n) for k in range(3)]
            sc = max(abs(w[i]) for i in idx) or 1.0
            if any(not abs(gv[i] - w[i]) <= 64 * n * 2.3e-16 * sc for i in idx):
                bad = dict(N=n, step=j, dt=mt["dt"], model=[gv[i] for i in idx][:6], impl=[w[i] for i in idx][:6])
                break
        if bad:
            break
    if bad is None:
        c.cov[name + "_tie"] = "single steps agree to 64 N ulp, not bitwise (%d of %d runs differ bitwise)" % (ndis, len(lines))
        c.log("%s tie: not bitwise, single steps agree to 64 N ulp" % name)
    else:
        c.corr_break("%s model and implementation differ on %d of %d runs, single steps beyond 64 N ulp" % (name.upper(), ndis, len(lines)),
                     dict(first or {}, single_step=bad))


def corr_leapfrog(c, R, exe):
    rng = c.rng.fork()
    ncase = 60 if c.thorough else 20
    lines, expect, meta = [], [], []
    for case in range(ncase):
        n = rng.randint(2, 8)
        G, parts = gen_planetary(rng, n) if rng.chance(0.7) else gen_cloud(rng, n)
        fc = gen_fc(rng, G, parts, full=(case % 2 == 1))
        dt = inner_period(G, parts) / rng.choice([30, 100, 300]) * (1 if rng.chance(0.6) else -1)
        nf = rng.randint(3, 40)
        segs = [(dt, nf), (-dt, nf)]
        lines.append(leapfrog_line(fc, 1, segs, parts))
        expect.append(real_leapfrog_records(R, fc, 1, segs, parts))
        meta.append(dict(N=n, dt=dt, G=G, fc=fc, parts=parts, nf=nf, segs=segs))
        c.count(("corr-leapfrog", n, dt < 0) + fc_class(fc), n=2 * nf)

    def relink(mt, st, dt):
        parts = [[mt["parts"][i][0]] + st[6 * i:6 * i + 6] for i in range(mt["N"])]
        return leapfrog_line(mt["fc"], 1, [(dt, 1)], parts)
    float_tie(c, exe, "leapfrog", lines, expect, meta, relink)


def sei_line(om, omz, fc, every, segs, parts):
    t = ["sei", d2h(om), d2h(omz)] + force_tokens(fc) + [str(every), str(len(segs))]
    for dt, n in segs:
        t += [d2h(dt), str(n)]
    t.append(str(len(parts)))
    for p in parts:
        t += [d2h(v) for v in p]
    return " ".join(t)


def gen_sheet(rng, n, omz_differs=None):
    om = rng.choice([1.0, 0.5, 2.0 * math.pi])
    if omz_differs is None:
        omz_differs = rng.chance(0.5)
    omz = om * rng.uniform(0.8, 1.3) if omz_differs else om
    G = rng.choice([0.0, 1e-6, 1e-4])
    parts = [[rng.loguniform(1e-4, 1e-2)] + [rng.uniform(-5, 5), rng.uniform(-5, 5), rng.uniform(-0.5, 0.5)] + [rng.normal() * 0.2 * om for _ in range(3)]
             for i in range(n)]
    return om, omz, G, parts


def sei_sim(R, om, omz, fc, parts):
    s = R.sim(fc, parts, "sei")
    s.ri_sei.OMEGA = om
    if omz != om:
        s.ri_sei.OMEGAZ = omz       # otherwise leave the default -1 (= use OMEGA)
    return s


def corr_sei(c, R, exe):
    rng = c.rng.fork()
    ncase = 60 if c.thorough else 15
    lines, expect, meta = [], [], []
    for case in range(ncase):
        n = rng.randint(1, 8)
        om, omz, G, parts = gen_sheet(rng, n)
        fc = gen_fc(rng, G, parts, full=(case % 2 == 1))
        dt = (2 * math.pi / om) / rng.choice([20, 50, 200]) * (1 if rng.chance(0.6) else -1)
        nf = rng.randint(3, 40)
        segs = [(dt, nf), (-dt, nf)]
        lines.append(sei_line(om, omz, fc, 1, segs, parts))
        s = sei_sim(R, om, omz, fc, parts)
        recs = [" ".join(d2h(v) for v in R.doubles(s))]
        for sdt, k in segs:
            s.dt = sdt
            for _ in range(k):
                s.step()
                recs.append(" ".join(d2h(v) for v in R.doubles(s)))
        expect.append(recs)
        meta.append(dict(N=n, dt=dt, G=G, fc=fc, parts=parts, OMEGA=om, OMEGAZ=omz, segs=segs))
        c.count(("corr-sei", n, om, omz != om, dt < 0) + fc_class(fc), n=2 * nf)

    def relink(mt, st, dt):
        parts = [[mt["parts"][i][0]] + st[6 * i:6 * i + 6] for i in range(mt["N"])]
        return sei_line(mt["OMEGA"], mt["OMEGAZ"], mt["fc"], 1, [(dt, 1)], parts)
    float_tie(c, exe, "sei", lines, expect, meta, relink)


def corr_laws(c, exe):
    """exercise the hypotheses of the JANUS theorem (JLaws) on IEEE doubles / the cast as the driver
    computes them, and compare the cast with the C cast through ctypes-free Python arithmetic
    (int(a) truncates toward zero exactly)."""
    rng = c.rng.fork()
    n = 20000 if c.thorough else 3000
    lines, vals = [], []
    for k in range(n):
        kind = k % 6
        if kind == 0:
            a, b = rng.normal() * 10 ** rng.uniform(-20, 18), rng.normal() * 10 ** rng.uniform(-20, 18)
        elif kind == 1:
            a, b = float(rng.randint(-2 ** 62, 2 ** 62)), rng.choice(SCALES)
        elif kind == 2:
            a, b = rng.randint(-10 ** 6, 10 ** 6) / 2.0, rng.choice([1.0, 3.0, 0.1, 1e-16])     # ties
        elif kind == 3:
            a, b = rng.choice([0.0, -0.0, 0.5, -0.5, 0.999999, 1.0, 2.0 ** 53, 2.0 ** 53 + 2, 2.0 ** 62, 2.0 ** 63 - 1024, 5e-324, 1e-310]), rng.normal()
        elif kind == 4:
            a, b = rng.uniform(-2, 2) * 2.0 ** rng.randint(40, 62), rng.loguniform(1e-17, 1e3)
        else:
            a, b = rng.uniform(-1, 1) * 10 ** rng.uniform(-3, 3), rng.uniform(-1, 1) * 10 ** rng.uniform(-3, 3)
        if b == 0.0:
            b = 1.0
        lines.append("laws %s %s" % (d2h(a), d2h(b)))
        vals.append((a, b))
    got = run_driver(exe, lines)
    nbad = 0
    firstbad = None
    for (a, b), g in zip(vals, got):
        t = g.split()
        ok = len(t) == 10 and t[0] == t[1] == t[2] and t[3] == t[4] and t[5] == t[6] and t[7] == t[8]
        # the cast itself against exact integer truncation
        if ok and abs(a) < 2.0 ** 63:
            ok = t[8] == "%016x" % ((-int(a)) & MASK) and h2d(t[9]) == float(int(a))
        elif ok:
            ok = t[8] == "err"
        c.count(None, nontrivial=False)
        if not ok:
            nbad += 1
            firstbad = firstbad or dict(a=d2h(a), b=d2h(b), got=g)
    c.cov["sign_symmetry_laws_exercised_on_Float"] = len(lines)
    c._distinct.add("laws-on-Float")
    if nbad:
        c.corr_break("IEEE sign-symmetry hypotheses (JLaws) fail on Float for %d of %d operand pairs" % (nbad, len(lines)), firstbad)


# ----------------------------------------------------------------------------- search
def janus_roundtrip(R, order, sp, sv, fc, parts, dt, nst, mode="steps", again=False, dt2=None, t0=None, name="janus"):
    """snap to the grid (one dt=0 step), nst steps with dt, `sim.dt = -sim.dt`, nst steps.
    mode: steps | interleave (harmless calls between chunks: synchronize, energy, angular momentum) |
    integrate (reb_simulation_integrate without exact finish time, with a heartbeat installed) |
    save / copy (binary file round trip / copy() in the middle of the forward leg, continue on the restored object) |
    restore_turn (binary file round trip at the turning point).  dt2: the user changes dt in the middle of the
    forward leg (the backward leg mirrors it).  Returns dict(i0,d0,i1,i2,d2,i3?,flag_bad,sim)."""
    if mode == "integrate":
        fc = dict(fc, cb=tuple(fc["cb"]) + ("hb",))
    s = R.sim(fc, parts, name, janus=(order, sp, sv))
    if t0 is not None:
        s.t = t0
    s.dt = 0.0
    s.step()                                   # snap the initial conditions to the grid
    out = dict(sim=s, flag_bad=0)
    out["flag_bad"] += not R.flag_clear(s)
    out["i0"], out["d0"] = R.ints(s), [d2h(v) for v in R.doubles(s)]
    fwd = [(dt, nst)] if dt2 is None else [(dt, nst - nst // 2), (dt2, nst // 2)]

    def leg(s, n):
        if mode == "interleave":
            k = 0
            while k < n:
                ch = min(n - k, max(1, n // 3))
                s.steps(ch)
                k += ch
                s.synchronize()
                s.energy()
                s.angular_momentum()
                out["flag_bad"] += not R.flag_clear(s)
        elif mode == "integrate":
            before = s.steps_done
            s.integrate(s.t + (n - 0.5) * s.dt, exact_finish_time=0)
            if s.steps_done - before != n:
                out["steps_mismatch"] = (s.steps_done - before, n)
        elif mode in ("save", "copy") and n >= 2:
            s.steps(n // 2)
            s = reload_sim(R, s, mode)
            out["flag_bad"] += not R.flag_clear(s)
            s.steps(n - n // 2)
        else:
            s.steps(n)
        out["flag_bad"] += not R.flag_clear(s)
        return s
    for d, n in fwd:
        s.dt = d
        s = leg(s, n)
    out["i1"] = R.ints(s)
    out["sim"] = s
    if max(abs(v) for v in out["i1"]) >= 2 ** 62:
        out["near_range"] = True
        return out
    if mode == "restore_turn":
        s = reload_sim(R, s, "save")
    for d, n in reversed(fwd):
        s.dt = -d if dt2 is not None else -s.dt      # a single leg: the user's `sim.dt = -sim.dt`
        s = leg(s, n)
        if dt2 is None:
            break
    out["i2"], out["d2"] = R.ints(s), [d2h(v) for v in R.doubles(s)]
    if again and dt2 is None:
        s.dt = -s.dt
        s = leg(s, nst)
        out["i3"] = R.ints(s)
    out["sim"] = s
    return out


def search_janus(c, R):
    """the property itself on the real code: snap to the grid (one dt=0 step), n steps with dt, flip the
    sign of dt the way users do, n steps, compare bits of p_int and of every particle double — over every
    configuration dimension that must not matter: N_active < N (massive and massless test particles, both
    testparticle_type), softening, read-only pre/post/additional_forces callbacks, a velocity-independent
    additional force, compensated gravity, harmless calls between steps, integrate() with a heartbeat."""
    rng = c.rng.fork()
    ncase = 1200 if c.thorough else 500
    nmax = 10000 if c.thorough else 1000
    hist, cfgh = {}, {}
    moved_all = 0
    nviol = 0
    flag_bad = 0
    probe_checked, probe_first = 0, None
    for case in range(ncase):
        n = rng.randint(2, 8)
        kind = rng.randint(0, 2)
        G, parts = gen_planetary(rng, n) if kind < 2 else gen_cloud(rng, n)
        order = [2, 4, 6, 8, 10][case % 5]
        sp, sv = rng.choice(SCALES), rng.choice(SCALES)
        if not in_range(parts, sp, sv, 2.0 ** 56):
            sp = sv = 1e-16
        P = inner_period(G, parts)
        big = (case % 97 == 13) or (c.thorough and case % 97 == 50)
        if big:                                   # crosses the 128-entry allocation boundary of p_int / particles
            n = rng.randint(129, 160)
            G, parts = gen_cloud(rng, n)
            kind = 2
            sp = sv = 1e-16
            P = inner_period(G, parts)
        fc = gen_fc(rng, G, parts, full=(case % 2 == 1 and not big), extra=True)
        mode = "steps"
        if case % 2 == 1:
            mode = rng.choice(["steps", "steps", "interleave", "integrate", "save", "copy", "restore_turn"])
        if mode in ("save", "copy", "restore_turn"):
            # function pointers are not part of a saved / copied simulation: no callbacks in these histories
            fc = dict(fc, cb=(), k=0.0, gravity=("basic" if fc["gravity"] == "none" else fc["gravity"]))
        dt = P / rng.choice([8, 20, 50, 150, 400]) * (1 if rng.chance(0.7) else -1)
        longstep = kind < 2 and rng.chance(0.05)
        if longstep:
            dt = P * rng.uniform(1.1, 2.5) * (1 if dt > 0 else -1)
        r = rng.uniform()
        nst = rng.randint(1, 10) if r < 0.3 else (rng.randint(10, 200) if r < 0.8 else rng.randint(200, nmax))
        if kind == 2:
            nst = min(nst, 300)       # clouds can eject particles towards the edge of the int64 range
        if fc["k"] != 0 or "probe" in fc["cb"]:
            nst = min(nst, 80)        # a Python callback at every stage
        if big or longstep:
            nst = min(nst, 30)
        again = rng.chance(0.2)
        dt2 = dt * rng.choice([0.5, 0.37, 2.0, -1.5]) if (case % 2 == 1 and mode != "integrate" and rng.chance(0.25) and nst >= 2) else None
        t0 = rng.choice([1e12, -3e11]) * abs(dt) if (case % 2 == 1 and mode != "integrate" and rng.chance(0.1)) else None
        iname = "JANUS" if rng.chance(0.1) else "janus"
        o = janus_roundtrip(R, order, sp, sv, fc, parts, dt, nst, mode, again, dt2=dt2, t0=t0, name=iname)
        st = o["sim"]._c10
        probe_checked += st["probe_checked"]
        if st["probe_bad"] and probe_first is None:
            probe_first = dict(st["first_bad"], order=order, fc=fc, bad=st["probe_bad"], checked=st["probe_checked"])
        flag_bad += o["flag_bad"]
        if o.get("near_range"):
            c.count(None, nontrivial=False)
            hist["skipped_near_int64_range"] = hist.get("skipped_near_int64_range", 0) + 1
            continue
        if "steps_mismatch" in o:
            hist["integrate_step_count_mismatch"] = hist.get("integrate_step_count_mismatch", 0) + 1
            c.count(None, nontrivial=False)
            continue
        i0, d0, i1, i2, d2 = o["i0"], o["d0"], o["i1"], o["i2"], o["d2"]
        moved = all(any(i1[6 * p + k] != i0[6 * p + k] for k in range(3)) for p in range(n))
        key = ("janus", order, n, sp, sv, min(3, int(math.log10(nst))), dt > 0, mode) + fc_class(fc)
        c.count(key, nontrivial=moved)
        moved_all += moved
        na_eff = n if fc["nactive"] == -1 else fc["nactive"]
        dim("janus: gravity " + ("none + additional force" if fc["gravity"] == "none" else fc["gravity"]))
        for cond, nm in ((fc["soft"] != 0, "softening != 0"), (G != 1.0, "G != 1"), (sp != sv, "scale_pos != scale_vel"),
                         (na_eff < n and fc["tptype"] == 0, "N_active < N, testparticle_type 0"), (na_eff < n and fc["tptype"] == 1, "N_active < N, testparticle_type 1"),
                         (na_eff < n and any(p[0] == 0 for p in parts[na_eff:]), "massless test particles"),
                         (na_eff < n and any(p[0] != 0 for p in parts[na_eff:]), "massive test particles"),
                         (na_eff == 1 and n > 1, "single active body"), (any(p[0] == 0 for p in parts[1:na_eff]), "zero-mass active body"),
                         ("pre" in fc["cb"], "callback pre_timestep_modifications"), ("post" in fc["cb"], "callback post_timestep_modifications"),
                         ("probe" in fc["cb"], "callback additional_forces (read-only probe)"), (fc["k"] != 0, "additional force, velocity independent"),
                         (mode == "integrate", "heartbeat + integrate()"), (dt < 0, "dt < 0 first"), (longstep, "step longer than the inner period"),
                         (mode == "interleave", "split calls with synchronize/energy between"), (mode == "save", "save + restore mid-way"),
                         (mode == "copy", "copy() mid-way"), (mode == "restore_turn", "restore at the turning point"), (dt2 is not None, "dt changed by the user mid-run"),
                         (t0 is not None, "t0 huge (|t|/dt ~ 1e12)"), (kind < 2 and any(abs(v) > 0 for v in parts[0][1:]), "COM offset + boost"),
                         (n > 128, "N > 128"), (iname == "JANUS", "integrator name upper case")):
            if cond:
                dim("janus: " + nm)
        hist[str(order)] = hist.get(str(order), 0) + 1
        tag = ("test-particles type %d%s" % (fc["tptype"], " massless" if any(p[0] == 0 for p in parts) else "")) if fc["nactive"] not in (-1, n) else "all active"
        tag += "; callbacks " + ",".join(fc["cb"]) if fc["cb"] else ""
        tag += "; additional force" if fc["k"] else ""
        tag += "; " + mode if mode != "steps" else ""
        tag += "; dt changed mid-run" if dt2 is not None else ""
        tag += "; softening" if fc["soft"] else ""
        tag += "; " + fc["gravity"] if fc["gravity"] != "basic" else ""
        cfgh[tag] = cfgh.get(tag, 0) + 1
        rep_d = dict(integrator="janus", order=order, scale_pos=sp, scale_vel=sv, G=G, fc=fc, mode=mode, dt=dt, dt2=dt2, t0=t0, nsteps=nst, particles=parts,
                     procedure="add particles; configure (N_active, testparticle_type, softening, callbacks, additional force, gravity); janus; one step with dt=0 (snap); "
                               "nsteps with dt; sim.dt=-sim.dt; nsteps; compare p_int and particle bits")
        suffix = ("-testparticles" if fc["nactive"] not in (-1, n) else "") + ("-callbacks" if (fc["cb"] or fc["k"] or mode == "integrate") else "")
        if i2 != i0 or d2 != d0:
            nviol += 1
            j = next(i for i in range(6 * n) if i2[i] != i0[i] or d2[i] != d0[i])
            c.violation("janus-roundtrip-order%d%s" % (order, suffix),
                        "JANUS order %d (%s): %d steps forward and %d steps back do not return the initial bits (particle %d %s: %s -> %s, grid %d -> %d)"
                        % (order, tag, nst, nst, j // 6, COMP[j % 6], d0[j], d2[j], i0[j], i2[j]), rep_d)
            if nviol >= 4:
                break
        if again and "i3" in o and o["i3"] != i1:
            c.violation("janus-there-back-there-order%d%s" % (order, suffix),
                        "JANUS order %d (%s): forward/back/forward does not reproduce the first forward leg" % (order, tag), rep_d)
        if case < 2:
            c.sample(dict(kind="janus round trip", order=order, N=n, scale_pos=sp, scale_vel=sv, dt=dt, nsteps=nst, config=tag, returned_exact=(i2 == i0)))
    c.cov["janus_roundtrips_by_order"] = hist
    c.cov["janus_roundtrips_by_configuration"] = dict(sorted(cfgh.items(), key=lambda kv: -kv[1])[:40])
    c.cov["janus_roundtrips_all_particles_moved"] = moved_all
    c.cov["janus_search_force_position_probe_checks"] = probe_checked
    if probe_first is not None:
        c.corr_break("hypothesis of the JANUS theorem violated on the real code (search runs): at a force evaluation the position of particle %d (N=%d, N_active=%d) "
                     "is not to_double(p_int) (order %d)" % (probe_first["particle"], probe_first["N"], probe_first["N_active"], probe_first["order"]), probe_first)
    if flag_bad:
        c.corr_break("ri_janus.recalculate_integer_coordinates_this_timestep / N_allocated not clear at %d step boundaries of undisturbed search runs" % flag_bad)


# ----------------------------------------------------------------------------- velocity-dependent force (negative)
def velocity_dependent(c, R, exe):
    """theorem c10_janus_velocity_dependent_force_not_reversible on the real code: with a drag a += -kv v installed as
    additional_forces the model (stepV) still matches the implementation bit for bit, and the round trip is NOT exact.
    Evidence only (a velocity-dependent force is outside the property); a mismatch of the tie is reported."""
    rng = c.rng.fork()
    ncase = 30 if c.thorough else 10
    lines, expect, meta = [], [], []
    notexact = 0
    for case in range(ncase):
        n = rng.randint(2, 5)
        G, parts = gen_planetary(rng, n)
        order = [2, 4, 6, 8, 10][case % 5]
        fc = mkfc(G, kv=rng.loguniform(1e-3, 1e-1))
        dt = inner_period(G, parts) / rng.choice([20, 50])
        nf = rng.randint(5, 15)
        segs = [(0.0, 1), (dt, nf), (-dt, nf)]
        lines.append(janus_line(order, 1e-16, 1e-16, fc, 1, segs, parts))
        recs, sim, fb = real_janus_records(R, order, 1e-16, 1e-16, fc, 1, segs, parts)
        expect.append(recs)
        notexact += recs[0] != recs[-1]
        c.count(("velocity-dependent", order, n), n=2 * nf)
    got = run_driver(exe, lines)
    bad = sum(1 for g, e in zip(got, expect) if [r.strip() for r in g.split("|")][1:] != e)
    c.cov["velocity_dependent_force"] = {"runs": ncase, "model_bitwise_equal": ncase - bad, "round_trips_not_exact(expected: all)": notexact}
    if bad:
        c.corr_break("JANUS model with a velocity-dependent additional force (stepV) differs from the implementation on %d of %d runs" % (bad, ncase))


# ----------------------------------------------------------------------------- Kepler primitive
INVF = [1.0 / math.factorial(i) for i in range(35)]


def _cs3(z):
    n = 0
    while abs(z) > 0.1 and math.isfinite(z):
        z /= 4.
        n += 1
    co, ce = INVF[13], INVF[12]
    for k in range(11, 2, -2):
        co = INVF[k] - z * co
        ce = INVF[k - 1] - z * ce
    c3, c2, c1, c0 = co, ce, INVF[1] - z * co, INVF[0] - z * ce
    for _ in range(n):
        c3 = (c2 + c0 * c3) * 0.25
        c2 = c1 * c1 * 0.5
        c1 = c0 * c1
        c0 = 2. * c0 * c0 - 1.
    return [c0, c1, c2, c3]


def _Gs3(beta, X):
    g = _cs3(beta * X * X)
    g[1] *= X
    g[2] *= X * X
    g[3] *= X * X * X
    return g


def kepler_branch(M, p, dt):
    """which way `reb_whfast_kepler_solver` goes for this input (a Python re-run of its control flow only,
    used for the coverage record, not as an oracle): (ell|hyp, +|-, newton|quartic|bisect)"""
    x, y, z, vx, vy, vz = p
    r0 = math.sqrt(x * x + y * y + z * z)
    r0i = 1. / r0
    beta = 2. * M * r0i - (vx * vx + vy * vy + vz * vz)
    eta0 = x * vx + y * vy + z * vz
    zeta0 = M - beta * r0
    Xpp = float("nan")
    if beta > 0:
        Xpp = 2 * math.pi / math.sqrt(beta)
        dtr0i = dt * r0i
        X = dtr0i * (1. - dtr0i * eta0 * 0.5 * r0i)
    else:
        X = 0.
    oldX = X
    G = _Gs3(beta, X)
    e12 = eta0 * G[1] + zeta0 * G[2]
    X = (X * e12 - eta0 * G[2] - zeta0 * G[3] + dt) / (r0 + e12)
    conv = False
    if abs(X - oldX) > 0.01 * Xpp:
        kind = "quartic"
        X = beta * dt / M
        prev = {}
        n = 1
        while n < 64:
            G = _Gs3(beta, X)
            f = r0 * X + eta0 * G[2] + zeta0 * G[3] - dt
            fp = r0 + eta0 * G[1] + zeta0 * G[2]
            fpp = eta0 * G[0] + zeta0 * G[1]
            den = fp + math.sqrt(abs(16. * fp * fp - 20. * f * fpp))
            X = (X * den - 5. * f) / den
            if any(X == prev.get(i) for i in range(1, n)):
                conv = True
                break
            prev[n] = X
            n += 1
    else:
        kind = "newton"
        for n in range(1, 32):
            oldX2, oldX = oldX, X
            G = _Gs3(beta, X)
            e12 = eta0 * G[1] + zeta0 * G[2]
            X = (X * e12 - eta0 * G[2] - zeta0 * G[3] + dt) / (r0 + e12)
            if X == oldX or X == oldX2:
                conv = True
                break
    return ("ell" if beta > 0 else "hyp", "+" if dt > 0 else "-", kind if conv else "bisect")


def orbit_state(rng, M, q, e, f):
    """Cartesian state of a conic (pericentre q, eccentricity e, true anomaly f) in a random orientation"""
    pp = q * (1 + e)
    r = pp / (1 + e * math.cos(f))
    sq = math.sqrt(M / pp)
    a, b, g = [rng.uniform(0, 2 * math.pi) for _ in range(3)]

    def rot(v):
        x, y, z = v
        x, y = x * math.cos(a) - y * math.sin(a), x * math.sin(a) + y * math.cos(a)
        y, z = y * math.cos(b) - z * math.sin(b), y * math.sin(b) + z * math.cos(b)
        x, y = x * math.cos(g) - y * math.sin(g), x * math.sin(g) + y * math.cos(g)
        return [x, y, z]
    return rot([r * math.cos(f), r * math.sin(f), 0.]) + rot([-sq * math.sin(f), sq * (e + math.cos(f)), 0.])


def probe_kepler(c, R):
    """the hypothesis `kepler(-τ) ∘ kepler(τ) = id` of the splitting theorems, on the real primitive
    `reb_whfast_kepler_solver` (called directly through ctypes), over elliptic/hyperbolic × sign of τ ×
    step size (down to |τ| << pericentre passage time, up to 3 periods / 40 passage times) so that the
    Newton, quartic and bisection branches are reached in both directions:
      inverse  K(-τ)(K(τ) s) = s            to 1e-8 × (1+|τ|/t_peri)   (conditioning of the flow)
      mirror   K(-τ)(x,v) = flip K(τ)(x,-v)  to 1e-12 × (1+|τ|/t_peri)  (bitwise on the unchanged tree)"""
    rng = c.rng.fork()
    clib = R.rb.clibrebound
    P = R.rb.Particle
    sim = R.rb.Simulation()
    sim.ri_whfast.timestep_warning = 1        # the "step larger than a period" warning is not under test

    def kep(M, p, dt):
        a = (P * 1)()
        for k, v in zip(COMP, p):
            setattr(a[0], k, v)
        clib.reb_whfast_kepler_solver(ctypes.byref(sim), a, ctypes.c_double(M), ctypes.c_uint(0), ctypes.c_double(dt))
        return [getattr(a[0], k) for k in COMP]

    def err(a, b, cc):
        sp = max(math.dist(a[:3], [0] * 3), math.dist(b[:3], [0] * 3))
        sv = max(math.dist(a[3:], [0] * 3), math.dist(b[3:], [0] * 3))
        e = max(math.dist(a[:3], cc[:3]) / sp, math.dist(a[3:], cc[3:]) / sv)
        return e if e == e else float("inf")
    n = 12000 if c.thorough else 2500
    hits = {"%s %s %s" % (t, sg, b): 0 for t in ("ell", "hyp") for sg in "+-" for b in (("newton", "quartic", "bisect") if t == "ell" else ("newton", "bisect"))}
    worst_inv, worst_mir, nbit = 0.0, 0.0, 0
    nviol = 0
    for it in range(n):
        M = rng.loguniform(0.1, 10)
        q = rng.loguniform(0.05, 2)
        if it % 2 == 0:
            e = rng.choice([rng.uniform(0, 0.3), rng.uniform(0.3, 0.9), rng.uniform(0.9, 0.999)])
            f = rng.uniform(-math.pi, math.pi)
            per = 2 * math.pi * math.sqrt((q / (1 - e)) ** 3 / M)
            dt = per * rng.choice([rng.loguniform(1e-3, 0.05), rng.uniform(0.05, 0.5), rng.uniform(0.5, 3)])
        else:
            e = rng.choice([rng.uniform(1.001, 1.1), rng.uniform(1.1, 1.5), rng.uniform(1.5, 3)])
            f = rng.uniform(-0.9, 0.9) * math.acos(-1 / e)
            dt = None
        tp = math.sqrt(q ** 3 / (M * (1 + e)))          # pericentre passage time q / v_q
        if dt is None:
            dt = tp * rng.choice([rng.loguniform(0.01, 0.3), rng.uniform(0.3, 5), rng.uniform(5, 40)])
        if rng.chance(0.5):
            dt = -dt
        p = orbit_state(rng, M, q, e, f)
        y = kep(M, p, dt)
        z = kep(M, y, -dt)
        m1 = kep(M, p, -dt)
        m2 = kep(M, p[:3] + [-v for v in p[3:]], dt)
        m2 = m2[:3] + [-v for v in m2[3:]]
        cond = 1 + abs(dt) / tp
        b1, b2, b3 = kepler_branch(M, p, dt), kepler_branch(M, y, -dt), kepler_branch(M, p, -dt)
        for b in (b1, b2, b3):
            hits["%s %s %s" % b] = hits.get("%s %s %s" % b, 0) + 1
        c.count(("kepler",) + b1 + b2[1:], nontrivial=True)
        e1, e2 = err(p, y, z), err(m1, m1, m2)
        worst_inv, worst_mir = max(worst_inv, e1 / cond), max(worst_mir, e2 / cond)
        nbit += [d2h(v) for v in m1] == [d2h(v) for v in m2]
        rep = dict(integrator="kepler-primitive", M=M, state=p, dt=dt, nsteps=1, particles=[], q=q, e=e, branches=[b1, b2, b3],
                   procedure="reb_whfast_kepler_solver(r, p, M, 0, dt) then (.., -dt); and K(-dt)(x,v) against the velocity-flipped K(dt)(x,-v)")
        if not e1 <= 1e-8 * cond and nviol < 3:
            nviol += 1
            c.violation("kepler-inverse-%s%s" % (b1[0], b1[1]),
                        "reb_whfast_kepler_solver: kepler(-dt) does not undo kepler(dt) (%s, dt %+.3g = %.3g passage times, branches %s then %s): error %.2e"
                        % ("hyperbolic e=%.3f" % e if e > 1 else "elliptic e=%.3f" % e, dt, abs(dt) / tp, b1[2], b2[2], e1), dict(rep, error=e1))
        elif not e2 <= 1e-12 * cond and nviol < 3:
            nviol += 1
            c.violation("kepler-mirror-%s%s" % (b3[0], b3[1]),
                        "reb_whfast_kepler_solver: kepler(-dt)(x,v) is not the time reverse of kepler(dt)(x,-v) (%s, dt %+.3g, branch %s): error %.2e"
                        % ("hyperbolic e=%.3f" % e if e > 1 else "elliptic e=%.3f" % e, dt, b3[2], e2), dict(rep, error=e2))
    c.cov["kepler_primitive_solves_by(orbit,sign of dt,solver branch)"] = hits
    c.cov["kepler_primitive_not_covered"] = sorted(k for k, v in hits.items() if v == 0)
    dim("kepler primitive: hyperbolic dt<0 bisection", hits.get("hyp - bisect", 0))
    dim("kepler primitive: elliptic dt<0 quartic", hits.get("ell - quartic", 0))
    c.cov["kepler_primitive_worst_inverse_error_over_conditioning"] = float("%.3g" % worst_inv)
    c.cov["kepler_primitive_worst_mirror_error_over_conditioning"] = float("%.3g" % worst_mir)
    c.cov["kepler_primitive_mirror_bitwise"] = "%d of %d" % (nbit, n)


def gen_flyby(rng, kind, light=False):
    """star + 1..3 well separated planets + one body that exercises the Kepler solver away from the
    easy regime: kind 'hyp' = close hyperbolic fly-by (q 0.05..0.5, e 1.05..2, starts inbound, passes
    pericentre during the run), kind 'ecc' = massless eccentric bound orbit (e 0.6..0.9, q 0.1..0.4) stepped with
    3..20 % of its period for 8..25 steps"""
    parts = [[1.0, 0.0, 0.0, 0.0, 0.0, 0.0, 0.0]]
    a = rng.uniform(0.8, 1.2)
    for i in range(rng.randint(1, 3)):
        m = rng.loguniform(1e-7, 1e-4) if light else rng.loguniform(1e-6, 1e-3)
        ph = rng.uniform(0, 2 * math.pi)
        v = math.sqrt((1 + m) / a)
        parts.append([m, a * math.cos(ph), a * math.sin(ph), 0.0, -v * math.sin(ph), v * math.cos(ph), 0.0])
        a *= rng.uniform(1.6, 2.2)
    if kind == "hyp":
        e, q = rng.uniform(1.05, 2.0), rng.loguniform(0.05, 0.5)
        f = -rng.uniform(0.6, 0.9) * math.acos(-1 / e)
        dt = 2 * math.pi * rng.uniform(0.02, 0.08)
        nst = rng.randint(30, 80)
    else:
        e, q = rng.uniform(0.6, 0.9), rng.loguniform(0.1, 0.4)
        f = rng.uniform(-math.pi, math.pi)
        dt = 2 * math.pi * (q / (1 - e)) ** 1.5 * rng.uniform(0.03, 0.2)
        nst = rng.randint(8, 25)
    parts.append([(0.0 if kind == "ecc" else rng.choice([0.0, 1e-9, 1e-6]))] + orbit_state(rng, 1.0, q, e, f))
    return parts, dt * (1 if rng.chance(0.5) else -1), nst, dict(q=q, e=e)


def search_flyby(c, R):
    """whole-integrator round trips whose Kepler drifts are not the easy ones: unbound fly-bys and eccentric
    bound bodies with long steps; WHFast ×4 coordinates × safe_mode 0/1, uncorrected SABA, MERCURIUS (fly-by only).
    Bounds (clean-tree calibration over 600 systems each): fly-by ≤ 4e-13 → 3e-10; MERCURIUS fly-by ≤ 2.2e-8
    (switching function near planets) → 1e-6; massless eccentric body with long steps: median 2e-13, 99.9 % ≤ 5e-8,
    max 6.6e-6 over 3900 runs (ill-conditioned: a coarse net only, the sharp instrument is probe_kepler) → 1e-3."""
    rng = c.rng.fork()
    reps = 10 if c.thorough else 3
    variants = [("whfast", k, sm) for k in WH_COORDS for sm in (1, 0)] + [("saba", t) for t in ("1", "2", "4", "10,6,4", "h8,6,4")] + [("mercurius",)]
    worst = {}
    solves = {"hyperbolic body, dt>0 leg": 0, "hyperbolic body, dt<0 leg": 0, "eccentric body, dt>0 leg": 0, "eccentric body, dt<0 leg": 0}
    for rep in range(reps):
        for variant in variants:
            for kind in ("hyp", "ecc"):
                if variant[0] == "mercurius" and kind == "ecc":
                    continue
                parts, dt, nst, info = gen_flyby(rng, kind, light=(variant[0] == "mercurius"))
                n = len(parts)
                s = R.sim(1.0, parts, "leapfrog")
                if variant[0] == "mercurius":
                    s.integrator = "mercurius"
                else:
                    configure(s, variant[:2])
                    if variant[0] == "whfast":
                        s.ri_whfast.safe_mode = variant[2]
                s.move_to_com()
                d0 = R.doubles(s)
                s.dt = dt
                s.steps(nst)
                d1 = R.doubles(s)
                s.synchronize()
                s.dt = -s.dt
                s.steps(nst)
                s.synchronize()
                e = relerr(d0, R.doubles(s), n)
                name = "-".join(str(v) for v in variant) + ":" + kind
                worst[name] = max(worst.get(name, 0.0), e)
                dim("sym: hyperbolic member" if kind == "hyp" else "sym: eccentric member, long steps")
                lab = "hyperbolic body" if kind == "hyp" else "eccentric body"
                solves[lab + (", dt>0 leg" if dt > 0 else ", dt<0 leg")] += nst
                solves[lab + (", dt<0 leg" if dt > 0 else ", dt>0 leg")] += nst
                c.count((name, n, dt > 0), nontrivial=relerr(d0, d1, n) > 1e-3)
                tol = 1e-3 if kind == "ecc" else (1e-6 if variant[0] == "mercurius" else tol_for(nst))
                if not e <= tol:
                    c.violation("%s-roundtrip-%s" % ("-".join(str(v) for v in variant[:2]), "flyby" if kind == "hyp" else "eccentric"),
                                "%s with %s (q=%.3f e=%.3f): %d steps forward and back return to the start only to %.2e (bound %.0e)"
                                % ("-".join(str(v) for v in variant), "a hyperbolic fly-by" if kind == "hyp" else "an eccentric body and long steps", info["q"], info["e"], nst, e, tol),
                                dict(integrator=variant[0], variant=list(variant), G=1.0, dt=dt, nsteps=nst, particles=parts, error=e, bound=tol,
                                     procedure="add particles; configure (safe_mode as given); move_to_com; nsteps; synchronize; sim.dt=-sim.dt; nsteps; synchronize"))
    c.cov["flyby_worst_roundtrip_error"] = {k: float("%.3g" % v) for k, v in sorted(worst.items())}
    c.cov["flyby_kepler_steps_by(orbit type, direction)"] = solves


def relerr(a, b, n):
    """max over particles of |Δpos|/max|pos| and |Δvel|/max|vel|"""
    sp = max(abs(a[6 * i + k]) for i in range(n) for k in range(3)) or 1.0
    sv = max(abs(a[6 * i + 3 + k]) for i in range(n) for k in range(3)) or 1.0
    ep = max(abs(a[6 * i + k] - b[6 * i + k]) for i in range(n) for k in range(3)) / sp
    ev = max(abs(a[6 * i + 3 + k] - b[6 * i + 3 + k]) for i in range(n) for k in range(3)) / sv
    e = max(ep, ev)
    return e if e == e else float("inf")


def tol_for(nst):
    """calibrated on the clean tree: the rounding error of a forward/backward round trip grows like
    n^1.5 … n^2 (along-track / shear drift of a rounding-level offset): worst seen 3e-11 at n=1e3 and
    9e-9 at n=1e4 (SEI), 7e-10 at n=1e4 (EOS)."""
    return 3e-10 * max(1.0, (nst / 1000.0) ** 2)



def configure(s, variant):
    kind = variant[0]
    if kind == "leapfrog":
        s.integrator = "leapfrog"
    elif kind == "whfast":
        s.integrator = "whfast"
        s.ri_whfast.coordinates = variant[1]
        s.ri_whfast.safe_mode = 1
        s.ri_whfast.corrector = 0
    elif kind == "saba":
        s.integrator = "saba"
        s.ri_saba.type = variant[1]
        s.ri_saba.safe_mode = 1
    elif kind == "eos":
        s.integrator = "eos"
        s.ri_eos.phi0 = variant[1]
        s.ri_eos.phi1 = variant[2]
        s.ri_eos.n = variant[3]
        s.ri_eos.safe_mode = 1


def gen_fc_sym(rng, G, parts, variant, force=None):
    """configuration sweep for the rounding-level schemes: massless test particles (N_active < N),
    read-only pre/post callbacks, a velocity-independent additional force"""
    fc = mkfc(G)
    n = len(parts)
    if n >= 3 and (force == "tp" or (force is None and rng.chance(0.4))):
        fc["nactive"] = rng.randint(2, n - 1)
        for p in parts[fc["nactive"]:]:
            p[0] = 0.0
        if variant[0] == "leapfrog":
            fc["tptype"] = rng.randint(0, 1)
    cb = []
    if force == "cb" or (force is None and rng.chance(0.25)):
        cb.append("pre")
    if (force == "cb" and rng.chance(0.5)) or (force is None and rng.chance(0.25)):
        cb.append("post")
    fc["cb"] = tuple(cb)
    if force == "k" or (force is None and rng.chance(0.2)):
        fc["k"] = rng.loguniform(1e-3, 3e-2) * (G or 1.0)
    return fc


def roundtrip(R, G, parts, variant, dt, nst, opts=None):
    """n steps with dt, synchronize, `sim.dt = -sim.dt`, n steps, synchronize.  opts:
    safe=0: safe_mode off (synchronize only at the turning point and at the end); turn="restore": binary file
    round trip at the turning point; dtfac: the user changes dt (after a synchronize) in the middle of the
    forward leg, the backward leg mirrors it; com="boost": no move_to_com, the centre of mass is offset and
    moving; var: a first-order variational particle with non-zero data rides along and must come back too."""
    o = dict(safe=1, turn="sync", dtfac=None, com="moved", var=False)
    o.update(opts or {})
    s = R.sim(G, parts, "leapfrog")
    configure(s, variant)
    if o["safe"] == 0 and variant[0] in ("whfast", "saba", "eos"):
        getattr(s, "ri_" + variant[0]).safe_mode = 0
    if o["com"] == "moved" and variant[0] != "leapfrog":
        s.move_to_com()
    if o["var"]:
        v = s.add_variation()
        for i in range(len(parts)):
            q = v.particles[i]
            q.x, q.y, q.z = 0.3 + 0.1 * i, -0.2 + 0.05 * i, 0.01 * (i + 1)
            q.vx, q.vy, q.vz = 0.05 * (i + 1), 0.4 - 0.1 * i, -0.02 * i
    d0 = R.doubles(s)
    fwd = [(dt, nst)] if o["dtfac"] is None else [(dt, nst - nst // 2), (dt * o["dtfac"], nst // 2)]
    for d, n in fwd:
        s.synchronize()
        s.dt = d
        s.steps(n)
    d1 = R.doubles(s)
    s.synchronize()
    if o["turn"] == "restore":
        s = reload_sim(R, s, "save")
    for d, n in reversed(fwd):
        s.synchronize()
        s.dt = -d if o["dtfac"] is not None else -s.dt
        s.steps(n)
    s.synchronize()
    return d0, d1, R.doubles(s)


def search_symmetric(c, R):
    rng = c.rng.fork()
    variants = [("leapfrog",)] + [("whfast", k) for k in WH_COORDS] + [("saba", t) for t in SABA_UNCORRECTED]
    for a in EOS_UNPROCESSED:
        variants.append(("eos", a, "lf", 2))
    for b in EOS_UNPROCESSED[1:]:
        variants.append(("eos", "lf", b, 2))          # every splitting also as the inner one (phi1)
    variants += [("eos", "lf4", "lf4", 1), ("eos", "lf", "lf8_6_4", 3), ("eos", "lf8", "lf6", 2), ("eos", "lf4_2", "lf4_2", 1)]
    reps = 8 if c.thorough else 4
    nmax = 10000 if c.thorough else 1000
    worst = {}
    worst_fam = {}
    cfgh = {}
    disc = 0
    sw = 0
    for rep in range(reps):
        for variant in variants:
            moderate = rep % 2 == 1
            n = rng.randint(2, 6) if moderate else rng.randint(2, 8)
            G, parts = gen_planetary(rng, n, calm=True, moderate=moderate)
            P = inner_period(G, parts)
            dt = P / rng.choice([20, 40, 100]) * (1 if rng.chance(0.7) else -1)
            nst = rng.randint(50, 300) if moderate else rng.choice([50, 200, 500, nmax, rng.randint(20, nmax)])
            sweep = (rep + variants.index(variant)) % 2 == 1
            prim = None
            if sweep:
                # one primary dimension per swept case, in rotation (every dimension is reached in every run), plus random extras
                prims = ["safe", "restore", "dtfac", "boost", "tp", "cb", "k", "var", "G"]
                for _ in range(len(prims)):
                    prim = prims[sw % len(prims)]
                    sw += 1
                    ok = {"safe": variant[0] != "leapfrog", "tp": n >= 3,
                          "var": variant[0] == "leapfrog" or variant[:2] == ("whfast", "jacobi")}.get(prim, True)
                    if ok:
                        break
            if prim == "G" or (sweep and rng.chance(0.15)):                   # G != 1: same orbits, velocities rescaled
                G = rng.choice([4 * math.pi ** 2, 0.01])
                for p in parts:
                    for k3 in (4, 5, 6):
                        p[k3] *= math.sqrt(G)
                dt /= math.sqrt(G)
            G0 = G
            G = gen_fc_sym(rng, G0, parts, variant, force=(prim if prim in ("tp", "cb", "k") else ("none" if prim else None))) if sweep else mkfc(G0)
            opts = {}
            if sweep:
                if variant[0] != "leapfrog" and (prim == "safe" or rng.chance(0.2)):
                    opts["safe"] = 0
                if (prim == "restore" or rng.chance(0.1)) and not G["cb"] and G["k"] == 0:
                    opts["turn"] = "restore"           # function pointers are not persisted
                if prim == "dtfac" or rng.chance(0.15):
                    opts["dtfac"] = rng.choice([0.5, 0.7, 1.5])
                if prim == "boost" or rng.chance(0.15):
                    opts["com"] = "boost"
                    off = [rng.normal() * 2 for _ in range(3)] + [rng.normal() * 0.2 * math.sqrt(G0) for _ in range(3)]
                    for p in parts:
                        for k3 in range(6):
                            p[1 + k3] += off[k3]
            if (variant[0] == "leapfrog" or variant[:2] == ("whfast", "jacobi")) and G["nactive"] == -1 and (sweep or rng.chance(0.5)):
                opts["var"] = True             # the only two schemes of the family with variational equations
            if G["k"] != 0:
                nst = min(nst, 150)
            if opts.get("com") == "boost":
                nst = min(nst, 1000)      # |x| grows with t: the force loses eps*|x|/|dx| per step, the bound is calibrated for bounded |x|
            cfgh[str(fc_class(G)[:4])] = cfgh.get(str(fc_class(G)[:4]), 0) + 1
            d0, d1, d2 = roundtrip(R, G, parts, variant, dt, nst, opts)
            n = len(d0) // 6                       # variational particles included
            e = relerr(d0, d2, n)
            travelled = relerr(d0, d1, n)
            for cond, nm in ((opts.get("safe") == 0, "safe_mode = 0, synchronize only at the turning point"), (opts.get("turn") == "restore", "restore at the turning point"),
                             (opts.get("dtfac") is not None, "dt changed by the user mid-run"), (opts.get("com") == "boost", "COM offset + boost (no move_to_com)"),
                             (G["nactive"] != -1, "massless test particles"), (bool(G["cb"]), "callbacks pre/post"), (G["k"] != 0, "additional force, velocity independent"),
                             (opts.get("var", False), "variational particles with non-zero data"), (dt < 0, "dt < 0 first"), (G0 != 1.0, "G != 1")):
                if cond:
                    dim("sym: " + nm)
            name = "-".join(str(v) for v in variant)
            worst[name] = max(worst.get(name, 0.0), e)
            fam = "moderate" if moderate else "calm"
            worst_fam[fam] = max(worst_fam.get(fam, 0.0), e)
            c.count((name, n, min(3, int(math.log10(nst)))) + fc_class(G), nontrivial=travelled > 1e-3)
            rep_d = dict(integrator=variant[0], variant=list(variant), G=G0, fc=G, opts=opts, dt=dt, nsteps=nst, particles=parts, error=e,
                         procedure="add particles; configure (opts: safe_mode, restore at the turning point, dt change mid-run, COM boost, variational particle); (move_to_com); nsteps; synchronize; sim.dt=-sim.dt; nsteps; synchronize; relative max-norm difference to the start")
            TOL = tol_for(nst)
            if not e <= TOL:
                c.violation("%s-roundtrip" % name, "%s%s: %d steps forward and back return to the start only to %.2e (bound %.0e)" % (name, (" " + json.dumps(opts)) if opts else "", nst, e, TOL), rep_d)
            elif e > 20 * nst ** 1.5 * 1.1e-16:
                # dt-halving discriminator, for errors above the rounding level expected for this n
                # (calibration: clean-tree errors stay below 4 n^1.5 eps) but below the bound: the reversal
                # defect of a non-symmetric scheme is a power of dt, rounding is not.  Same time span with
                # dt/2 and dt/4; a hit must repeat on a perturbed copy of the system (rounding noise does not).
                disc += 1

                def scaling(pp):
                    es = [relerr(*[roundtrip(R, G, pp, variant, dt / k, k * nst, opts)[i] for i in (0, 2)], n) for k in (1, 2, 4)]
                    return es, (es[0] > 1.7 * es[1] and es[1] > 1.7 * es[2] and es[0] > 5 * es[2])
                es, hit = scaling(parts)
                if hit:
                    parts2 = [[p[0]] + [v * (1 + 1e-9 * (i + 1)) for v in p[1:]] for i, p in enumerate(parts)]
                    es2, hit2 = scaling(parts2)
                    if hit2 and es2[0] > 20 * nst ** 1.5 * 1.1e-16:
                        c.violation("%s-roundtrip-dt-scaling" % name,
                                    "%s: reversal error falls with the step like a truncation error (dt %.2e, dt/2 %.2e, dt/4 %.2e), not like rounding" % (name, es[0], es[1], es[2]),
                                    dict(rep_d, errors_dt_dt2_dt4=es, errors_perturbed_copy=es2))
    search_sei(c, R, rng, worst)
    c.cov["worst_roundtrip_error_by_scheme"] = {k: float("%.3g" % v) for k, v in sorted(worst.items())}
    c.cov["worst_roundtrip_error_by_family"] = {k: float("%.3g" % v) for k, v in sorted(worst_fam.items())}
    c.cov["dt_halving_discriminator_runs"] = disc
    c.cov["symmetric_roundtrips_by_configuration(test_particles,testparticle_type,additional_force,callbacks)"] = cfgh


def sei_roundtrip(R, om, omz, fc, parts, dt, nst, opts):
    """opts: dtfac (dt changed mid-run), turn='restore', shear=L (shear-periodic box of size L; particles get the
    Keplerian shear -1.5 OMEGA x added so they stream across the box)"""
    s = sei_sim(R, om, omz, fc, parts)
    if opts.get("shear"):
        s.configure_box(opts["shear"])
        s.boundary = "shear"
        s.N_ghost_x = s.N_ghost_y = opts.get("ghost", 0)
    d0 = R.doubles(s)
    fwd = [(dt, nst)] if opts.get("dtfac") is None else [(dt, nst - nst // 2), (dt * opts["dtfac"], nst // 2)]
    for d, n in fwd:
        s.dt = d
        s.steps(n)
    d1 = R.doubles(s)
    tmid = s.t
    if opts.get("turn") == "restore":
        s = reload_sim(R, s, "save")
    for d, n in reversed(fwd):
        s.dt = -d if opts.get("dtfac") is not None else -s.dt
        s.steps(n)
    return d0, d1, R.doubles(s), tmid


def search_sei(c, R, rng, worst):
    reps = 40 if c.thorough else 20
    nmax = 10000 if c.thorough else 1000
    shear_g = []
    for rep in range(reps):
        n = rng.randint(2, 8)
        om, omz, G, parts = gen_sheet(rng, n, omz_differs=(rep % 2 == 1))
        opts = {}
        kind = rep % 5
        if kind == 1:
            opts["dtfac"] = rng.choice([0.5, 0.7, 1.5, -0.8])
        elif kind == 2:
            opts["turn"] = "restore"
        elif kind in (3, 4):
            # shear-periodic box; kind 3 without self-gravity (asserted), kind 4 with (evidence only, see below)
            L = rng.uniform(3.0, 6.0)
            opts["shear"] = L
            opts["ghost"] = rng.randint(0, 1)
            for q in parts:
                q[1], q[2] = rng.uniform(-L / 2, L / 2), rng.uniform(-L / 2, L / 2)
                q[5] += -1.5 * om * q[1]
            if kind == 3:
                G = 0.0
            else:
                G = G or 1e-6
        fc = gen_fc_sym(rng, G, parts, ("leapfrog",)) if (rng.chance(0.5) and not opts.get("shear") and opts.get("turn") != "restore") else mkfc(G)
        fc["k"] = 0.0     # a harmonic force on top of Hill's equations is linearly unstable (e-folding within the run): not a test of the integrator
        dt = (2 * math.pi / om) / rng.choice([20, 50, 200]) * (1 if rng.chance(0.7) else -1)
        nst = rng.choice([50, 200, nmax])
        if fc["k"] != 0:
            nst = min(nst, 200)
        if opts.get("shear"):
            dt = (2 * math.pi / om) / rng.choice([20, 50]) * (1 if dt > 0 else -1)
            nst = 200                 # several shear times: every particle streams through the box
        d0, d1, d2, tmid = sei_roundtrip(R, om, omz, fc, parts, dt, nst, opts)
        e = relerr(d0, d2, n)
        if opts.get("shear") and kind == 4:
            # Wrapping happens after the step in both directions; with self-gravity summed over a finite set of ghost
            # boxes the step does not commute with the wrap, so the round trip closes only to ~G m/L^2 dt^2: outside
            # the property ("rounding error") — measured, not asserted.
            shear_g.append(e)
            c.count(None, nontrivial=False)
            continue
        worst["sei"] = max(worst.get("sei", 0.0), e)
        crossed = bool(opts.get("shear")) and abs(tmid) * 1.5 * om * max(abs(q[1]) for q in parts) > opts["shear"]
        c.count(("sei", n, om, min(3, int(math.log10(nst))), tuple(sorted(opts))), nontrivial=relerr(d0, d1, n) > 1e-3)
        for cond, nm in ((opts.get("dtfac") is not None, "dt changed by the user mid-run"), (opts.get("turn") == "restore", "restore at the turning point"),
                         (crossed, "shear boundary crossed, no self-gravity"), (omz != om, "OMEGAZ != OMEGA")):
            if cond:
                dim("sei: " + nm)
        TOL = tol_for(nst)
        if not e <= TOL:
            c.violation("sei-roundtrip", "SEI%s: %d steps forward and back return to the start only to %.2e (bound %.0e)" % ((" " + json.dumps(opts)) if opts else "", nst, e, TOL),
                        dict(integrator="sei", OMEGA=om, OMEGAZ=omz, G=G, fc=fc, opts=opts, dt=dt, nsteps=nst, particles=parts, error=e))
    c.cov["sei_shear_box_with_self_gravity_roundtrip_error(measured, not asserted)"] = [float("%.2g" % v) for v in shear_g]


def replay(path):
    """./check C10 --replay replays/C10-….json : re-run a recorded failing input on the current tree"""
    rp = json.load(open(path))["replay"]
    d = build()
    R = Real(use_scratch_rebound(d))
    if rp["integrator"] == "kepler-primitive":
        clib, P = R.rb.clibrebound, R.rb.Particle
        sim = R.rb.Simulation()

        def kep(p, dt):
            a = (P * 1)()
            for k, v in zip(COMP, p):
                setattr(a[0], k, v)
            clib.reb_whfast_kepler_solver(ctypes.byref(sim), a, ctypes.c_double(rp["M"]), ctypes.c_uint(0), ctypes.c_double(dt))
            return [getattr(a[0], k) for k in COMP]
        p, dt = rp["state"], rp["dt"]
        z = kep(kep(p, dt), -dt)
        m1, m2 = kep(p, -dt), kep(p[:3] + [-v for v in p[3:]], dt)
        e1 = max(abs(a - b) for a, b in zip(p, z)) / max(abs(v) for v in p)
        e2 = max(abs(a - b) for a, b in zip(m1, m2[:3] + [-v for v in m2[3:]])) / max(abs(v) for v in m1)
        print("kepler(-dt) o kepler(dt): error %.3e; mirror symmetry: error %.3e" % (e1, e2))
        ok = e1 <= rp.get("error", 1) / 100 or (e1 < 1e-6 and e2 < 1e-9)
        print("replay:", "property holds on this input" if ok else "STILL FAILING")
        sys.stdout.flush()
        os._exit(0 if ok else 1)
    parts, dt, nst = rp["particles"], rp["dt"], rp["nsteps"]
    G = rp.get("fc") or mkfc(rp.get("G", 1.0))        # the whole force / callback configuration
    G["cb"] = tuple(G["cb"])
    if rp["integrator"] == "janus":
        o = janus_roundtrip(R, rp["order"], rp["scale_pos"], rp["scale_vel"], G, parts, dt, nst, rp.get("mode", "steps"), dt2=rp.get("dt2"), t0=rp.get("t0"))
        ok = o["i2"] == o["i0"] and o["d2"] == o["d0"] and not o["flag_bad"] and not o["sim"]._c10["probe_bad"]
        print("JANUS order %d, %d steps there and back: %s (flag not clear at %d boundaries, %d stale positions at force evaluations)"
              % (rp["order"], nst, "exact" if (o["i2"] == o["i0"] and o["d2"] == o["d0"]) else "NOT exact", o["flag_bad"], o["sim"]._c10["probe_bad"]))
    elif rp["integrator"] == "sei":
        d0, _, d2, _ = sei_roundtrip(R, rp["OMEGA"], rp["OMEGAZ"], G, parts, dt, nst, rp.get("opts") or {})
        e = relerr(d0, d2, len(parts))
        ok = e <= tol_for(nst)
        print("SEI %d steps there and back: error %.3e (bound %.1e)" % (nst, e, tol_for(nst)))
    elif "bound" in rp:
        variant = tuple(rp["variant"])
        s = R.sim(1.0, parts, "leapfrog")
        if variant[0] == "mercurius":
            s.integrator = "mercurius"
        else:
            configure(s, variant[:2])
            if variant[0] == "whfast":
                s.ri_whfast.safe_mode = variant[2]
        s.move_to_com()
        d0 = R.doubles(s)
        s.dt = dt
        s.steps(nst)
        s.synchronize()
        s.dt = -s.dt
        s.steps(nst)
        s.synchronize()
        e = relerr(d0, R.doubles(s), len(parts))
        ok = e <= rp["bound"]
        print("%s %d steps there and back: error %.3e (bound %.1e)" % ("-".join(map(str, variant)), nst, e, rp["bound"]))
    else:
        variant = tuple(rp["variant"])
        rts = [roundtrip(R, G, parts, variant, dt / k, k * nst, rp.get("opts")) for k in (1, 2, 4)]
        es = [relerr(rt[0], rt[2], len(rt[0]) // 6) for rt in rts]
        ok = es[0] <= tol_for(nst) and not (es[0] > 20 * nst ** 1.5 * 1.1e-16 and es[0] > 1.7 * es[1] and es[1] > 1.7 * es[2] and es[0] > 5 * es[2])
        print("%s %d steps there and back: error %.3e (bound %.1e); with dt/2, dt/4: %.3e %.3e" % ("-".join(map(str, variant)), nst, es[0], tol_for(nst), es[1], es[2]))
    print("replay:", "property holds on this input" if ok else "STILL FAILING")
    sys.stdout.flush()
    os._exit(0 if ok else 1)


if __name__ == "__main__":
    if "--replay" in sys.argv:
        replay(sys.argv[sys.argv.index("--replay") + 1])
    main("C10", run)
