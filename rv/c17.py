"""C17 — copies are independent and equal; compare reports exactly the real differences.

proof:   lean/RV/Props/C17.lean — exact characterisation of `compare` (field-level reb_binary_diff) for every table,
         memcmp fields: differ <-> bytes differ, member-wise fields: pointer members never influence the decision,
         self-equality under the no-NaN hypothesis + the NaN counter-example, table theorems (compare spec covers
         exactly the non-pointer members of reb_particle; which pointer-embedding payloads are memcmp'd; walltime rows)
tie:     drv_c05 op CMP on pairs of real streams vs reb_binary_diff / reb_simulation_diff of the compiled library
search:  copy == source (C and Python ==, and all persisted bytes), restored snapshot == source, copying does not
         touch the source, advancing / editing / freeing one never changes the other, copy and source evolve
         identically, one perturbation per struct member and per element member of every persisted array must flip
         `==` exactly when the member is persisted and not wall-clock, NaN / signed-zero particles
"""
import ctypes, os, sys, struct, pickle, copy as pycopy
sys.path.insert(0, os.path.dirname(os.path.abspath(__file__)))
from common import *
from persist_common import *
import extract_c05
import c05 as C05
from c05 import Search, Rec, replay_events, forked, persisted_paths, uses_tree, translator_obligations, prove_with_gen, finish_dimensions, pairwise_cases, finish_pairs

F5 = "F5:var_config-sim-pointer-memcmp"
K_PJH = "C05-N3:whfast-p_jh-uninitialised-bytes-compared"
K_NE = "C17-N1:particle-doubles-compared-with-ne"


class Search17(Search):
    def pyeq(self, a, b):
        return bool(a == b)

    def eq_consistency(self, a, b, ne, cfg, where):
        """Python ==, != and the printed diff must tell the same story as reb_simulation_diff: the diff text names a
        non-walltime field iff the simulations are unequal"""
        import io, contextlib
        c = self.c
        if bool(a == b) != (ne == 0) or bool(a != b) != (ne != 0) or bool(b == a) != (ne == 0):
            c.violation("python-eq-disagrees", "Python ==/!= disagree with reb_simulation_diff (%s)" % where, {"cfg": cfg, "where": where})
        buf = io.StringIO()
        with contextlib.redirect_stdout(buf):
            a.diff(b)
        import re as _re
        names = [l[:-1] for l in _re.sub(r"\x1b\[[0-9;]*m", "", buf.getvalue()).splitlines() if l.endswith(":") and not l.startswith(("<", ">", "-"))]
        real = [n for n in names if not n.startswith(self.info["wallprefix"])]
        self.hist["diff_text_checked"] = self.hist.get("diff_text_checked", 0) + 1
        if bool(real) != (ne != 0):
            c.violation("diff-text-disagrees", "sim.diff() prints differing fields %s but reb_simulation_diff returns %d (%s)" % (real[:5], ne, where),
                        {"cfg": cfg, "where": where, "fields": names[:10]})

    def one(self, cfg, path, k=9):
        c, R, rb = self.c, self.R, self.rb
        try:
            a = build_sim(rb, cfg)
            advance(a, cfg["save_after"])
            self.pre_save_edit(a, cfg)
        except Exception:
            self.hist["rejected_config"] = self.hist.get("rejected_config", 0) + 1
            return
        key = cfg_key(cfg)
        has_var = bool(cfg.get("variational") or cfg.get("megno"))
        # 64-bit counters beyond 2^32 (a field written with 4 bytes would come back truncated and still compare equal)
        self.poke(a, "collisions_log_n", 5 * 2 ** 32 + 7, ctypes.c_int64)
        self.hist["dim|scale:counters_ge_2^32"] = self.hist.get("dim|scale:counters_ge_2^32", 0) + 1
        if not cfg.get("megno"):
            self.poke(a, "megno_n", 3 * 2 ** 32 + 11, ctypes.c_int64)
        R.save(a)                      # the first save initialises the integrator (reb_integrator_init) - not part of the claim
        v0 = R.persisted_view(a, drop_wall=False)
        cp, warns = self.restore(a, path)   # path: copy / pickle / buffer / file
        attach(cp, cfg)
        v1 = R.persisted_view(a, drop_wall=False)
        c.count((key, path), nontrivial=cfg["save_after"] > 0 or bool(cfg.get("o")))
        self.tag(cfg, path, "copy")
        self.hist["path_" + path] = self.hist.get("path_" + path, 0) + 1
        if v0 != v1:
            c.violation("copy-touches-source", "copying (%s) changed the source: %s" % (path, R.first_difference(v0, v1)), {"cfg": cfg, "path": path})
        vc = R.persisted_view(cp, drop_wall=False)
        dd = R.first_difference(v0, vc)
        if dd:
            c.violation("copy-differs:" + dd.split(" ")[0], "the copy (%s) differs from its source in %s" % (path, dd), {"cfg": cfg, "path": path})
            return
        rawd = R.raw_member_differences(a, cp)
        if rawd:
            c.violation("copy-raw-differs:" + rawd[0], "persisted member(s) %s of the copy (%s) differ from the source in struct memory although the serialised streams agree, cfg %s" % (rawd[:4], path, key),
                        {"cfg": cfg, "path": path, "members": rawd})
            return
        if R.tree_expected(a) and R.tree_complete(a) and not R.tree_complete(cp):
            lv = R.tree_leaves(cp)
            c.violation("tree-not-rebuilt:%s/%s" % (a.gravity, a.collision),
                        "the copy (%s) of a simulation using gravity=%s collision=%s has %s of %d particles in its tree (source: all): it will never find the collisions / tree forces of its source, cfg %s" % (
                            path, a.gravity, a.collision, "no tree" if lv is None else len(lv), cp.N, key), {"cfg": cfg, "path": path})
            return
        # equality as the library decides it
        ne = R.diff(a, cp)
        self.eq_consistency(a, cp, ne, cfg, "copy vs source (%s)" % path)
        if ne:
            c.violation(F5 if has_var else "copy-unequal:" + cfg["integrator"],
                        "a simulation compares unequal to its own %s although every persisted byte (pointers masked) is equal, cfg %s" % (
                            "copy" if path == "copy" else "restored snapshot (" + path + ")", key), {"cfg": cfg, "path": path})
        # independence: advance the copy, edit the copy, free the copy
        try:
            advance(cp, 3)
            cp.particles[1].x += 0.125
            cp.particles[0].m *= 1.5
            cp.remove(index=cp.N - 1) if not has_var and cp.N > 2 else None
        except Exception:
            self.hist["edit_rejected"] = self.hist.get("edit_rejected", 0) + 1
        v2 = R.persisted_view(a, drop_wall=False)
        if v2 != v0:
            c.violation("copy-not-independent", "advancing/editing the copy changed the source: %s" % R.first_difference(v0, v2), {"cfg": cfg, "path": path})
        vcp = R.persisted_view(cp, drop_wall=False)
        try:
            advance(a, 2)
        except Exception:
            self.hist["rejected_config"] = self.hist.get("rejected_config", 0) + 1
            return
        if R.persisted_view(cp, drop_wall=False) != vcp:
            c.violation("source-not-independent", "advancing the source changed the copy", {"cfg": cfg, "path": path})
        del cp
        try:
            advance(a, 1)
            R.save(a)
        except Exception as e:
            # REBOUND itself rejects stepping this configuration (e.g. SABA + variational particles)
            self.hist["rejected_config"] = self.hist.get("rejected_config", 0) + 1
            return
        # copy and source evolve identically, and still compare equal
        try:
            a = build_sim(rb, cfg); advance(a, cfg["save_after"]); self.pre_save_edit(a, cfg); R.save(a)
            cp, _ = self.restore(a, path); attach(cp, cfg)
            apply_ops(a, cfg.get("post", [])); apply_ops(cp, cfg.get("post", []))
            advance(a, k); advance(cp, k)
        except Exception:
            return
        if cfg.get("pw_index") is not None:
            self.hist["pwdone|%d" % cfg["pw_index"]] = 1
        va, vc = R.persisted_view(a), R.persisted_view(cp)
        d2 = R.first_difference(va, vc)
        d3 = R.first_difference(self.semantic(va), self.semantic(vc))
        if d3 is not None:
            fk = self.classify_continue(cfg, None, path, k, d3)
            c.violation(fk if fk else "copy-evolves-differently:" + cfg["integrator"] + ":" + d3.split(" ")[0],
                        "copy (%s) and source do not evolve identically over %d steps: %s, cfg %s" % (path, k, d3, key),
                        {"cfg": cfg, "path": path, "steps": k, "difference": d3})
            return
        ne = R.diff(a, cp)
        self.eq_consistency(a, cp, ne, cfg, "after evolving both")
        if cp.N > 0:
            cp.particles[0].x += 1e-3       # and a pair that certainly differs
            self.eq_consistency(a, cp, R.diff(a, cp), cfg, "after editing the copy")
            cp.particles[0].x -= 1e-3
        raw_equal = True
        if ne and has_var:
            c.violation(F5, "source and copy compare unequal after evolving identically (variational configuration)", {"cfg": cfg, "path": path})
        elif ne:
            # all meaningful persisted bytes are equal: the difference is in never-initialised / pointer bytes of a memcmp'd payload
            c.violation(K_PJH if cfg["integrator"] in ("whfast", "saba", "mercurius") else "evolved-copy-unequal:" + cfg["integrator"],
                        "source and copy evolved identically (all persisted bytes that REBOUND computes are equal) but compare unequal: %s" % (d2 or "pointer bytes of a memcmp'd payload"),
                        {"cfg": cfg, "path": path, "steps": k})


def add_raw_view(R):
    def persisted_view_raw(sim):
        return [(t, p) for t, p in parse_stream(R.save(sim))[1] if t not in R.wall_ids]
    R.persisted_view_raw = persisted_view_raw


def run_cases17(c, S, cases, nproc=8, chunk=10):
    """like c05.run_cases, with Search17 workers"""
    rb, info, R = S.rb, S.info, S.R
    orig = C05.Search
    C05.Search = Search17
    try:
        C05.run_cases(c, S, cases, nproc=nproc, chunk=chunk, budget=70)
    finally:
        C05.Search = orig


def perturbation_sweep(c, S, info, R, rb):
    """one perturbation per scalar member of reb_simulation / ri_* in a copy: `==` must flip exactly when the member
    is persisted and not wall-clock (oracle: the descriptor table + walltime prefix, not reb_binary_diff)"""
    per = persisted_paths(info)
    wall = {r["path"] for r in info["rows"] if r["name"].startswith(info["wallprefix"])}
    counters = {r["npath"] for r in info["rows"] if r.get("npath")}
    scal = [m for m in info["members"] if m["kind"] in ("f64", "i32", "u32", "i64", "u64", "enum32", "vec3d")]
    cfg = {"integrator": "whfast", "o": {"safe_mode": 0}, "system": "planets", "save_after": 2}
    res = {"reported": 0, "silent_transient": 0, "silent_walltime": 0, "skipped_counter": 0, "silent_finding": 0}

    def task(m):
        # one bit flipped in EACH byte of the member in turn (low and high bytes: a field written with too few bytes hides
        # differences in the high ones), plus for 64-bit integers a difference of exactly 2^32
        a = build_sim(rb, cfg); advance(a, 2); R.save(a)
        diffs, eqs = [], []
        variants = [("byte%d" % b, b, 0x01) for b in range(m["size"])]
        for tag, b, mask in variants:
            cp, _ = R.copy(a)
            addr = ctypes.addressof(cp) + m["off"]
            old = ctypes.string_at(addr, m["size"])
            new = old[:b] + bytes([old[b] ^ mask]) + old[b + 1:]
            ctypes.memmove(addr, new, m["size"])
            diffs.append(R.diff(a, cp)); eqs.append(bool(a == cp))
        bad = [i for i, d_ in enumerate(diffs) if d_ != diffs[0]]
        return {"diff": diffs[0], "eq": eqs[0], "diffs": diffs, "consistent": all((d_ == 0) == e for d_, e in zip(diffs, eqs))}

    for m in scal:
        p = m["path"]
        if p in counters or info["transient"].get(p, {}).get("class") == "counter":
            res["skipped_counter"] += 1
            continue
        ok, out = forked(task, m)
        c.count(("perturb", p))
        if not ok:
            c.violation("perturb-crash:" + p, "comparison crashed with member %s perturbed" % p, {"member": p})
            continue
        want = 1 if (p in per and p not in wall) else 0
        cls = info["transient"].get(p, {}).get("class")
        if not out["consistent"]:
            c.violation("python-eq-disagrees", "Python == disagrees with reb_simulation_diff", {"member": p})
        res["byte_perturbations"] = res.get("byte_perturbations", 0) + len(out["diffs"])
        wrong = [i for i, d_ in enumerate(out["diffs"]) if d_ != want]
        if wrong and len(wrong) < len(out["diffs"]) and want:
            c.violation("difference-not-reported:" + p + ":high-bytes",
                        "simulations differing only in byte(s) %s of the %d-byte persisted member %s compare equal (other bytes are reported)" % (wrong, m["size"], p),
                        {"member": p, "bytes": wrong})
            continue
        if out["diff"] == want and not wrong:
            res["reported" if want else ("silent_walltime" if p in wall else ("silent_finding" if cls == "finding" else "silent_transient"))] += 1
            if cls == "finding" and want == 0:
                fk = {"ri_trace.peri_mode": "F9a:trace-peri_mode-not-persisted",
                      "ri_mercurius.recalculate_r_crit_this_timestep": "C05-N1:mercurius-recalculate_r_crit-not-persisted"}.get(p, "gap:" + p)
                c.violation(fk, "two simulations that differ in the user setting %s compare equal (the member is not persisted)" % p, {"member": p})
            continue
        if want:
            c.violation("difference-not-reported:" + p, "simulations differing only in persisted member %s compare equal" % p, {"member": p})
        else:
            c.violation("spurious-difference:" + p, "simulations differing only in the %s member %s compare unequal" % (
                "wall-clock" if p in wall else "non-persisted", p), {"member": p})
    c.cov["perturbation_sweep"] = res


def element_sweep(c, S, info, R, rb):
    """one perturbation per member (and per pointer member / padding gap) of an element of every persisted array"""
    bases = [{"integrator": "whfast", "o": {"safe_mode": 0}, "system": "planets", "save_after": 2},
             {"integrator": "ias15", "o": {}, "system": "planets", "save_after": 2, "variational": 2},
             {"integrator": "janus", "o": {}, "system": "planets", "save_after": 2},
             {"integrator": "mercurius", "o": {"safe_mode": 0}, "system": "close", "save_after": 2}]
    n = 0
    hist = {"reported": 0, "pointer_or_padding_silent": 0}
    for cfg in bases:
        a = build_sim(rb, cfg); advance(a, cfg["save_after"]); R.save(a)
        present = {t for t, _ in parse_stream(R.save(a))[1]}
        for row in info["rows"]:
            if row["dtype"] not in ("REB_POINTER", "REB_DP7") or row["id"] not in present:
                continue
            el = info["elems"].get(row.get("elem") or "")
            members = list(el["members"]) if el else [{"name": "double", "kind": "f64", "off": 0, "size": 8}]
            esz = el["size"] if el else 8
            # padding gaps
            covered = sorted((m["off"], m["size"]) for m in members)
            pos = 0
            for off, size in covered:
                if off > pos:
                    members.append({"name": "(padding@%d)" % pos, "kind": "pad", "off": pos, "size": off - pos})
                pos = off + size
            if pos < esz:
                members.append({"name": "(padding@%d)" % pos, "kind": "pad", "off": pos, "size": esz - pos})
            for m in members:
                cp, _ = R.copy(a)
                ptr = ctypes.c_void_p.from_address(ctypes.addressof(cp) + info["by_path"][row["path"]]["off"]).value
                cnt = ctypes.c_uint.from_address(ctypes.addressof(cp) + info["by_path"][row["npath"]]["off"]).value
                if not ptr or cnt == 0:
                    continue
                # neutralise F5 so that single perturbations stay observable: give the copy's var_config the source's back pointers
                vptr_c = ctypes.c_void_p.from_address(ctypes.addressof(cp) + info["by_path"]["var_config"]["off"]).value
                vptr_a = ctypes.c_void_p.from_address(ctypes.addressof(a) + info["by_path"]["var_config"]["off"]).value
                nv = ctypes.c_uint.from_address(ctypes.addressof(cp) + info["by_path"]["N_var_config"]["off"]).value
                vsz = info["elems"]["reb_variational_configuration"]["size"]
                for iv in range(nv):
                    ctypes.memmove(vptr_c + iv * vsz, ctypes.string_at(vptr_a + iv * vsz, 8), 8)
                if R.diff(a, cp) != 0:
                    c.violation("copy-unequal-baseline:" + cfg["integrator"], "copy unequal to source even with equal back pointers", {"cfg": cfg})
                    break
                loc = ptr + (cnt - 1) * esz + m["off"]
                want = 0 if m["kind"] in ("ptr", "fptr", "pad") else 1
                if want == 0 and row["name"] not in ("particles", "var_config"):
                    # pointer / padding bytes of an internal array: only meaningful if the code leaves garbage there
                    if all(ctypes.string_at(ptr + e * esz + m["off"], m["size"]) == b"\0" * m["size"] for e in range(cnt)):
                        hist["constant_slots"] = hist.get("constant_slots", 0) + 1
                        continue
                gots = []
                for b_ in range(m["size"]):          # one bit in each byte of the member in turn (low and high bytes)
                    b0 = ctypes.string_at(loc + b_, 1)
                    ctypes.memmove(loc + b_, bytes([b0[0] ^ 0x01]), 1)
                    gots.append(R.diff(a, cp))
                    ctypes.memmove(loc + b_, b0, 1)  # restore (pointers must be intact when the copy is freed)
                got = want if all(g == want for g in gots) else 1 - want
                n += len(gots)
                c.count(("element", row["name"], m["name"]))
                if got == want:
                    hist["reported" if want else "pointer_or_padding_silent"] += 1
                    continue
                if want == 0:
                    isvar = row["name"] == "var_config"
                    fk = F5 if isvar else (K_PJH if row["name"].startswith("ri_whfast") else "address-dependent:" + row["name"])
                    c.violation(fk, "two simulations identical except for the %s `%s` inside the persisted payload %s compare unequal (payload is memcmp'd)" % (
                        "pointer member" if m["kind"] != "pad" else "padding bytes", m["name"], row["name"]),
                        {"cfg": cfg, "row": row["name"], "member": m["name"]})
                else:
                    c.violation("element-difference-not-reported:%s.%s" % (row["name"], m["name"]),
                                "simulations differing only in %s of an element of %s compare equal" % (m["name"], row["name"]),
                                {"cfg": cfg, "row": row["name"], "member": m["name"]})
    c.cov["element_sweep_cases"] = n
    c.cov["element_sweep"] = hist


def nan_cases(c, S, info, R, rb):
    """model-level counter-example c17_nan_unequal_to_itself replayed on the real code, plus signed zeros"""
    cfg = {"integrator": "leapfrog", "o": {}, "system": "planets", "save_after": 1}
    a = build_sim(rb, cfg); advance(a, 1)
    a.particles[2].y = float("nan")     # the F17 state: a merged / removed particle is flagged with y = NaN
    cp, _ = R.copy(a)
    c.count(("nan", "y"))
    if R.diff(a, cp) != 0:
        c.violation(K_NE, "a simulation holding a particle with a NaN coordinate (the flag REBOUND itself uses for removed particles) compares unequal to its own copy",
                    {"cfg": cfg, "edit": "particles[2].y = nan"})
    a = build_sim(rb, cfg); advance(a, 1)
    a.particles[1].vz = 0.0
    cp, _ = R.copy(a)
    cp.particles[1].vz = -0.0
    c.count(("signed-zero", "vz"))
    if R.diff(a, cp) == 0:
        c.violation(K_NE, "simulations whose persisted bytes differ (+0.0 vs -0.0 in a particle velocity) compare equal",
                    {"cfg": cfg, "edit": "copy.particles[1].vz = -0.0"})


def special_value_sweep(c, S, info, R, rb):
    """every persisted double member of reb_simulation / ri_* set to NaN, -NaN, +inf, -inf, a denormal, -0.0 in turn:
    the simulation must equal itself, its copy and its unpickled snapshot (the C comparison is bitwise for these
    members), a copy that differs only by the sign of zero / the NaN payload must be reported, and Python ==, !=
    (both orders) must agree with reb_simulation_diff in every case"""
    per = persisted_paths(info)
    wall = {r["path"] for r in info["rows"] if r["name"].startswith(info["wallprefix"])}
    cfg = {"integrator": "whfast", "o": {"safe_mode": 0}, "system": "planets", "save_after": 2}
    specials = [("nan", struct.pack("<Q", 0x7ff8000000000000)), ("-nan", struct.pack("<Q", 0xfff8000000000001)),
                ("inf", struct.pack("<d", float("inf"))), ("-inf", struct.pack("<d", float("-inf"))),
                ("denormal", struct.pack("<Q", 1)), ("-0.0", struct.pack("<d", -0.0)), ("0.0", struct.pack("<d", 0.0))]
    twins = {"nan": "-nan", "-0.0": "0.0", "0.0": "-0.0", "inf": "-inf"}
    sv = dict(specials)
    res = {"members": 0, "cases": 0}

    def task(m):
        import pickle as _p, warnings
        warnings.simplefilter("ignore")
        out = []
        for tag, val in specials:
            a = build_sim(rb, cfg); advance(a, 2); R.save(a)
            ctypes.memmove(ctypes.addressof(a) + m["off"], val, 8)
            cp, _ = R.copy(a)

            def agree(x, y, want, what):
                ne = R.diff(x, y)
                if ne != want:
                    out.append("%s=%s: reb_simulation_diff says %d for %s (expected %d)" % (m["path"], tag, ne, what, want))
                if bool(x == y) != (ne == 0) or bool(x != y) != (ne != 0) or bool(y == x) != (ne == 0):
                    out.append("%s=%s: Python ==/!= (%s, %s, %s) disagree with reb_simulation_diff=%d for %s" % (
                        m["path"], tag, bool(x == y), bool(x != y), bool(y == x), ne, what))
            if ctypes.string_at(ctypes.addressof(cp) + m["off"], 8) != val:
                out.append("%s=%s: the copy holds different bytes" % (m["path"], tag))
            agree(a, a, 0, "the simulation and itself")
            agree(a, cp, 0, "the simulation and its copy")
            try:
                r = _p.loads(_p.dumps(a))
                agree(a, r, 0, "the simulation and its unpickled snapshot")
            except Exception as e:
                out.append("%s=%s: pickle round trip raises %s" % (m["path"], tag, str(e)[:80]))
            if tag in twins and m["path"] not in wall:
                ctypes.memmove(ctypes.addressof(cp) + m["off"], sv[twins[tag]], 8)
                agree(a, cp, 1, "a copy holding %s instead" % twins[tag])
        return out

    for m in [m for m in info["members"] if m["kind"] == "f64" and m["path"] in per]:
        ok, out = forked(task, m)
        res["members"] += 1
        res["cases"] += len(specials) * 4
        c.count(("special-values", m["path"]))
        if not ok:
            c.violation("special-value-crash:" + m["path"], "copy / compare / pickle crashed with a special value in %s" % m["path"], {"member": m["path"]})
            continue
        for msg in out[:2]:
            key = "python-eq-disagrees:special-values" if "Python" in msg else "special-value:" + m["path"]
            c.violation(key, msg, {"member": m["path"], "all": out[:6]})
    c.cov["special_value_sweep"] = res


def extra_field_cases(c, S, info, R, rb):
    """a persisted field present in only one of the two simulations is a difference, whichever side has it"""
    for cfg in ({"integrator": "whfast", "o": {"safe_mode": 0}, "system": "planets", "save_after": 2},
                {"integrator": "ias15", "o": {}, "system": "planets", "save_after": 0}):
        a = build_sim(rb, cfg); advance(a, cfg["save_after"]); R.save(a)
        cp, _ = R.copy(a)
        rb.clibrebound.reb_simulation_add_display_settings(ctypes.byref(cp))
        for x, y, tag in ((a, cp, "second"), (cp, a, "first")):
            c.count(("extra-field", cfg["integrator"], tag))
            if R.diff(x, y) == 0:
                c.violation("extra-field-not-reported:" + tag, "two simulations of which only the %s has display settings (a persisted field) compare equal" % tag,
                            {"cfg": cfg, "edit": "reb_simulation_add_display_settings on the copy", "direction": tag})


def callback_side_cases(c, S, info, R, rb):
    """callbacks set on one side only: the function-pointer flag is a persisted field, so the simulations compare
    unequal until the user re-attaches the callbacks on the copy; afterwards they must compare equal"""
    n = 0
    for cbs in (["heartbeat"], ["additional_forces"], ["post"], ["pre"]):
        for path in ("copy", "pickle"):
            cfg = {"integrator": "whfast", "o": {"safe_mode": 0}, "system": "planets", "save_after": 2, "cb": cbs}
            a = build_sim(rb, cfg); advance(a, 2); R.save(a)
            cp, _ = S.restore(a, path)
            n += 1
            c.count(("callbacks-one-side", cbs[0], path))
            before = R.diff(a, cp)
            flagged = {"heartbeat": "heartbeat", "additional_forces": "additional_forces", "post": "post_timestep_modifications",
                       "pre": "pre_timestep_modifications"}[cbs[0]] in info["fp_members"]
            if before != (1 if flagged else 0):
                c.violation("callbacks-one-side:" + cbs[0], "source has the callback %s, its %s has none: reb_simulation_diff = %d but the function-pointer flag field %s" % (
                    cbs[0], path, before, "differs" if flagged else "is equal"), {"cfg": cfg, "path": path})
            if before:
                c.violation("C17-N2:copy-unequal-until-callbacks-reattached",
                            "a simulation with a callback set (%s) compares unequal to its own fresh %s: the persisted function-pointer flag differs until the user re-attaches the callback" % (cbs[0], path),
                            {"cfg": cfg, "path": path})
            attach(cp, cfg)
            if R.diff(a, cp) != 0 or not (a == cp):
                c.violation("callbacks-reattached-unequal:" + cbs[0], "after re-attaching the callback the %s still compares unequal" % path, {"cfg": cfg, "path": path})
    return n


def forked_big(fn, arg):
    """fn(arg) in a forked child -> (status, result): 'ok', 'crash' (the C library took the child down) or 'exception'
    (a bug of the check itself, traceback on stderr)"""
    rfd, wfd = os.pipe()
    pid = os.fork()
    if pid == 0:
        rcode = 3
        try:
            os.close(rfd)
            data = json.dumps(fn(arg)).encode()
            with os.fdopen(wfd, "wb") as f:
                f.write(data)
            rcode = 0
        except BaseException:
            import traceback
            traceback.print_exc()
        finally:
            os._exit(rcode)
    os.close(wfd)
    chunks = []
    while True:
        ch = os.read(rfd, 1 << 20)
        if not ch:
            break
        chunks.append(ch)
    os.close(rfd)
    _, status = os.waitpid(pid, 0)
    if status == 0 and chunks:
        return "ok", json.loads(b"".join(chunks).decode())
    if os.WIFEXITED(status) and os.WEXITSTATUS(status) == 3:
        return "exception", None
    return "crash", None


def correspondence(c, exe, rb, info, R, cfgs, rng):
    """model `compare` vs real reb_binary_diff on pairs of real streams"""
    prog = os.path.join(os.environ.get("VERIF_TMP", "/tmp"), "c17_corr_%d" % os.getpid())

    def gather(skip):
        """runs in a forked child: every call into the compiled library happens here, so that a crash of the real code
        (or of freeing a simulation) can never take the check itself down"""
        lines, meta = [], []
        sims = []
        for cfg in cfgs:
            if cfg in skip:
                continue
            json.dump(cfg, open(prog, "w"), default=str)
            try:
                a = build_sim(rb, cfg); advance(a, cfg["save_after"]); R.save(a)
                if uses_tree(cfg) and not forked(lambda _: bool(R.copy(a)), None)[0]:
                    continue     # C05-N5: copying this state crashes (reported by the search)
                sims.append((cfg, a))
            except Exception:
                pass
        def pair(tag, b1, b2, cfg):
            f1, f2 = parse_stream(b1)[1], parse_stream(b2)[1]
            real_cmp = R.binary_diff(b1, b2)
            # the report itself (output_option 0): model diffReport vs the difference stream the library writes
            rc0, rep = R.binary_diff_report(b1, b2)
            # (the model's element loop slices lists: quadratic in the number of particles, so streams of the N = 130 / 1030
            # systems get the return value only)
            big = max(len(b1), len(b2)) > 30000
            lines.append("%s %s | %s" % ("CMP" if big else "DIFF", fields_line(f1), fields_line(f2)))
            if big:
                rep = None
            meta.append(("DIFF:" + tag, cfg, (rc0, rep, real_cmp)))

        def edited(b, fn_):
            hdr, fs, tail = parse_stream(b)
            return frame(hdr, fn_([(t, bytearray(p)) for t, p in fs]), tail)

        def stream_edits(b, cfg):
            """second streams made from a real one at byte level (reb_binary_diff is a function of the two buffers): the LAST
            element of every member-wise compared array changed in a compared member / in a pointer member only, a walltime
            field changed, a field removed, fields in another order"""
            ids = {r["name"]: r["id"] for r in info["rows"]}
            for name, ename in (("particles", "reb_particle"), ("var_config", "reb_variational_configuration")):
                el = info["elems"][ename]
                for kind in ("value", "pointer"):
                    ms = [m for m in el["members"] if (m["kind"] in ("ptr", "fptr")) == (kind == "pointer")]
                    if not ms:
                        continue
                    m = ms[rng.next() % len(ms)]

                    def ed(fs, m=m, name=name, el=el):
                        for t, p in fs:
                            if t == ids[name] and len(p) >= el["size"]:
                                p[len(p) - el["size"] + m["off"] + (rng.next() % m["size"])] ^= 0x10
                        return [(t, bytes(p)) for t, p in fs]
                    if any(t == ids[name] and len(p) >= el["size"] for t, p in parse_stream(b)[1]):
                        pair("last-element-%s:%s" % (kind, name), b, edited(b, ed), cfg)
            wall = [r["id"] for r in info["rows"] if r["name"].startswith(info["wallprefix"])]

            def edw(fs):
                for t, p in fs:
                    if t in wall and p:
                        p[0] ^= 1
                return [(t, bytes(p)) for t, p in fs]
            pair("walltime-only", b, edited(b, edw), cfg)
            drop = ids["particles"] if rng.chance(0.5) else ids["dt"]
            pair("field-removed", b, edited(b, lambda fs: [(t, bytes(p)) for t, p in fs if t != drop]), cfg)
            pair("field-added", edited(b, lambda fs: [(t, bytes(p)) for t, p in fs if t != drop]), b, cfg)
            pair("reordered", b, edited(b, lambda fs: [(t, bytes(p)) for t, p in (fs[:-1][::-1] + fs[-1:])]), cfg)
        for i, (cfg, a) in enumerate(sims):
            json.dump(cfg, open(prog, "w"), default=str)
            b = R.save(a)
            cp, _ = R.copy(a)
            pair("copy", b, R.save(cp), cfg)
            # perturb a random persisted scalar of the copy
            rows = [r for r in info["rows"] if r.get("path") and r["dtype"] in ("REB_DOUBLE", "REB_INT", "REB_UINT", "REB_UINT32", "REB_INT64", "REB_UINT64")
                    and r["path"] not in ("N", "simulationarchive_version")]
            r_ = rows[rng.next() % len(rows)]
            # (in the saved stream of the copy, not in the live struct: a perturbed counter makes freeing the copy crash)
            def edp(fs, rid=r_["id"]):
                for t, p in fs:
                    if t == rid and p:
                        p[0] ^= 0x04
                return [(t, bytes(p)) for t, p in fs]
            pair("perturbed:" + r_["name"], b, edited(R.save(cp), edp), cfg)
            # particle member / pointer perturbation
            if cp.N > 1:
                cp2, _ = R.copy(a)
                which = rng.next() % 4
                if which == 0:
                    cp2.particles[1].x += 1e-9
                elif which == 1:
                    cp2.particles[cp2.N - 1].hash = 12345
                elif which == 2:
                    cp2.particles[0].vy = float("nan")
                else:
                    cp2.particles[1].m = -0.0 if cp2.particles[1].m == 0.0 else cp2.particles[1].m
                pair("particle:%d" % which, b, R.save(cp2), cfg)
            # a different simulation (different field sets, orders)
            cfg2, a2 = sims[(i * 7 + 3) % len(sims)]
            pair("other", b, R.save(a2), cfg)
            pair("other-rev", R.save(a2), b, cfg)
            # a field present in one stream only (display settings), both directions
            if i % 5 == 0:
                cp4, _ = R.copy(a)
                rb.clibrebound.reb_simulation_add_display_settings(ctypes.byref(cp4))
                pair("extra-field", b, R.save(cp4), cfg)
                pair("missing-field", R.save(cp4), b, cfg)
            if i % 3 == 0 or cfg.get("variational") or cfg.get("megno"):
                stream_edits(b, cfg)
            # stepped
            cp3, _ = R.copy(a)
            try:
                advance(cp3, 1)
                pair("stepped", b, R.save(cp3), cfg)
            except Exception:
                pass
        return {"lines": lines, "meta": [[t_, c_, (r_ if not isinstance(r_, tuple) else [r_[0], (None if r_[1] is None else fields_line(r_[1])), r_[2]])] for t_, c_, r_ in meta]}

    skip, got = [], None
    for attempt in range(4):
        st_, got = forked_big(gather, skip)
        if st_ == "ok":
            break
        if st_ == "exception":
            c.corr_break("the check's correspondence worker raised a Python exception (see stderr)")
            return
        try:
            bad = json.load(open(prog))
        except Exception:
            bad = None
        if bad is None or bad in skip:
            break
        c.violation("crash:correspondence:" + bad.get("integrator", "?"), "building / copying / saving / freeing a reachable simulation crashes the process, cfg %s" % cfg_key(bad), {"cfg": bad})
        skip.append(bad)
    try:
        os.remove(prog)
    except OSError:
        pass
    if not got:
        c.corr_break("the correspondence could not be gathered (child process died repeatedly)")
        return
    lines = got["lines"]
    meta = [(t_, c_, (r_ if not isinstance(r_, list) else (r_[0], (None if r_[1] is None else parse_fields_line(r_[1].split())), r_[2]))) for t_, c_, r_ in got["meta"]]
    out = run_driver(exe, lines)
    if len(out) != len(lines):
        c.corr_break("driver returned %d lines for %d ops" % (len(out), len(lines)))
        return
    hist = {}
    nrep = {"pairs": 0, "entries": 0, "vanished": 0, "empty": 0}
    for o, (tag, cfg, real) in zip(out, meta):
        if tag.startswith("DIFF:"):
            rc0, rep, real_cmp = real
            tag0 = tag.split(":")[1]
            c.count(("DIFF", tag0, cfg_key(cfg)))
            c.count(("CMP", tag0, cfg_key(cfg)))
            nrep["pairs"] += 1
            if rep is not None:
                nrep["reports"] = nrep.get("reports", 0) + 1
                nrep["entries"] += len(rep); nrep["vanished"] += sum(1 for t, p in rep if not p); nrep["empty"] += (not rep)
            toks = o.split()
            k = "%s->%d" % (tag0, real_cmp)
            hist[k] = hist.get(k, 0) + 1
            if toks[:1] != [str(real_cmp)] or rc0 != real_cmp:
                c.corr_break("model compare = %s but reb_binary_diff = %d (output_option 0: %d) on a pair of real streams (%s)" % (toks[:1], real_cmp, rc0, tag[5:]), {"cfg": cfg, "pair": tag[5:]})
            got = parse_fields_line(toks[2:]) if toks[1:2] == ["F"] else None
            if rep is not None and got != rep:
                gd, rd = dict(got or []), dict(rep)
                ids_ = sorted(t for t in set(gd) | set(rd) if gd.get(t) != rd.get(t))
                c.corr_break("model diffReport differs from the difference stream reb_binary_diff writes (%s): ids %s%s" % (
                    tag[5:], ids_[:6], "" if ids_ else " (order)"), {"cfg": cfg, "pair": tag, "model_ids": [t for t, _ in (got or [])][:20], "real_ids": [t for t, _ in rep][:20]})
            continue
        c.count(("CMP", tag.split(":")[0], cfg_key(cfg)))
        k = "%s->%d" % (tag.split(":")[0], real)
        hist[k] = hist.get(k, 0) + 1
        if o.strip() != str(real):
            c.corr_break("model compare = %s but reb_binary_diff = %d on a pair of real streams (%s)" % (o.strip(), real, tag), {"cfg": cfg, "pair": tag})
    c.cov["compare_pairs"] = nrep["pairs"]
    c.cov["report_pairs"] = nrep
    if nrep["pairs"] == 0 or nrep["vanished"] == 0 or nrep["empty"] == 0:
        c.corr_break("the report tie did not see all kinds of report (%s)" % nrep)
    c.cov["compare_pairs_histogram"] = hist


def run(c):
    d = build()
    rb = use_scratch_rebound(d)
    info, ok = prove_with_gen(c, d, ["RV.Props.C17"])
    exe = info["drv"]
    R = Real(rb, info)
    add_raw_view(R)
    S = Search17(c, rb, info, R)
    c.cov["rule"] = ("the C05 configuration lattice (integrators x options x particle kinds x modules x save after 0,1,7 steps); per configuration and path "
                     "(copy, pickle, buffer, file round robin): copy leaves the source untouched, copy == source (reb_simulation_diff, Python ==, all persisted bytes), "
                     "advance/edit/free of one never changes the other, both evolve identically for 9 steps and still compare equal; one bit flip per scalar struct "
                     "member and per member / pointer / padding gap of an element of every persisted array must flip == exactly when the member is persisted and not "
                     "wall-clock; NaN and signed-zero particles; model compare vs reb_binary_diff on pairs of real streams (copy, perturbed, different simulation, stepped); "
                     "distinct_nontrivial = distinct (configuration, path) / perturbed member / compared pair")
    c.cov["trusted_base"] = ["Lean 4.33 kernel", "translator rv/extract_c05.py (binarydiff.c compare spec + walltime prefix by regex; layouts from the compiler)",
                             "correspondence drv_c05 CMP vs compiled binarydiff.c on real stream pairs (differential)", "ctypes, raw struct memory access by compiler offsets"]
    c.assumptions += ["the position walk of reb_binary_diff over the byte streams equals id lookup (unique ids) - byte level is C06's model; tied here only by the CMP correspondence",
                      "independence of a copy is by construction in the model (no shared storage); on the real code it is established by the differential runs only",
                      "c17_compare_self_partial needs the no-NaN hypothesis (C17-N1); c17_copy_equal_partial needs the no-variational-configuration hypothesis (F5)"]
    cfgs = lattice(c.thorough)
    c.cov["lattice_size"] = len(cfgs)
    sub = [cf for i, cf in enumerate(cfgs) if c.thorough or i % 10 == (c.seed % 10)]
    correspondence(c, exe, rb, info, R, sub if not c.thorough else cfgs[::2], c.rng)
    c.log("correspondence done: %s pairs" % c.cov.get("compare_pairs"))
    paths = ["copy", "pickle", "buffer", "file"]
    cases = [(cfg, paths[(i + c.seed) % 4] if i % 2 else "copy", 9) for i, cfg in enumerate(cfgs)]
    if c.thorough:
        cases += [(cfg, pth, 23) for cfg in cfgs for pth in paths]
    for i in range(6000 if c.thorough else 600):      # randomised save points / lengths / paths (seeded)
        cfg = dict(cfgs[c.rng.next() % len(cfgs)])
        cfg["save_after"] = c.rng.randint(0, 12)
        cases.append((cfg, paths[c.rng.next() % 4], c.rng.randint(1, 25)))
    # pairwise covering array of the explicit factors (copy / compare version: in-memory paths, no twin kind)
    f17 = OrderedDict((f, list(v)) for f, v in FACTORS.items() if f not in ("kind", "gap"))
    f17["path"] = ["copy", "pickle", "buffer", "file"]

    def to_case17(fc):
        cfg, path, k, kind = factor_cfg(dict(fc, kind="one", gap="na"))
        return cfg, path, k, "copy"
    pw, pw_arr, pw_tot, pw_exc = pairwise_cases(c, f17, "c17", to_case17)
    cases = [(x[0], x[1], x[2]) for x in pw] + dimension_first(cases, kind_of=lambda cs: "copy")
    run_cases17(c, S, cases)
    finish_pairs(c, S, pw_arr, pw_tot, pw_exc, lambda more: run_cases17(c, S, [(x[0], x[1], x[2]) for x in more]), f17, to_case17)
    c.log("lattice done")
    perturbation_sweep(c, S, info, R, rb)
    element_sweep(c, S, info, R, rb)
    nan_cases(c, S, info, R, rb)
    special_value_sweep(c, S, info, R, rb)
    extra_field_cases(c, S, info, R, rb)
    C05.entry_points(c, S, info, R, rb)       # every public save / restore / copy / compare entry point, once per run
    ncb = callback_side_cases(c, S, info, R, rb)
    extra = {"callbacks:set_on_one_side_only": ncb,
             "values:special_doubles_every_member": c.cov.get("special_value_sweep", {}).get("cases", 0),
             "values:bit_in_every_byte_of_every_member": c.cov.get("perturbation_sweep", {}).get("byte_perturbations", 0),
             "values:element_members_pointers_padding": c.cov.get("element_sweep_cases", 0),
             "values:nan_and_signed_zero_particles": 2,
             "fields:present_on_one_side_only": 4,
             "tie:compare_pairs": c.cov.get("compare_pairs", 0)}
    finish_dimensions(c, S, extra, DIMS_COMMON + ["kind:copy", "scale:counters_ge_2^32"] + list(extra))
    c.cov["histogram"] = S.hist
    c.sample({"cfg": cfgs[5], "path": "copy"})
    c.sample({"cfg": cfgs[len(cfgs) // 3], "path": "pickle"})
    shutil.rmtree(S.tmp, ignore_errors=True)


if __name__ == "__main__":
    main("C17", run)
