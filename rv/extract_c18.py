"""C18 translator: C structure layouts / enums (from the preprocessed header, measured by the
compiler) and ctypes layouts / option dictionaries (from the scratch Python package)
-> lean/RV/Gen/C18LayoutC.lean, C18LayoutPy.lean, C18Options.lean, C18Ref.lean.

Nothing here decides whether the mirror is right: it only *transcribes* both sides into plain
Lean data.  The comparison is RV/Model/Layout.lean, decided by the kernel in RV/Props/C18.lean.

C side    gcc -E -P (repo flags) src/rebound.h -> small declaration parser (struct / enum
          definitions, member declarators) -> generated probe program printing
          offsetof / sizeof / _Generic scalar class / signedness / enumerator values,
          compiled with the same -D flags.  Optional independent cross-check: DWARF via gdb.
Py side   subprocess importing the scratch package: every ctypes.Structure subclass defined in
          rebound.*, its _fields_ (offset, size, kind from the ctypes type), ctypes.sizeof;
          every UPPERCASE name->int dictionary; the (setter, literal, clibrebound symbol)
          triples of the function-pointer options (AST of the property setters).
"""
import ast, json, os, re, subprocess, sys, textwrap

HERE = os.path.dirname(os.path.abspath(__file__))
sys.path.insert(0, HERE)
from common import CFLAGS, SUFFIX, Infra, ROOT, LEAN, write_if_changed

HEADERS = ["rebound.h"]
DEFS = [f for f in CFLAGS if f.startswith("-D")]
QUALS = {"const", "volatile", "restrict", "__restrict__", "__restrict", "__extension__", "register",
         "_Atomic", "__volatile__", "__const"}


class ParseError(Exception):
    pass


# =============================================================================== C side
TOK = re.compile(r"""\s+|([A-Za-z_]\w*)|(0[xX][0-9a-fA-F]+[uUlL]*|\d+\.?\d*(?:[eE][-+]?\d+)?[uUlLfF]*)|("(?:\\.|[^"\\])*")|('(?:\\.|[^'\\])*')|(->|<<|>>|<=|>=|==|!=|&&|\|\||\.\.\.|[-+*/%&|^~!<>=?:;,.(){}\[\]#])""")


def tokenize(text):
    out, pos, n = [], 0, len(text)
    while pos < n:
        m = TOK.match(text, pos)
        if not m:
            raise ParseError("cannot tokenize at %r" % text[pos:pos + 40])
        pos = m.end()
        t = m.group(0)
        if not t.isspace():
            out.append(t)
    return out


def preprocess(src_dir, header):
    p = subprocess.run(["gcc", "-E", "-P", "-std=c99"] + DEFS + [header], cwd=src_dir,
                       capture_output=True, text=True)
    if p.returncode != 0:
        raise Infra("gcc -E %s failed: %s" % (header, p.stderr[:1500]))
    return p.stdout


PROTO_SKIP = {"glad.h", "display.h", "communication_mpi.h"}


def preprocess_with(src_dir, header):
    """a secondary header, preprocessed after rebound.h (they rely on it)"""
    p = subprocess.run(["gcc", "-E", "-P", "-std=c99"] + DEFS + ["-include", "rebound.h", header], cwd=src_dir,
                       capture_output=True, text=True)
    if p.returncode != 0:
        raise Infra("gcc -E %s failed: %s" % (header, p.stderr[:500]))
    return p.stdout


def _match(toks, i, open_, close):
    """index just after the bracket group starting at toks[i] == open_"""
    d = 0
    while i < len(toks):
        if toks[i] == open_:
            d += 1
        elif toks[i] == close:
            d -= 1
            if d == 0:
                return i + 1
        i += 1
    raise ParseError("unbalanced %s" % open_)


def _split_top(toks, sep=","):
    out, cur, d = [], [], 0
    for t in toks:
        if t in "([{":
            d += 1
        elif t in ")]}":
            d -= 1
        if t == sep and d == 0:
            out.append(cur)
            cur = []
        else:
            cur.append(t)
    out.append(cur)
    return out


def _strip_attr(toks):
    out, i = [], 0
    while i < len(toks):
        if toks[i] in ("__attribute__", "__attribute", "_Alignas", "__declspec") and i + 1 < len(toks) and toks[i + 1] == "(":
            i = _match(toks, i + 1, "(", ")")
        else:
            out.append(toks[i])
            i += 1
    return out


class CParser:
    """struct / enum definitions of one preprocessed translation unit (top level, tag reb_* or
    any tag when `all_tags`), with members as declarators.  Anything it does not understand
    inside a reb_* definition raises ParseError (never silently skipped)."""

    def __init__(self, toks, want=lambda tag: tag.startswith("reb_") or tag.startswith("REB_")):
        self.t = toks
        self.want = want
        self.structs = {}     # name -> [member dict]   (insertion ordered)
        self.enums = {}       # name -> [enumerator names]
        self.functions = []   # declared function names (top level, reb_*)
        self.protos = {}      # name -> (return type tokens, [parameter token lists])

    def run(self):
        t, i, n = self.t, 0, len(self.t)
        while i < n:
            tk = t[i]
            if tk in ("struct", "union", "enum") and i + 2 < n and re.match(r"[A-Za-z_]\w*$", t[i + 1]) and t[i + 2] == "{":
                end = _match(t, i + 2, "{", "}")
                if self.want(t[i + 1]):
                    if tk == "enum":
                        self.enums[t[i + 1]] = self.parse_enum(t[i + 3:end - 1])
                    elif tk == "struct":
                        self.structs.setdefault(t[i + 1], None)
                        self.structs[t[i + 1]] = self.parse_struct(t[i + 1], t[i + 3:end - 1])
                    else:
                        raise ParseError("union %s not supported" % t[i + 1])
                i = end
            elif tk == "{":
                i = _match(t, i, "{", "}")
            elif tk == "(":
                # function declaration:  IDENT ( ... ) ;   at top level
                if i > 0 and re.match(r"reb_\w+$", t[i - 1]):
                    j = _match(t, i, "(", ")")
                    if j < n and t[j] in (";", "{", "__attribute__"):
                        self.functions.append(t[i - 1])
                        b = i - 2
                        while b >= 0 and t[b] not in (";", "}", "{"):
                            b -= 1
                        self.protos.setdefault(t[i - 1], (t[b + 1:i - 1], _split_top(t[i + 1:j - 1])))
                i = _match(t, i, "(", ")")
            else:
                i += 1
        return self

    def parse_enum(self, body):
        names = []
        for ch in _split_top(body):
            if not ch:
                continue
            if not re.match(r"[A-Za-z_]\w*$", ch[0]) or (len(ch) > 1 and ch[1] != "="):
                raise ParseError("enumerator %r" % " ".join(ch))
            names.append(ch[0])
        return names

    def parse_struct(self, sname, body):
        members, i, n = [], 0, len(body)
        while i < n:
            j, d = i, 0
            while j < n and not (body[j] == ";" and d == 0):
                if body[j] in "([{":
                    d += 1
                elif body[j] in ")]}":
                    d -= 1
                j += 1
            decl = body[i:j]
            i = j + 1
            if decl:
                members += self.parse_member(sname, decl)
        return members

    def parse_member(self, sname, decl):
        decl = [x for x in _strip_attr(decl)]
        k = 0
        while k < len(decl) and decl[k] in QUALS:
            k += 1
        base = None
        if decl[k] in ("struct", "union", "enum"):
            kw = decl[k]
            if decl[k + 1] == "{" or (k + 2 < len(decl) and decl[k + 2] == "{"):
                tag = None if decl[k + 1] == "{" else decl[k + 1]
                b = k + 1 if tag is None else k + 2
                e = _match(decl, b, "{", "}")
                inner = decl[b + 1:e - 1]
                rest = decl[e:]
                base = ("inline", kw, tag, inner)
            else:
                base = (kw, decl[k + 1])
                rest = decl[k + 2:]
            if kw == "union":
                raise ParseError("union member in %s" % sname)
            chunks = _split_top(rest)
            first_specs = []
        else:
            chunks = _split_top(decl[k:])
            first_specs = None
        out = []
        for ci, ch in enumerate(chunks):
            if ":" in ch:
                raise ParseError("bit-field in %s: %s" % (sname, " ".join(ch)))
            m = {"fptr": False, "ptr": 0, "dims": 0, "params": None}
            if "(" in ch:
                p = ch.index("(")
                specs = ch[:p]
                q = _match(ch, p, "(", ")")
                inside = [x for x in ch[p + 1:q - 1] if x not in QUALS]
                if len(inside) != 2 or inside[0] != "*" or q >= len(ch) or ch[q] != "(":
                    raise ParseError("declarator in %s: %s" % (sname, " ".join(ch)))
                r = _match(ch, q, "(", ")")
                if r != len(ch):
                    raise ParseError("declarator tail in %s: %s" % (sname, " ".join(ch)))
                params = _split_top(ch[q + 1:r - 1])
                if params == [["void"]] or params == [[]]:
                    params = []
                m.update(fptr=True, name=inside[1], params=len(params), param_toks=params, ret_toks=list(specs))
                tail = []
            else:
                body = list(ch)
                while body and body[-1] == "]":
                    o = len(body) - 1
                    d = 0
                    while o >= 0:
                        if body[o] == "]":
                            d += 1
                        elif body[o] == "[":
                            d -= 1
                            if d == 0:
                                break
                        o -= 1
                    body = body[:o]
                    m["dims"] += 1
                if not body or not re.match(r"[A-Za-z_]\w*$", body[-1]):
                    raise ParseError("declarator in %s: %s" % (sname, " ".join(ch)))
                m["name"] = body[-1]
                specs = body[:-1]
            if m["dims"] > 1:
                raise ParseError("multi-dimensional array %s.%s" % (sname, m["name"]))
            stars = specs.count("*")
            specs = [x for x in specs if x != "*" and x not in QUALS]
            if ci == 0 and first_specs is None:
                first_specs = specs
                if not specs:
                    raise ParseError("no type in %s: %s" % (sname, " ".join(ch)))
            elif specs and ci > 0:
                raise ParseError("unexpected specifiers in %s: %s" % (sname, " ".join(ch)))
            m["ptr"] = stars
            if base is not None:
                if base[0] == "inline":
                    _, kw, tag, inner = base
                    iname = tag or "%s.%s" % (sname, m["name"])
                    if kw == "enum":
                        if iname not in self.enums:
                            self.enums[iname] = self.parse_enum(inner)
                        m["base"] = ("enum", iname)
                    else:
                        if iname not in self.structs:
                            self.structs[iname] = self.parse_struct(iname, inner)
                        m["base"] = ("struct", iname)
                        m["anon_path"] = True
                else:
                    m["base"] = base
            else:
                m["base"] = ("scalar", " ".join(first_specs))
            out.append(m)
        return out


GENERIC = ("_Generic((%s), char:\"chr\", signed char:\"i\", unsigned char:\"u\", short:\"i\", unsigned short:\"u\", "
           "int:\"i\", unsigned int:\"u\", long:\"i\", unsigned long:\"u\", long long:\"i\", unsigned long long:\"u\", "
           "float:\"f32\", double:\"f64\", default:\"other\")")


SIGNED = "_Generic((%s), char:((char)-1<0), signed char:1, short:1, int:1, long:1, long long:1, default:0)"


def gen_probe(structs, enums, paths):
    """C program measuring every member.  paths: struct name -> (root struct, access prefix)."""
    L = ["#include <stdio.h>", "#include <stddef.h>"] + ['#include "%s"' % h for h in HEADERS]
    L.append("int main(void){")
    for s, mem in structs.items():
        root, pre = paths[s]
        obj = "((struct %s*)0)->%s" % (root, pre)
        base_off = ("offsetof(struct %s,%s)" % (root, pre[:-1])) if pre else "0"
        if pre:
            L.append('printf("S\\t%s\\t%%zu\\t%%zu\\n", sizeof(%s), (size_t)_Alignof(__typeof__(%s)));' % (s, obj[:-1], obj[:-1]))
        else:
            L.append('printf("S\\t%s\\t%%zu\\t%%zu\\n", sizeof(struct %s), (size_t)_Alignof(struct %s));' % (s, s, s))
        for m in mem:
            e = obj + m["name"]
            el = e + ("[0]" if m["dims"] else "")
            probe = '"-"'
            sign = "0"
            if not m["fptr"]:
                if m["ptr"] == 0 and m["base"][0] in ("scalar", "enum"):
                    probe = GENERIC % el
                    sign = SIGNED % el
                elif m["ptr"] > 0 and m["base"][0] == "scalar" and m["base"][1] != "void":
                    tgt = "*" * m["ptr"] + "(" + el + ")"
                    probe = GENERIC % tgt
                    sign = "(sizeof(%s)*2 + %s)" % (tgt, SIGNED % tgt)
            elsz = "sizeof(%s)" % el
            cnt = "(sizeof(%s)/sizeof(%s))" % (e, el) if m["dims"] else "0"
            L.append('printf("M\\t%s\\t%s\\t%%zu\\t%%zu\\t%%zu\\t%%zu\\t%%s\\t%%d\\n", offsetof(struct %s,%s%s)-%s, sizeof(%s), %s, (size_t)%s, %s, (int)%s);'
                     % (s, m["name"], root, pre, m["name"], base_off, e, elsz, cnt, probe, sign))
    for en, names in enums.items():
        for nm in names:
            L.append('printf("E\\t%s\\t%s\\t%%lld\\n", (long long)%s);' % (en, nm, nm))
    L.append("return 0;}")
    return "\n".join(L) + "\n"


TYPEKW = {"int", "char", "double", "float", "long", "short", "unsigned", "signed", "void", "_Bool"}
STORAGE = {"extern", "static", "inline", "__inline", "__inline__", "DLLEXPORT"}


def parse_type(toks, param=True):
    """a parameter / return type as (kindspec) where kindspec is resolved later by type_kind:
    {"base": ("struct"|"enum"|"scalar", text) , "stars": n} | {"fptr": (ret, nparams)} | {"variadic": True}"""
    toks = [x for x in _strip_attr(list(toks)) if x not in QUALS and x not in STORAGE]
    if toks == ["..."]:
        return {"variadic": True}
    if "(" in toks:
        p = toks.index("(")
        q = _match(toks, p, "(", ")")
        inside = toks[p + 1:q - 1]
        if inside and inside[0] == "*" and q < len(toks) and toks[q] == "[":
            # pointer to array  T (*x)[n]  : modelled as pointer to T
            return parse_type(toks[:p] + ["*"], param=False)
        if not inside or inside[0] != "*" or q >= len(toks) or toks[q] != "(":
            raise ParseError("parameter declarator: " + " ".join(toks))
        r = _match(toks, q, "(", ")")
        ps = _split_top(toks[q + 1:r - 1])
        if ps == [["void"]] or ps == [[]]:
            ps = []
        return {"fptr": (parse_type(toks[:p], param=False), [parse_type(x) for x in ps])}
    stars = 0
    while toks and toks[-1] == "]":
        o = len(toks) - 1
        while toks[o] != "[":
            o -= 1
        toks = toks[:o]
        stars += 1
    if param and len(toks) >= 2 and re.match(r"[A-Za-z_]\w*$", toks[-1]) and toks[-1] not in TYPEKW \
            and toks[-2] not in ("struct", "enum", "union"):
        toks = toks[:-1]
    stars += toks.count("*")
    specs = [x for x in toks if x != "*"]
    if not specs:
        raise ParseError("empty type")
    if specs[0] in ("struct", "union"):
        return {"base": ("struct", specs[1]), "stars": stars}
    if specs[0] == "enum":
        return {"base": ("enum", specs[1]), "stars": stars}
    return {"base": ("scalar", " ".join(specs)), "stars": stars}


def collect_scalar_texts(ty, acc):
    if "fptr" in ty:
        collect_scalar_texts(ty["fptr"][0], acc)
        for x in ty["fptr"][1]:
            collect_scalar_texts(x, acc)
    elif "base" in ty and ty["base"][0] in ("scalar", "enum") and ty["base"][1] != "void":
        acc.add(("enum " if ty["base"][0] == "enum" else "") + ty["base"][1])


def type_probe(src, workdir, texts, extra_headers=()):
    texts = sorted(texts)
    L = ["#include <stdio.h>", "#include <stddef.h>"] + ['#include "%s"' % h for h in list(HEADERS) + list(extra_headers)] + ["int main(void){"]
    for i, t in enumerate(texts):
        L.append("{ %s v; printf(\"%d\\t%%zu\\t%%s\\t%%d\\n\", sizeof(v), %s, (int)%s); }" % (t, i, GENERIC % "v", SIGNED % "v"))
    L.append("return 0;}")
    cfile = os.path.join(workdir, "c18_types.c")
    with open(cfile, "w") as f:
        f.write("\n".join(L) + "\n")
    exe = os.path.join(workdir, "c18_types")
    p = subprocess.run(["gcc", "-std=gnu11", "-w", "-O0"] + DEFS + ["-I", src, cfile, "-o", exe], capture_output=True, text=True)
    if p.returncode != 0:
        raise Infra("C18 type probe does not compile: " + p.stderr[:2000])
    out = {}
    for line in subprocess.run([exe], capture_output=True, text=True).stdout.splitlines():
        i, size, g, sg = line.split("\t")
        out[texts[int(i)]] = (int(size), g, int(sg))
    return out


def type_kind(ty, tp):
    if ty.get("variadic"):
        return ["opaque", "..."]
    if "fptr" in ty:
        return ["fptr", type_kind(ty["fptr"][0], tp), len(ty["fptr"][1])]
    b, stars = ty["base"], ty["stars"]
    if b[0] == "struct":
        k = ["struct", b[1]]
    elif b == ("scalar", "void"):
        k = ["void"]
    else:
        size, g, sg = tp[("enum " if b[0] == "enum" else "") + b[1]]
        if b[0] == "enum":
            k = ["enm", b[1], bool(sg), size]
        elif g in ("i", "u"):
            k = ["int", bool(sg), size]
        elif g in ("f64", "f32", "chr"):
            k = [g]
        else:
            k = ["opaque", b[1]]
    for _ in range(stars):
        k = ["ptr", k]
    return k


def c_side(d, workdir, extra_tags=()):
    """-> dict(structs={name:{size,align,members:[{name,off,size,kind}]}}, enums={name:[(n,v)]}, functions=[...])"""
    src = os.path.join(d, "src")
    structs, enums, functions, protos = {}, {}, [], {}
    for h in HEADERS:
        p = CParser(tokenize(preprocess(src, h)),
                    want=lambda tag: tag.startswith("reb_") or tag.startswith("REB_") or tag in extra_tags).run()
        for k, v in p.structs.items():
            if v is not None:
                structs[k] = v
        enums.update(p.enums)
        functions += p.functions
        for k, v in p.protos.items():
            protos.setdefault(k, v)
    # exported functions declared in the other headers of src/ (Python also calls some of those)
    extra_headers = []
    for h in sorted(os.listdir(src)):
        if h.endswith(".h") and h not in HEADERS and h not in PROTO_SKIP:
            try:
                p2 = CParser(tokenize(preprocess_with(src, h)), want=lambda tag: False).run()
            except (Infra, ParseError):
                continue
            new = {k: v for k, v in p2.protos.items() if k not in protos}
            if new:
                extra_headers.append(h)
                protos.update(new)
    # access paths for anonymous inline structs
    paths = {s: (s, "") for s in structs}
    changed = True
    while changed:
        changed = False
        for s, mem in structs.items():
            for m in mem:
                if m.get("anon_path") and m["ptr"] == 0 and not m["dims"]:
                    inner = m["base"][1]
                    want = (paths[s][0], paths[s][1] + m["name"] + ".")
                    if paths.get(inner) != want and "." in inner:
                        paths[inner] = want
                        changed = True
    cfile = os.path.join(workdir, "c18_probe.c")
    with open(cfile, "w") as f:
        f.write(gen_probe(structs, enums, paths))
    exe = os.path.join(workdir, "c18_probe")
    p = subprocess.run(["gcc", "-std=gnu11", "-w", "-O0"] + DEFS + ["-I", src, cfile, "-o", exe],
                       capture_output=True, text=True)
    if p.returncode != 0:
        raise Infra("C18 probe program does not compile: " + p.stderr[:3000])
    q = subprocess.run([exe], capture_output=True, text=True)
    if q.returncode != 0:
        raise Infra("C18 probe program failed rc=%d" % q.returncode)
    meas, sizes, evals = {}, {}, {}
    for line in q.stdout.splitlines():
        f = line.split("\t")
        if f[0] == "S":
            sizes[f[1]] = (int(f[2]), int(f[3]))
        elif f[0] == "M":
            meas[(f[1], f[2])] = dict(off=int(f[3]), size=int(f[4]), elsize=int(f[5]), count=int(f[6]), g=f[7], sg=int(f[8]))
        elif f[0] == "E":
            evals.setdefault(f[1], []).append((f[2], int(f[3])))

    def scalar_kind(g, signed, size, base):
        if g == "i":
            return ["int", True, size]
        if g == "u":
            return ["int", False, size]
        if g in ("f64", "f32", "chr"):
            return [g]
        return ["opaque", base]

    out = {}
    for s, mem in structs.items():
        rows = []
        for m in mem:
            z = meas[(s, m["name"])]
            if m["fptr"]:
                ret = m["base"]
                rk = ["void"] if ret == ("scalar", "void") and m["ptr"] == 0 else \
                     (["int", True, 4] if ret == ("scalar", "int") and m["ptr"] == 0 else
                      (["f64"] if ret == ("scalar", "double") and m["ptr"] == 0 else ["opaque", " ".join(map(str, ret)) + "*" * m["ptr"]]))
                k = ["fptr", rk, m["params"]]
            else:
                b = m["base"]
                if m["ptr"] > 0:
                    if b[0] == "struct":
                        k = ["struct", b[1]]
                    elif b[0] == "enum":
                        k = ["opaque", "enum " + b[1]]
                    elif b[1] == "void":
                        k = ["void"]
                    else:
                        k = scalar_kind(z["g"], None, z["sg"] // 2, b[1])
                        if k[0] == "int":
                            k[1] = bool(z["sg"] % 2)
                    for _ in range(m["ptr"]):
                        k = ["ptr", k]
                elif b[0] == "struct":
                    k = ["struct", b[1]]
                elif b[0] == "enum":
                    k = ["enm", b[1], bool(z["sg"]), z["elsize"]]
                else:
                    k = scalar_kind(z["g"], None, z["elsize"], b[1])
                    if k[0] == "int":
                        k[1] = bool(z["sg"])
                if m["dims"]:
                    k = ["arr", k, z["count"]]
            rows.append(dict(name=m["name"], off=z["off"], size=z["size"], kind=k))
        out[s] = dict(size=sizes[s][0], align=sizes[s][1], members=rows)
    # ---- full signatures: exported functions and callback members
    ptypes, cbtypes, texts = {}, [], set()
    for fn, (rt, params) in protos.items():
        if params == [["void"]] or params == [[]]:
            params = []
        try:
            ptypes[fn] = (parse_type(rt, param=False), [parse_type(x) for x in params])
        except (ParseError, IndexError, ValueError) as e:
            raise ParseError("prototype of %s: %s" % (fn, e))
        collect_scalar_texts(ptypes[fn][0], texts)
        for x in ptypes[fn][1]:
            collect_scalar_texts(x, texts)
    for sname, mem in structs.items():
        for m in mem:
            if m["fptr"]:
                rt = parse_type(m["ret_toks"], param=False)
                ps = [parse_type(x) for x in m["param_toks"]]
                cbtypes.append((sname, m["name"], rt, ps))
                collect_scalar_texts(rt, texts)
                for x in ps:
                    collect_scalar_texts(x, texts)
    tp = type_probe(src, workdir, texts, extra_headers)
    cprotos = {fn: dict(ret=type_kind(r, tp), args=[type_kind(x, tp) for x in ps]) for fn, (r, ps) in sorted(ptypes.items())}
    ccallbacks = [dict(struct=sn, member=mn, ret=type_kind(r, tp), args=[type_kind(x, tp) for x in ps]) for sn, mn, r, ps in cbtypes]
    return dict(structs=out, enums=evals, functions=sorted(set(functions)), protos=cprotos, callbacks=ccallbacks)


def dwarf_offsets(d, workdir, names):
    """independent measurement: DWARF of a TU compiled with the repo flags, read by gdb `ptype /o`.
    -> {struct: (size, [(member, off, size)])} for top-level members (None if gdb unavailable)."""
    src = os.path.join(d, "src")
    cfile = os.path.join(workdir, "c18_dwarf.c")
    with open(cfile, "w") as f:
        f.write("".join('#include "%s"\n' % h for h in HEADERS))
        for i, s in enumerate(names):
            f.write("struct %s c18_v%d;\n" % (s, i))
    obj = os.path.join(workdir, "c18_dwarf.o")
    p = subprocess.run(["gcc", "-g", "-O0", "-std=c99", "-w", "-fno-eliminate-unused-debug-types"] + DEFS + ["-I", src, "-c", cfile, "-o", obj],
                       capture_output=True, text=True)
    if p.returncode != 0:
        return None
    cmd = ["gdb", "-batch", "-nx", obj]
    for s in names:
        cmd += ["-ex", "echo @@ %s\\n" % s, "-ex", "ptype /o struct %s" % s]
    try:
        q = subprocess.run(cmd, capture_output=True, text=True, timeout=120)
    except Exception:
        return None
    if q.returncode != 0:
        return None
    res, cur, depth = {}, None, 0
    for line in q.stdout.splitlines():
        if line.startswith("@@ "):
            cur = line[3:].strip()
            res[cur] = [None, []]
            depth = 0
            continue
        if cur is None:
            continue
        ms = re.search(r"total size \(bytes\):\s*(\d+)", line)
        if ms:
            if depth == 1:
                res[cur][0] = int(ms.group(1))
            continue
        m = re.match(r"/\*\s*(\d+)\s*(?::\s*\d+\s*)?\|\s*(\d+)\s*\*/(.*)$", line)
        code = m.group(3) if m else re.sub(r"/\*.*?\*/", "", line)
        code = re.sub(r"\{[^{}]*\}", "", code)          # one-line enum { ... }
        opens, closes = code.count("{"), code.count("}")
        if m and depth == 1 and opens == 0:
            nm = re.search(r"\(\*\s*([A-Za-z_]\w*)\s*\)\s*\(|([A-Za-z_]\w*)\s*(?:\[[^\]]*\]\s*)*;\s*$", code)
            name = (nm.group(1) or nm.group(2)) if nm else "?"
            res[cur][1].append((name, int(m.group(1)), int(m.group(2))))
        elif m and depth == 1 and opens > 0:
            res[cur][1].append(("?pending", int(m.group(1)), int(m.group(2))))
        elif depth == 2 and closes > 0 and depth + opens - closes == 1 and res[cur][1] and res[cur][1][-1][0] == "?pending":
            nm = re.search(r"\}\s*([A-Za-z_]\w*)\s*(?:\[[^\]]*\]\s*)*;", code)
            o, z = res[cur][1][-1][1:]
            res[cur][1][-1] = (nm.group(1) if nm else "?", o, z)
        depth += opens - closes
    return res


# =============================================================================== Python side
PY_PROBE = r'''
import sys, json, ctypes, inspect, ast, textwrap, pkgutil, importlib, importlib.util, warnings
warnings.filterwarnings("ignore")
sys.path.insert(0, sys.argv[1])
out = {"import_error": None}
try:
    import rebound
except Exception as e:
    out["import_error"] = "%s: %s" % (type(e).__name__, e)
    print(json.dumps(out)); sys.exit(0)
import os
assert os.path.abspath(rebound.__file__).startswith(os.path.abspath(sys.argv[1]))
mods = [rebound]
for mi in pkgutil.walk_packages(rebound.__path__, "rebound."):
    if ".tests" in mi.name:
        continue
    try:
        mods.append(importlib.import_module(mi.name))
    except Exception as e:
        out.setdefault("module_import_errors", {})[mi.name] = "%s: %s" % (type(e).__name__, e)

SIMPLE = type(ctypes.c_int).__mro__[0]
def kind(t):
    if isinstance(t, type) and issubclass(t, ctypes.Structure):
        return ["struct", t.__name__]
    if isinstance(t, type) and issubclass(t, ctypes.Array):
        return ["arr", kind(t._type_), t._length_]
    if isinstance(t, type) and issubclass(t, ctypes._Pointer):
        return ["ptr", kind(t._type_)]
    if isinstance(t, type) and issubclass(t, ctypes._CFuncPtr):
        r = t._restype_
        rk = ["void"] if r is None else kind(r)
        return ["fptr", rk, len(t._argtypes_ or ())]
    if isinstance(t, type) and issubclass(t, ctypes._SimpleCData):
        c = t._type_
        n = ctypes.sizeof(t)
        if c in "bhilq": return ["int", True, n]
        if c in "BHILQ": return ["int", False, n]
        if c == "d": return ["f64"]
        if c == "f": return ["f32"]
        if c == "c": return ["chr"]
        if c == "P": return ["ptr", ["void"]]
        if c == "z": return ["ptr", ["chr"]]
        return ["opaque", "ctypes:" + c]
    return ["opaque", repr(t)]

classes = {}
seen = set()
def visit(cls):
    if cls in seen: return
    seen.add(cls)
    if not cls.__module__.startswith("rebound"): return
    rows = []
    for f in getattr(cls, "_fields_", []):
        name, t = f[0], f[1]
        if len(f) > 2:
            rows.append(dict(name=name, off=-1, size=-1, kind=["opaque", "bitfield"])); continue
        desc = cls.__dict__.get(name)
        if desc is None or not hasattr(desc, "offset"):
            for b in cls.__mro__:
                if name in b.__dict__ and hasattr(b.__dict__[name], "offset"):
                    desc = b.__dict__[name]; break
        rows.append(dict(name=name, off=desc.offset, size=desc.size, kind=kind(t)))
    shadow = []
    for name, _ in [(f[0], f[1]) for f in getattr(cls, "_fields_", [])]:
        # a property / method of the same name defined in the class body is overwritten by the ctypes descriptor
        try:
            src = inspect.getsource(cls)
            tree = ast.parse(textwrap.dedent(src))
            for node in tree.body[0].body:
                if isinstance(node, ast.FunctionDef) and node.name == name:
                    shadow.append(name)
        except Exception:
            pass
    classes[cls.__name__] = dict(module=cls.__module__, size=ctypes.sizeof(cls), members=rows,
                                 shadowed=sorted(set(shadow)),
                                 pack=getattr(cls, "_pack_", 0), bases=[b.__name__ for b in cls.__mro__[1:] if b.__module__.startswith("rebound")])
for m in mods:
    for nm, obj in vars(m).items():
        if isinstance(obj, type) and issubclass(obj, ctypes.Structure) and obj is not ctypes.Structure:
            visit(obj)
        if isinstance(obj, type) and issubclass(obj, ctypes.Union):
            classes[obj.__name__] = dict(module=obj.__module__, size=ctypes.sizeof(obj), members=[], union=True, shadowed=[], pack=0, bases=[])
out["classes"] = classes

# ---- name -> int dictionaries (module level, UPPERCASE)
dicts = {}
for m in mods:
    for nm, obj in vars(m).items():
        if nm.isupper() and isinstance(obj, dict) and obj and all(isinstance(k, str) and isinstance(v, int) and not isinstance(v, bool) for k, v in obj.items()):
            if getattr(m, "__name__", "").startswith("rebound") and (nm not in dicts or dicts[nm]["module"] > m.__name__):
                # the defining module: the one whose source assigns it
                try:
                    src = inspect.getsource(m)
                except Exception:
                    src = ""
                import re
                if re.search(r"^%s\s*=" % nm, src, flags=re.M):
                    dicts[nm] = dict(module=m.__name__, items=[[k, v] for k, v in obj.items()])
out["dicts"] = dicts

# ---- which property reads / writes which dict and which ctypes field (AST of the property functions)
props = []
fnopts = []
modtrees = {}
for cname, c in list(classes.items()):
    cls = None
    for m in mods:
        if getattr(m, cname, None) is not None and isinstance(getattr(m, cname), type):
            cls = getattr(m, cname); break
    if cls is None: continue
    try:
        tree = ast.parse(textwrap.dedent(inspect.getsource(cls)))
    except Exception:
        continue
    for node in tree.body[0].body:
        if not isinstance(node, ast.FunctionDef): continue
        is_setter = any(isinstance(d, ast.Attribute) and d.attr == "setter" for d in node.decorator_list)
        is_getter = any(isinstance(d, ast.Name) and d.id == "property" for d in node.decorator_list)
        if not (is_setter or is_getter): continue
        names = {n.id for n in ast.walk(node) if isinstance(n, ast.Name)}
        # a property may delegate to module-level helpers (e.g. _eos_type_value): what they use counts as used by the property
        modtree = modtrees.get(cls.__module__)
        if modtree is None:
            try:
                modtree = {f.name: f for f in ast.parse(inspect.getsource(sys.modules[cls.__module__])).body if isinstance(f, ast.FunctionDef)}
            except Exception:
                modtree = {}
            modtrees[cls.__module__] = modtree
        frontier, seenf = set(names), set()
        for _ in range(4):
            nxt = set()
            for fn in frontier:
                if fn in modtree and fn not in seenf:
                    seenf.add(fn)
                    nxt |= {n.id for n in ast.walk(modtree[fn]) if isinstance(n, ast.Name)}
            names |= nxt
            frontier = nxt
        used = sorted(n for n in names if n in dicts)
        # normalisation the setter applies to a string argument: .lower() and .replace(c, "") calls (also inside followed helpers)
        bodies = [node] + [modtree[fn] for fn in seenf]
        lower_ = any(isinstance(n, ast.Call) and isinstance(n.func, ast.Attribute) and n.func.attr == "lower" for b in bodies for n in ast.walk(b))
        strip_ = sorted({n.args[0].value for b in bodies for n in ast.walk(b)
                         if isinstance(n, ast.Call) and isinstance(n.func, ast.Attribute) and n.func.attr == "replace" and len(n.args) == 2
                         and all(isinstance(a, ast.Constant) and isinstance(a.value, str) for a in n.args) and n.args[1].value == "" and len(n.args[0].value) == 1})
        selfattrs = sorted({n.attr for n in ast.walk(node) if isinstance(n, ast.Attribute) and isinstance(n.value, ast.Name) and n.value.id == "self"})
        if used:
            props.append(dict(cls=cname, prop=node.name, role="set" if is_setter else "get", dicts=used, attrs=selfattrs, lower=lower_, strip=strip_))
        if is_setter:
            # if func == "lit": ... clibrebound.<symbol> ...
            for sub in ast.walk(node):
                if isinstance(sub, ast.If) and isinstance(sub.test, ast.Compare) and len(sub.test.comparators) == 1 \
                   and isinstance(sub.test.comparators[0], ast.Constant) and isinstance(sub.test.comparators[0].value, str):
                    lit = sub.test.comparators[0].value
                    syms = []
                    for st in sub.body:
                        for a in ast.walk(st):
                            if isinstance(a, ast.Attribute) and isinstance(a.value, ast.Name) and a.value.id == "clibrebound":
                                syms.append(a.attr)
                    tgt = sorted({a.attr for st in sub.body for a in ast.walk(st) if isinstance(a, ast.Attribute) and isinstance(a.value, ast.Name) and a.value.id == "self" and isinstance(getattr(a, "ctx", None), ast.Store)})
                    if syms:
                        fnopts.append(dict(cls=cname, prop=node.name, name=lit, symbols=syms, stores=tgt))
            # … or a module-level table  name -> C symbol  looked up with getattr(clibrebound, TABLE[func])
            mod = sys.modules.get(cls.__module__)
            for nm_ in sorted(names):
                tab = getattr(mod, nm_, None)
                if isinstance(tab, dict) and tab and all(isinstance(k, str) and isinstance(v, str) and v.startswith("reb_") for k, v in tab.items()):
                    for k, v in tab.items():
                        fnopts.append(dict(cls=cname, prop=node.name, name=k, symbols=[v], stores=[], table=nm_))
out["props"] = props
out["fnopts"] = fnopts
# ---- callback members: full CFUNCTYPE signatures
callbacks = []
for cname, cv in classes.items():
    cls = None
    for m in mods:
        if isinstance(getattr(m, cname, None), type):
            cls = getattr(m, cname); break
    if cls is None: continue
    for f in getattr(cls, "_fields_", []):
        t = f[1]
        if isinstance(t, type) and issubclass(t, ctypes._CFuncPtr):
            callbacks.append(dict(cls=cname, field=f[0], ret=(["void"] if t._restype_ is None else kind(t._restype_)),
                                  args=[kind(a) for a in (t._argtypes_ or ())]))
out["callbacks"] = callbacks

# ---- foreign calls: every `clibrebound.X.restype/argtypes = ...` and every `clibrebound.X(...)` in the package (AST)
import re as _re
WRAP = {"c_double": ["f64"], "c_float": ["f32"], "c_int": ["int", True, 4], "c_uint": ["int", False, 4], "c_uint32": ["int", False, 4],
        "c_int32": ["int", True, 4], "c_int64": ["int", True, 8], "c_uint64": ["int", False, 8], "c_size_t": ["int", False, 8],
        "c_long": ["int", True, 8], "c_ulong": ["int", False, 8], "c_char_p": ["ptr", ["chr"]], "c_void_p": ["ptr", ["void"]],
        "byref": ["ptr", ["void"]], "pointer": ["ptr", ["void"]], "create_string_buffer": ["ptr", ["chr"]]}
def argkind(a):
    if isinstance(a, ast.Call):
        f = a.func
        nm = f.id if isinstance(f, ast.Name) else (f.attr if isinstance(f, ast.Attribute) else None)
        if nm in WRAP: return WRAP[nm]
    if isinstance(a, ast.Constant):
        if a.value is None: return ["ptr", ["void"]]
        if isinstance(a.value, bool): return ["int", True, 4]
        if isinstance(a.value, int): return ["int", True, 4]
        if isinstance(a.value, (bytes,)): return ["ptr", ["chr"]]
        if isinstance(a.value, float): return ["opaque", "python-float"]
    return ["opaque", "?"]
decls, calls, dynamic = [], [], []
class _SrcOnly:
    """a module that cannot be imported in this environment (missing third-party dependency): its source is still walked"""
    def __init__(self, name, path):
        self.__name__, self._path = name, path
        self.__dict__.update({k: v for k, v in vars(ctypes).items() if not k.startswith("__")})
        self.__dict__.update({k: v for k, v in vars(rebound).items() if not k.startswith("__")})
        self.__dict__["clibrebound"] = rebound.clibrebound
srcmods = list(mods)
for mi in pkgutil.walk_packages(rebound.__path__, "rebound."):
    if ".tests" in mi.name or mi.name in sys.modules:
        continue
    spec = importlib.util.find_spec(mi.name)
    if spec is not None and spec.origin and spec.origin.endswith(".py"):
        srcmods.append(_SrcOnly(mi.name, spec.origin))
out["modules_walked_from_source_only"] = [m.__name__ for m in srcmods if isinstance(m, _SrcOnly)]
for m in srcmods:
    mn = getattr(m, "__name__", "")
    try:
        src = open(m._path).read() if isinstance(m, _SrcOnly) else inspect.getsource(m)
        tree = ast.parse(src)
    except Exception:
        continue
    def is_clib_attr(n):
        return isinstance(n, ast.Attribute) and isinstance(n.value, ast.Name) and n.value.id == "clibrebound"
    def walk(node, scope, parent_is_expr):
        for ch in ast.iter_child_nodes(node):
            sc = scope
            if isinstance(ch, (ast.FunctionDef, ast.AsyncFunctionDef, ast.ClassDef)):
                sc = scope + [ch.name]
            if isinstance(ch, ast.Assign):
                for t in ch.targets:
                    if isinstance(t, ast.Attribute) and isinstance(t.value, ast.Attribute) and is_clib_attr(t.value):
                        kd = None
                        if t.attr in ("restype", "argtypes"):
                            try:
                                val = eval(compile(ast.Expression(ch.value), "<c18>", "eval"), vars(m),
                                           {"cls": getattr(m, scope[0], None)} if scope else {})
                                if t.attr == "restype":
                                    kd = ["void"] if val is None else kind(val)
                                else:
                                    kd = ["arr", ["void"], 0]
                                    kd = [kind(x) for x in val]
                            except Exception as e:
                                kd = ["opaque", "unevaluable:" + ast.unparse(ch.value)[:40]]
                        decls.append(dict(fn=t.value.attr, module=mn, scope=".".join(scope), line=ch.lineno, attr=t.attr, kind=kd,
                                          text=ast.unparse(ch.value)[:60]))
            if isinstance(ch, ast.Call):
                if is_clib_attr(ch.func):
                    calls.append(dict(fn=ch.func.attr, module=mn, scope=".".join(scope), line=ch.lineno,
                                      used=not isinstance(node, ast.Expr), args=[argkind(a) for a in ch.args],
                                      argtext=[ast.unparse(a)[:30] for a in ch.args], starargs=any(isinstance(a, ast.Starred) for a in ch.args)))
                elif isinstance(ch.func, ast.Name) and ch.func.id == "getattr" and ch.args and isinstance(ch.args[0], ast.Name) and ch.args[0].id == "clibrebound":
                    dynamic.append(dict(module=mn, scope=".".join(scope), line=ch.lineno, text=ast.unparse(ch)[:80]))
            walk(ch, sc, isinstance(ch, ast.Expr))
    walk(tree, [], False)
# a call is covered by a restype declaration made at import time (module level of any module) or earlier in the same function
for cl in calls:
    ds = [d for d in decls if d["fn"] == cl["fn"] and d["attr"] == "restype" and
          (d["scope"] == "" or (d["module"] == cl["module"] and d["scope"] == cl["scope"] and d["line"] < cl["line"]))]
    cl["restype"] = ds[-1]["kind"] if ds else None
    elsewhere = [d for d in decls if d["fn"] == cl["fn"] and d["attr"] == "restype"]
    cl["restype_elsewhere"] = bool(elsewhere) and not ds
# ---- BINARY_WARNINGS (major, id, message)
bw = getattr(sys.modules.get("rebound.simulation"), "BINARY_WARNINGS", None)
out["binary_warnings"] = [[bool(a), int(b), str(c)] for a, b, c in bw] if bw is not None else None
# ---- binary field descriptors: Python-visible list vs the raw C array read with the C-side layout
try:
    lay = json.load(open(sys.argv[2]))
    from rebound.binary_field_descriptor import binary_field_descriptor_list
    pl = binary_field_descriptor_list()
    out["py_descriptors"] = [[int(x.type), int(x.dtype), x.name.decode("ascii"), int(x.offset), int(x.offset_N), int(x.element_size)] for x in pl]
    base = ctypes.addressof(ctypes.c_char.in_dll(rebound.clibrebound, "reb_binary_field_descriptor_list"))
    rawl = []
    for i in range(5000):
        q = base + i * lay["size"]
        def rd(k, signed=False):
            o, z = lay[k]
            return int.from_bytes(ctypes.string_at(q + o, z), "little", signed=signed)
        o, z = lay["name"]
        nm = ctypes.string_at(q + o, z).split(b"\0")[0].decode("ascii")
        rawl.append([rd("type"), rd("dtype"), nm, rd("offset"), rd("offset_N"), rd("element_size")])
        if nm == "end":
            break
    out["c_descriptors"] = rawl
except Exception as e:
    out["descriptor_error"] = "%s: %s" % (type(e).__name__, e)
# ---- composite option names: in a property setter, every branch `if value == "lit" [or value == "lit2" …]:` and the
# attribute paths (self.a, self.a.b) the branch assigns, with the assigned literal where it is one
composites = []
def _store_paths(stmts):
    outp = []
    for st in stmts:
        for node in ast.walk(st):
            if isinstance(node, (ast.Assign, ast.AugAssign)):
                tgts = node.targets if isinstance(node, ast.Assign) else [node.target]
                for t in tgts:
                    path, cur = [], t
                    while isinstance(cur, ast.Attribute):
                        path.append(cur.attr); cur = cur.value
                    if isinstance(cur, ast.Name) and cur.id == "self" and path:
                        v = node.value
                        lit = repr(v.value) if isinstance(v, ast.Constant) else "?"
                        outp.append([".".join(reversed(path)), lit])
    return outp
def _literals(test, pname):
    lits = []
    for node in ast.walk(test):
        if isinstance(node, ast.Compare) and len(node.ops) == 1 and isinstance(node.ops[0], ast.Eq):
            l, r = node.left, node.comparators[0]
            for a, b in ((l, r), (r, l)):
                if isinstance(a, ast.Name) and a.id == pname and isinstance(b, ast.Constant) and isinstance(b.value, str):
                    lits.append(b.value)
    return lits
for cname in list(classes):
    cls = None
    for m in mods:
        if isinstance(getattr(m, cname, None), type):
            cls = getattr(m, cname); break
    if cls is None: continue
    try:
        tree = ast.parse(textwrap.dedent(inspect.getsource(cls)))
    except Exception:
        continue
    for node in tree.body[0].body:
        if not isinstance(node, ast.FunctionDef): continue
        if not any(isinstance(d_, ast.Attribute) and d_.attr == "setter" for d_ in node.decorator_list): continue
        if len(node.args.args) < 2: continue
        pname = node.args.args[1].arg
        for sub in ast.walk(node):
            if isinstance(sub, ast.If):
                lits = _literals(sub.test, pname)
                if lits:
                    paths = _store_paths(sub.body)
                    for lit in lits:
                        composites.append(dict(cls=cname, prop=node.name, name=lit, stores=paths))
out["composites"] = composites
# ---- attribute stores inside the methods of ctypes classes: `self.X = …` and `setattr(self, <name>, …)`; a name that is not a
# ctypes field / property is silently accepted by ctypes and lands in the instance __dict__, not in the C structure
attr_stores, setter_props = [], []
def _resolve_names(expr, fnode):
    """possible string values of an expression inside fnode: literals, 'lit' + loopvar over a literal dict/list/tuple"""
    if isinstance(expr, ast.Constant) and isinstance(expr.value, str):
        return [expr.value]
    if isinstance(expr, ast.BinOp) and isinstance(expr.op, ast.Add):
        l, r = _resolve_names(expr.left, fnode), _resolve_names(expr.right, fnode)
        if l is not None and r is not None:
            return [a + b for a in l for b in r]
        return None
    if isinstance(expr, ast.Name):
        vals = None
        for n in ast.walk(fnode):
            if isinstance(n, ast.For):
                tgts = [t.id for t in ast.walk(n.target) if isinstance(t, ast.Name)]
                if expr.id in tgts:
                    it = n.iter
                    if isinstance(it, ast.Call) and isinstance(it.func, ast.Attribute) and it.func.attr in ("items", "keys") and isinstance(it.func.value, ast.Name):
                        for a in ast.walk(fnode):
                            if isinstance(a, ast.Assign) and any(isinstance(t, ast.Name) and t.id == it.func.value.id for t in a.targets) and isinstance(a.value, ast.Dict):
                                ks = [k.value for k in a.value.keys if isinstance(k, ast.Constant) and isinstance(k.value, str)]
                                if len(ks) == len(a.value.keys):
                                    vals = ks
                    elif isinstance(it, (ast.List, ast.Tuple)) and all(isinstance(e, ast.Constant) and isinstance(e.value, str) for e in it.elts):
                        vals = [e.value for e in it.elts]
        return vals
    return None
for cname in list(classes):
    cls = None
    for m in mods:
        if isinstance(getattr(m, cname, None), type):
            cls = getattr(m, cname); break
    if cls is None: continue
    for pn, pv in vars(cls).items():
        if isinstance(pv, property) and pv.fset is not None:
            setter_props.append([cname, pn])
    try:
        tree = ast.parse(textwrap.dedent(inspect.getsource(cls)))
    except Exception:
        continue
    for fnode in tree.body[0].body:
        if not isinstance(fnode, ast.FunctionDef): continue
        selfname = fnode.args.args[0].arg if fnode.args.args else "self"
        for node in ast.walk(fnode):
            if isinstance(node, (ast.Assign, ast.AugAssign)):
                for t in (node.targets if isinstance(node, ast.Assign) else [node.target]):
                    for tt in ([t] if not isinstance(t, ast.Tuple) else t.elts):
                        if isinstance(tt, ast.Attribute) and isinstance(tt.value, ast.Name) and tt.value.id == selfname:
                            attr_stores.append([cname, fnode.name, tt.attr])
            if isinstance(node, ast.Call) and isinstance(node.func, ast.Name) and node.func.id == "setattr" and len(node.args) >= 2 \
               and isinstance(node.args[0], ast.Name) and node.args[0].id == selfname:
                nm = _resolve_names(node.args[1], fnode)
                for x in (nm if nm is not None else ["?" + ast.unparse(node.args[1])[:50]]):
                    attr_stores.append([cname, fnode.name, x])
out["attr_stores"] = [list(x) for x in sorted({tuple(x) for x in attr_stores})]
out["setter_props"] = setter_props
out["ffi_decls"] = decls
out["ffi_calls"] = calls
out["ffi_dynamic"] = dynamic
print(json.dumps(out))
'''


def py_side(d, workdir, cs=None):
    lay = {}
    if cs and "reb_binary_field_descriptor" in cs["structs"]:
        st = cs["structs"]["reb_binary_field_descriptor"]
        lay = {m["name"]: [m["off"], m["size"]] for m in st["members"]}
        lay["size"] = st["size"]
    with open(os.path.join(workdir, "c18_bfd.json"), "w") as f:
        json.dump(lay, f)
    pf = os.path.join(workdir, "c18_pyprobe.py")
    with open(pf, "w") as f:
        f.write(PY_PROBE)
    env = dict(os.environ)
    env.pop("PYTHONPATH", None)
    p = subprocess.run([sys.executable, pf, d, os.path.join(workdir, "c18_bfd.json")], capture_output=True, text=True, env=env, timeout=300)
    if p.returncode != 0:
        raise Infra("python probe failed: " + (p.stderr or p.stdout)[-3000:])
    return json.loads(p.stdout.strip().splitlines()[-1])


# =============================================================================== Lean emission
def lstr(s):
    if not all(32 <= ord(ch) < 127 for ch in s):
        raise Infra("non-ASCII identifier %r" % s)
    return 'n!"' + s.replace("\\", "\\\\").replace('"', '\\"') + '"'


def lkind(k):
    t = k[0]
    if t == "int":
        return "(.int %s %d)" % ("true" if k[1] else "false", k[2])
    if t == "enm":
        return "(.enm %s %s %d)" % (lstr(k[1]), "true" if k[2] else "false", k[3])
    if t in ("f64", "f32", "chr", "void"):
        return "." + t
    if t == "opaque":
        return "(.opaque %s)" % lstr(k[1])
    if t == "struct":
        return "(.struct %s)" % lstr(k[1])
    if t == "ptr":
        return "(.ptr %s)" % lkind(k[1])
    if t == "fptr":
        return "(.fptr %s %d)" % (lkind(k[1]), k[2])
    if t == "arr":
        return "(.arr %s %d)" % (lkind(k[1]), k[2])
    raise ValueError(k)


HDR = "-- GENERATED by rv/extract_c18.py from the working tree of the code under test. Do not edit.\n"


def lean_layout(ns, structs, what):
    blocks, nrows = [], 0
    for s, v in structs.items():
        rows = ["    ⟨%s, %d, %d, %s⟩" % (lstr(m["name"]), m["off"], m["size"], lkind(m["kind"])) for m in v["members"]]
        nrows += len(rows)
        blocks.append("  (%s, %d, [\n%s\n  ])" % (lstr(s), v["size"], ",\n".join(rows)))
    out = HDR + "import RV.Model.Layout\nnamespace RV.Gen.C18\nopen RV.Layout\n\n"
    out += "/-- %s: (structure, total size, [⟨member, offset, size, kind⟩ in declaration order]) -/\n" % what
    out += "def %sTab : StructTab := [\n%s\n]\n\n" % (ns, ",\n".join(blocks))
    out += "/-- what the extraction counted -/\ndef %sRowCount : Nat := %d\ndef %sStructCount : Nat := %d\n" % (ns, nrows, ns, len(blocks))
    out += "\nend RV.Gen.C18\n"
    return out


def lean_options(cs, py, ref):
    L = [HDR + "import RV.Model.Layout\nnamespace RV.Gen.C18\nopen RV.Layout\n"]
    L.append("/-- every C enumeration of the header: (enum, enumerator, value) -/")
    rows = ["  (%s, %s, %d)" % (lstr(e), lstr(n), v) for e, items in cs["enums"].items() for n, v in items]
    L.append("def cEnumRows : List (Name × Name × Int) := [\n%s\n]\n" % ",\n".join(rows))
    L.append("/-- every name->value dictionary of the Python package: (dictionary, name, value) -/")
    prow = ["  (%s, %s, %d)" % (lstr(dn), lstr(k), v) for dn, dv in sorted(py["dicts"].items()) for k, v in dv["items"]]
    L.append("def pyOptRows : List (Name × Name × Int) := [\n%s\n]\n" % ",\n".join(prow))
    L.append("/-- which property uses which dictionary and which ctypes attribute: (class, property, role, dictionary, attributes touched) -/")
    pr = ["  (%s, %s, %s, %s, [%s])" % (lstr(p["cls"]), lstr(p["prop"]), lstr(p["role"]), lstr(dn), ", ".join(lstr(a) for a in p["attrs"]))
          for p in py["props"] for dn in p["dicts"]]
    L.append("def pyPropRows : List PropRow := [\n%s\n]\n" % ",\n".join(pr))
    L.append("/-- function-pointer options: (class, property, option name, exported symbol the setter stores) -/")
    fr = ["  (%s, %s, %s, %s)" % (lstr(f["cls"]), lstr(f["prop"]), lstr(f["name"]), lstr(sym))
          for f in py["fnopts"] for sym in f["symbols"] if sym not in ref.get("fn_setter_helpers", [])]
    L.append("def pyFnOptRows : List FnRow := [\n%s\n]\n" % ",\n".join(fr))
    L.append("/-- functions declared in the public header -/")
    L.append("def cFunctions : List Name := [\n%s\n]\n" % ",\n".join("  " + lstr(f) for f in cs["functions"]))
    L.append("/-- ctypes fields whose descriptor replaces a property/method of the same name in the class body: (class, field) -/")
    sh = ["  (%s, %s)" % (lstr(c), lstr(n)) for c, v in sorted(py["classes"].items()) for n in v.get("shadowed", [])]
    L.append("def pyShadowed : List (Name × Name) := [%s]\n" % ("\n" + ",\n".join(sh) + "\n" if sh else ""))
    sp = ["  ⟨%s, %s, %s, %s, [%s]⟩" % (lstr(p["cls"]), lstr(p["prop"]), lstr(dn), "true" if p.get("lower") else "false", ", ".join(str(ord(ch)) for ch in p.get("strip", [])))
          for p in py["props"] if p["role"] == "set" for dn in p["dicts"]]
    L.append("/-- the normalisation each option setter applies to a string (AST): ⟨class, property, dictionary, lower-cases, characters stripped⟩ -/")
    L.append("def pySetterSpecs : List SetterSpec := [\n%s\n]\n" % ",\n".join(sp))
    L.append("/-- every attribute a method of a ctypes class stores on `self` (assignments and resolvable setattr; `?…` = not resolvable): (class, method, attribute) -/")
    L.append("def pyAttrStores : List Triple := [\n%s\n]\n" % ",\n".join("  (%s, %s, %s)" % tuple(lstr(x) for x in r) for r in py.get("attr_stores", [])))
    L.append("/-- properties with a setter: (class, property) -/")
    L.append("def pySetterProps : List (Name × Name) := [\n%s\n]\n" % ",\n".join("  (%s, %s)" % (lstr(a), lstr(b)) for a, b in py.get("setter_props", [])))
    L.append("def pyAttrStoreCount : Nat := %d" % len(py.get("attr_stores", [])))
    L.append("/-- literal option names of property setters and what their branch assigns: (class, property, name, [(attribute path, literal or ?)]) -/")
    cr = ["  (%s, %s, %s, [%s])" % (lstr(x["cls"]), lstr(x["prop"]), lstr(x["name"]), ", ".join("(%s, %s)" % (lstr(a), lstr(b)) for a, b in x["stores"]))
          for x in py.get("composites", [])]
    L.append("def pyComposites : List CompositeRow := [%s]\n" % ("\n" + ",\n".join(cr) + "\n" if cr else ""))
    L.append("def pyCompositeCount : Nat := %d" % len(cr))
    L.append("def cEnumRowCount : Nat := %d\ndef pyOptRowCount : Nat := %d\ndef pyFnOptRowCount : Nat := %d\ndef cFunctionCount : Nat := %d"
             % (len(rows), len(prow), len(fr), len(cs["functions"])))
    L.append("\nend RV.Gen.C18\n")
    return "\n".join(L)


def lean_protos(cs, py):
    def lk(ks):
        return "[" + ", ".join(lkind(k) for k in ks) + "]"
    L = [HDR + "import RV.Model.Layout\nset_option maxRecDepth 100000\nnamespace RV.Gen.C18\nopen RV.Layout\n"]
    L.append("/-- every function declared in src/*.h (rebound.h first): ⟨name, return kind, parameter kinds⟩; `.opaque \"...\"` = variadic tail -/")
    L.append("def cProtos : List Proto := [\n%s\n]\n" % ",\n".join(
        "  ⟨%s, %s, %s⟩" % (lstr(n), lkind(v["ret"]), lk(v["args"])) for n, v in cs["protos"].items()))
    L.append("/-- every function-pointer member of a C structure -/")
    L.append("def cCallbacks : List Callback := [\n%s\n]\n" % ",\n".join(
        "  ⟨%s, %s, %s, %s⟩" % (lstr(c["struct"]), lstr(c["member"]), lkind(c["ret"]), lk(c["args"])) for c in cs["callbacks"]))
    L.append("/-- every CFUNCTYPE field of a ctypes class -/")
    L.append("def pyCallbacks : List Callback := [\n%s\n]\n" % ",\n".join(
        "  ⟨%s, %s, %s, %s⟩" % (lstr(c["cls"]), lstr(c["field"]), lkind(c["ret"]), lk(c["args"])) for c in py["callbacks"]))
    pidx = {n: i for i, n in enumerate(cs["protos"])}
    rd = [d for d in py["ffi_decls"] if d["attr"] == "restype"]
    L.append("/-- every `clibrebound.f.restype = T` of the package (AST; T evaluated in its module) -/")
    L.append("def pyRestypeDecls : List RestypeDecl := [\n%s\n]\n" % ",\n".join(
        "  ⟨%s, %s, %s, %d⟩" % (lstr(d["fn"]), lstr("%s:%s" % (d["module"], d["scope"])), lkind(d["kind"]), pidx.get(d["fn"], 0)) for d in rd))
    od = [d for d in py["ffi_decls"] if d["attr"] != "restype"]
    L.append("/-- assignments to other attributes of a foreign function (`argtypes`, or a misspelt `restype`): (function, site, attribute) -/")
    L.append("def pyOtherFnAttrs : List (Name × Name × Name) := [%s]\n" % ("\n" + ",\n".join(
        "  (%s, %s, %s)" % (lstr(d["fn"]), lstr("%s:%s" % (d["module"], d["scope"])), lstr(d["attr"])) for d in od) + "\n" if od else ""))
    L.append("/-- every `clibrebound.f(...)` call site of the package (AST) -/")
    L.append("def pyCalls : List CallSite := [\n%s\n]\n" % ",\n".join(
        "  ⟨%s, %s, %s, %s, %s, %s, %d⟩" % (lstr(c["fn"]), lstr("%s:%s" % (c["module"], c["scope"])), "true" if c["used"] else "false",
                                           ("(some %s)" % lkind(c["restype"])) if c["restype"] is not None else "none", lk(c["args"]),
                                           "true" if c["starargs"] else "false", pidx.get(c["fn"], 0)) for c in py["ffi_calls"]))
    L.append("def cProtoCount : Nat := %d\ndef cCallbackCount : Nat := %d\ndef pyCallbackCount : Nat := %d\ndef pyRestypeDeclCount : Nat := %d\ndef pyCallCount : Nat := %d"
             % (len(cs["protos"]), len(cs["callbacks"]), len(py["callbacks"]), len(rd), len(py["ffi_calls"])))
    L.append("\nend RV.Gen.C18\n")
    return "\n".join(L)


def lean_descr(cs, py, ref):
    L = [HDR + "import RV.Model.Layout\nset_option maxRecDepth 100000\nnamespace RV.Gen.C18\nopen RV.Layout\n"]
    def rows(l):
        return ",\n".join("  (%d, %d, %s, %d, %d, %d)" % (r[0], r[1], lstr(r[2]), r[3], r[4], r[5]) for r in l)
    L.append("/-- reb_binary_field_descriptor_list of the loaded library, read as raw memory with the C-side layout: (type id, dtype, name, offset, offset_N, element_size) -/")
    L.append("def cDescriptors : List DescrRow := [\n%s\n]\n" % rows(py.get("c_descriptors") or []))
    L.append("/-- what rebound.binary_field_descriptor.binary_field_descriptor_list() returns -/")
    L.append("def pyDescriptors : List DescrRow := [\n%s\n]\n" % rows(py.get("py_descriptors") or []))
    L.append("/-- rebound.simulation.BINARY_WARNINGS: (major error, id, message) -/")
    L.append("def pyWarnings : List (Bool × Int × Name) := [\n%s\n]\n" % ",\n".join(
        "  (%s, %d, %s)" % ("true" if a else "false", b, lstr(c)) for a, b, c in (py.get("binary_warnings") or [])))
    L.append("def cDescriptorCount : Nat := %d\ndef pyDescriptorCount : Nat := %d\ndef pyWarningCount : Nat := %d"
             % (len(py.get("c_descriptors") or []), len(py.get("py_descriptors") or []), len(py.get("binary_warnings") or [])))
    L.append("\nend RV.Gen.C18\n")
    return "\n".join(L)


def lean_ref(ref, findings):
    """committed reference data (ref/C18_*.json) + the exception list from findings/C18.jsonl"""
    L = [HDR.replace("the working tree of the code under test", "ref/C18_*.json and findings/C18.jsonl (committed in /verif)")
         + "import RV.Model.Layout\nnamespace RV.Gen.C18\nopen RV.Layout\n"]
    L.append("/-- Python class -> C structure; `true` = the class is reached only through pointers and may mirror a prefix -/")
    L.append("def classMap : ClassMap := [\n%s\n]\n" % ",\n".join(
        "  (%s, %s, %s)" % (lstr(e["class"]), lstr(e["struct"]), "true" if e.get("prefix") else "false") for e in ref["classmap"]))
    L.append("/-- accepted name differences: (C structure, Python field, C member) -/")
    L.append("def renames : List Triple := [\n%s\n]\n" % ",\n".join(
        "  (%s, %s, %s)" % (lstr(e["struct"]), lstr(e["py"]), lstr(e["c"])) for e in ref["renames"]))
    L.append("/-- option families: (dictionary, C structure, C member holding the value, Python class, property, enumerator prefix) -/")
    L.append("def optMap : List OptFamily := [\n%s\n]\n" % ",\n".join(
        "  ⟨%s, %s, %s, %s, %s, %s⟩" % tuple(lstr(e[k]) for k in ("dict", "struct", "member", "class", "property", "prefix")) for e in ref["options"]))
    L.append("/-- function-pointer option families: (Python class, property, C structure, C member, symbol prefix) -/")
    L.append("def fnOptMap : List FnFamily := [\n%s\n]\n" % ",\n".join(
        "  (%s, %s, %s, %s, %s)" % tuple(lstr(e[k]) for k in ("class", "property", "struct", "member", "prefix")) for e in ref["fn_options"]))
    fl = ref["floor"]
    L.append("def floorClasses : Nat := %d\ndef floorPyRows : Nat := %d\ndef floorCRows : Nat := %d\ndef floorCStructs : Nat := %d\n"
             "def floorOptRows : Nat := %d\ndef floorEnumRows : Nat := %d\ndef floorFnOptRows : Nat := %d\n"
             % (fl["classes"], fl["py_rows"], fl["c_rows"], fl["c_structs"], fl["opt_rows"], fl["enum_rows"], fl["fnopt_rows"]))
    wk = ref["opt"].get("warning_keywords", {})
    L.append("/-- binary error codes: (enumerator, a phrase the Python message for that code must contain, lower case) -/")
    L.append("def warnKeywords : List (Name × Name) := [\n%s\n]\n" % ",\n".join("  (%s, %s)" % (lstr(k), lstr(v)) for k, v in wk.items()))
    L.append("def floorDescriptors : Nat := %d\ndef floorWarnings : Nat := %d\n" % (fl.get("descriptors", 0), fl.get("warnings", 0)))
    po = ref["opt"].get("python_only_attributes", {})
    L.append("/-- attributes that are deliberately Python-only (keep-alive references to callbacks, archive bookkeeping): (class, attribute) -/")
    L.append("def pyOnlyAttrs : List (Name × Name) := [\n%s\n]\n" % ",\n".join("  (%s, %s)" % (lstr(c_), lstr(a_)) for c_, l_ in po.items() for a_ in l_))
    L.append("def floorAttrStores : Nat := %d\n" % fl.get("attr_stores", 0))
    L.append("def floorProtos : Nat := %d\ndef floorCallbacks : Nat := %d\ndef floorRestypeDecls : Nat := %d\ndef floorCalls : Nat := %d\n"
             % (fl.get("protos", 0), fl.get("callbacks", 0), fl.get("restype_decls", 0), fl.get("calls", 0)))
    ex_name, ex_shadow, ex_layout, ex_call, ex_store = [], [], [], [], []
    for e in findings:
        if e.get("status", "known") != "known":
            continue
        for x in e.get("lean_exceptions", []):
            if x["kind"] == "name":
                ex_name.append("  (%s, %s, %s)" % (lstr(x["struct"]), lstr(x["py"]), lstr(x["c"])))
            elif x["kind"] == "layout":
                ex_layout.append("  (%s, %s, %s, .%s)" % (lstr(x["struct"]), lstr(x["py"]), lstr(x["c"]), x["why"]))
            elif x["kind"] == "store":
                ex_store.append("  (%s, %s)" % (lstr(x["class"]), lstr(x["attr"])))
            elif x["kind"] == "call":
                ex_call.append("  (%s, %s)" % (lstr(x["fn"]), lstr(x["site"])))
            elif x["kind"] == "shadow":
                ex_shadow.append("  (%s, %s)" % (lstr(x["class"]), lstr(x["field"])))
    L.append("/-- known findings (findings/C18.jsonl, status known): name pairs that are NOT accepted renames but are\n"
             "    tolerated by the `…_partial` theorems: (C structure, Python field, C member at the same offset) -/")
    L.append("def knownNameExceptions : List Triple := [%s]\n" % ("\n" + ",\n".join(ex_name) + "\n" if ex_name else ""))
    L.append("/-- known findings: layout disagreements tolerated by the `…_partial` theorems, each only for its category:\n"
             "    (C structure, Python field, C member at the same position, category) -/")
    L.append("def knownLayoutExceptions : List Bad := [%s]\n" % ("\n" + ",\n".join(ex_layout) + "\n" if ex_layout else ""))
    L.append("/-- known findings: ctypes fields shadowing a property of the same name: (class, field) -/")
    L.append("def knownShadowExceptions : List (Name × Name) := [%s]\n" % ("\n" + ",\n".join(ex_shadow) + "\n" if ex_shadow else ""))
    L.append("/-- known findings: attribute stores that miss the C structure: (class, attribute) -/")
    L.append("def knownStoreExceptions : List (Name × Name) := [%s]\n" % ("\n" + ",\n".join(ex_store) + "\n" if ex_store else ""))
    L.append("/-- known findings: foreign call sites that are not sound: (function, module:scope) -/")
    L.append("def knownCallExceptions : List (Name × Name) := [%s]\n" % ("\n" + ",\n".join(ex_call) + "\n" if ex_call else ""))
    L.append("end RV.Gen.C18\n")
    return "\n".join(L)


def load_ref():
    ref = {}
    for k, fn in (("classmap", "C18_classmap.json"), ("renames", "C18_renames.json"),
                  ("opt", "C18_options.json"), ("floor", "C18_floor.json")):
        with open(os.path.join(ROOT, "ref", fn)) as f:
            ref[k] = json.load(f)
    ref["options"] = ref["opt"]["enum_options"]
    ref["fn_options"] = ref["opt"]["fn_options"]
    ref["fn_setter_helpers"] = ref["opt"].get("fn_setter_helpers", [])
    return ref


def derive_classmap(ref, cs, py):
    """A ctypes class that the committed map does not know (added after the map was written) is mapped
    automatically when the code itself says what it mirrors: it is embedded in / pointed to from an already
    mapped class at the offset where the C structure embeds / points to a structure; failing that, a C
    structure called reb_<snake_case(class)>.  Derived entries are compared like committed ones."""
    cm = {e["class"]: e for e in ref["classmap"]}
    todo = [c for c in py["classes"] if c not in cm]
    progress = True
    while todo and progress:
        progress = False
        for cname in list(todo):
            found = None
            for pc, pv in py["classes"].items():
                if pc not in cm or cm[pc]["struct"] not in cs["structs"]:
                    continue
                cbyoff = {m["off"]: m for m in cs["structs"][cm[pc]["struct"]]["members"]}
                for f in pv["members"]:
                    pk, ck = f["kind"], cbyoff.get(f["off"], {}).get("kind")
                    via_ptr = False
                    while pk and ck and pk[0] in ("ptr", "arr") and ck[0] == pk[0]:
                        via_ptr = via_ptr or pk[0] == "ptr"
                        pk, ck = pk[1], ck[1]
                    if pk == ["struct", cname] and ck and ck[0] == "struct":
                        found = dict(struct=ck[1], prefix=via_ptr and py["classes"][cname]["size"] < cs["structs"].get(ck[1], {}).get("size", 0))
                        break
                if found:
                    break
            if not found:
                snake = "reb_" + re.sub(r"(?<=[a-z0-9])([A-Z])", r"_\1", cname).lower()
                for cand in (snake, "reb_" + cname.lower(), cname):
                    if cand in cs["structs"]:
                        found = dict(struct=cand, prefix=False)
                        break
            if found:
                e = {"class": cname, "struct": found["struct"], "derived": True}
                if found["prefix"]:
                    e["prefix"] = True
                ref["classmap"].append(e)
                cm[cname] = e
                todo.remove(cname)
                progress = True


def extract(d, workdir, findings=(), dwarf=False):
    ref = load_ref()
    cs = c_side(d, workdir, extra_tags={e["struct"] for e in ref["classmap"]})
    py = py_side(d, workdir, cs)
    if py.get("import_error") is None:
        derive_classmap(ref, cs, py)
    res = dict(c=cs, py=py, ref=ref, changed=[])
    gen = os.path.join(LEAN, "RV", "Gen")
    files = {"C18LayoutC.lean": lean_layout("c", cs["structs"], "C structures of src/rebound.h as laid out by the compiler (repo flags)"),
             "C18Ref.lean": lean_ref(ref, findings)}
    if py.get("import_error") is None:
        files["C18LayoutPy.lean"] = lean_layout("py", py["classes"], "ctypes.Structure subclasses of the rebound package")
        files["C18Options.lean"] = lean_options(cs, py, ref)
        files["C18Protos.lean"] = lean_protos(cs, py)
        files["C18Descr.lean"] = lean_descr(cs, py, ref)
    for fn, content in files.items():
        if write_if_changed(os.path.join(gen, fn), content):
            res["changed"].append(fn)
    if dwarf:
        res["dwarf"] = dwarf_offsets(d, workdir, [s for s in cs["structs"] if "." not in s])
    return res


if __name__ == "__main__":
    from common import build
    import tempfile
    d = build()
    w = tempfile.mkdtemp(prefix="c18x.")
    r = extract(d, w, dwarf=True)
    json.dump({k: r[k] for k in ("c", "py")}, sys.stdout, indent=1)
