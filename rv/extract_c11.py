"""C11 translator: membership lists of the argument counters of the two particle
constructors -> lean/RV/Gen/C11Args.lean.

C   (src/tools.c, reb_particle_from_fmt_errV):  `if (!isnan(x)) Ncart++;` / `if (primary_given) Norb++;`
Py  (rebound/particle.py, Particle.__init__):   cart = [...], orbi = [...], pal = [...],
                                                 notNone([...]) and notNone(pal), longitudes = [...]
Also extracted (returned, compared by rv/c11.py): the error strings with their codes, the
format tokens the C parser knows, the keyword arguments of Particle.__init__.
"""
import os, re

ARGS = ["sim", "m", "r", "hash", "x", "y", "z", "vx", "vy", "vz", "primary", "a", "P", "e", "inc",
        "Omega", "omega", "pomega", "f", "M", "E", "l", "theta", "T", "h", "k", "ix", "iy"]


class ExtractError(Exception):
    pass


def extract_c(tools_c):
    src = open(tools_c).read()
    m = re.search(r"static struct reb_particle reb_particle_from_fmt_errV\(struct reb_simulation\* r, int\* err, const char\* fmt, va_list args\)\{(.*?)\n\}\n", src, re.S)
    if not m:
        raise ExtractError("reb_particle_from_fmt_errV not found")
    body = m.group(1)
    tabs = {}
    for cnt in ("Ncart", "Norb", "Nnonpal", "Npal", "Nlong"):
        if not re.search(r"int\s+%s\s*=\s*0\s*;" % cnt, body):
            raise ExtractError("counter %s not declared" % cnt)
        mem = []
        for mm in re.finditer(r"if\s*\(\s*(!isnan\(\s*(\w+)\s*\)|primary_given)\s*\)\s*%s\+\+\s*;" % cnt, body):
            mem.append(mm.group(2) if mm.group(2) else "primary")
        # every statement that touches the counter must be one of the recognised increments
        touching = len(re.findall(r"\b%s\s*(\+\+|--|\+=|-=|=[^=])" % cnt, body)) - 1  # minus the declaration
        if touching != len(mem):
            raise ExtractError("%s: %d statements modify it, %d recognised" % (cnt, touching, len(mem)))
        tabs[cnt] = mem
    tokens = re.findall(r'strcmp\(token,"(\w+)"\)', body)
    errs = dict((int(a), b) for a, b in re.findall(r'if \(err==(\d+)\)\s*return "([^"]*)";', src))
    return tabs, tokens, errs


def extract_py(particle_py):
    src = open(particle_py).read()
    m = re.search(r"def __init__\(self,(.*?)\):\n", src, re.S)
    if not m:
        raise ExtractError("Particle.__init__ not found")
    kwargs = [a.split("=")[0].strip() for a in m.group(1).split(",")]

    def lst(pat):
        mm = re.findall(pat, src)
        if len(mm) != 1:
            raise ExtractError("pattern %r found %d times" % (pat, len(mm)))
        return [a.strip() for a in mm[0].split(",")]

    tabs = {
        "cart": lst(r"\n\s*cart\s*=\s*\[([^\]]*)\]"),
        "orbi": lst(r"\n\s*orbi\s*=\s*\[([^\]]*)\]"),
        "pal": lst(r"\n\s*pal\s*=\s*\[([^\]]*)\]"),
        "nonpal": lst(r"if notNone\(\[([^\]]*)\]\) and notNone\(pal\):"),
        "long": lst(r"\n\s*longitudes\s*=\s*\[([^\]]*)\]"),
        "peri": lst(r"\n\s*pericenters\s*=\s*\[([^\]]*)\]"),
    }
    return tabs, kwargs


def extract_variant(tools_c):
    """which of the proposed small repairs the source contains (exact text of the original or of the
    repaired statement must be found, anything else is an extraction error)"""
    src = open(tools_c).read()

    def which(name, orig, fixed):
        o, f = all(t in src for t in orig), all(t in src for t in fixed)
        if o == f:
            raise ExtractError("%s: cannot recognise the statement (original=%s, repaired=%s)" % (name, o, f))
        return f
    v = {
        "m2eCopysign": which("reb_M_to_E initial guess", ["E = M/fabs(M)*log(2.*fabs(M)/e + 1.8);"],
                             ["E = copysign(log(2.*fabs(M)/e + 1.8), M);"]),
        "acoshClamp": which("reb_orbit_from_particle acosh", ["ea = acosh((1.-o.d/o.a)/o.e);"],
                            ["double coshea = (1.-o.d/o.a)/o.e;", "ea = (coshea > 1.) ? acosh(coshea) : 0.;"]),
        "asymLe": which("reb_particle_from_orbit asymptote test", ["if(e*cos(f) < -1.){"], ["if(e*cos(f) <= -1.){"]),
        "aStrict": which("reb_particle_from_orbit sign tests on a", ["if(a > 0.){", "if(a < 0.){"], ["if(a >= 0.){", "if(a <= 0.){"]),
        "palNewton": which("reb_tools_solve_kepler_pal update", ["qn -= fd00*f0+fd10*f1;", "pn -= fd01*f0+fd11*f1;"],
                           ["qn -= fd00*f0+fd01*f1;", "pn -= fd10*f0+fd11*f1;"]),
    }
    return v


def extract_entry_points(repo):
    """public functions / attributes that reach the element <-> Cartesian mechanism"""
    h = open(os.path.join(repo, "src", "rebound.h")).read()
    th = open(os.path.join(repo, "src", "tools.h")).read()
    cnames = set()
    pat = re.compile(r"^(reb_particle_from_orbit(_err)?|reb_orbit_from_particle(_err)?|reb_M_to_E|reb_E_to_f|reb_M_to_f|reb_mod2pi|"
                     r"reb_particle_from_pal|reb_simulation_add_fmt|reb_particle_from_fmt|reb_particle_derivative_\w+|reb_simulation_output_orbits)$")
    for m in re.finditer(r"DLLEXPORT[^;(]*?\b(reb_\w+)\s*\(", h):
        if pat.match(m.group(1)):
            cnames.add(m.group(1))
    for m in re.finditer(r"\b(reb_tools_solve_kepler_pal|reb_tools_particle_to_pal)\s*\(", th):
        cnames.add(m.group(1))
    py = set()
    tools = open(os.path.join(repo, "rebound", "tools.py")).read()
    for m in re.finditer(r"^def (mod2pi|M_to_f|E_to_f|M_to_E)\(", tools, flags=re.M):
        py.add("rebound." + m.group(1))
    part = open(os.path.join(repo, "rebound", "particle.py")).read()
    for m in re.finditer(r"@property\s+def (\w+)\(self\):\s*(?:\"\"\".*?\"\"\"\s*)?((?:.*\n){1,4}?)\s*(?=@|def )", part):
        if ".orbit()" in m.group(2):
            py.add("Particle." + m.group(1))
    for m in re.finditer(r"@(\w+)\.setter\s+def \w+\(self,\s*value\):((?:.*\n){1,12}?)\s*(?=@|def )", part):
        if "self.orbit()" in m.group(2) or "Particle(" in m.group(2):
            py.add("Particle." + m.group(1) + ".setter")
    for nm in ("__init__", "orbit", "sample_orbit"):
        if re.search(r"def %s\(self" % nm, part):
            py.add("Particle." + nm)
    orb = open(os.path.join(repo, "rebound", "orbit.py")).read()
    if re.search(r"def E\(self\)", orb):
        py.add("Orbit.E")
    simpy = open(os.path.join(repo, "rebound", "simulation.py")).read()
    for nm in ("add", "orbits"):
        if re.search(r"def %s\(self" % nm, simpy):
            py.add("Simulation." + nm)
    return sorted(cnames), sorted(py)


def lean_list(names):
    bad = [n for n in names if n not in ARGS]
    if bad:
        raise ExtractError("unknown argument names %s" % bad)
    names = sorted(names, key=ARGS.index)   # canonical order; duplicates kept
    return "[" + ", ".join("." + n for n in names) + "]"


def generate(repo):
    ctabs, tokens, errs = extract_c(os.path.join(repo, "src", "tools.c"))
    ptabs, kwargs = extract_py(os.path.join(repo, "rebound", "particle.py"))
    var = extract_variant(os.path.join(repo, "src", "tools.c"))
    n_c = sum(len(v) for v in ctabs.values())
    n_p = sum(len(ptabs[k]) for k in ("cart", "orbi", "pal", "nonpal", "long"))
    text = """/- GENERATED by rv/extract_c11.py from src/tools.c and rebound/particle.py — do not edit -/
import RV.Model.Orbit
namespace RV.Gen.C11
open RV.OrbitArgs

/-- counters of reb_particle_from_fmt_errV: %d increments -/
def cTab : Tab where
  cart := %s
  orb := %s
  nonpal := %s
  pal := %s
  long := %s
def cIncrements : Nat := %d

/-- lists of Particle.__init__: %d entries -/
def pyTab : Tab where
  cart := %s
  orb := %s
  nonpal := %s
  pal := %s
  long := %s
def pyEntries : Nat := %d
def pyPeri : List Arg := %s

/-- statements of tools.c recognised as original (false) or repaired (true) -/
def variant : RV.Orbit.Variant where
  m2eCopysign := %s
  acoshClamp := %s
  asymLe := %s
  palNewton := %s
  aStrict := %s

end RV.Gen.C11
""" % (n_c, lean_list(ctabs["Ncart"]), lean_list(ctabs["Norb"]), lean_list(ctabs["Nnonpal"]),
       lean_list(ctabs["Npal"]), lean_list(ctabs["Nlong"]), n_c,
       n_p, lean_list(ptabs["cart"]), lean_list(ptabs["orbi"]), lean_list(ptabs["nonpal"]),
       lean_list(ptabs["pal"]), lean_list(ptabs["long"]), n_p, lean_list(ptabs["peri"]),
       str(var["m2eCopysign"]).lower(), str(var["acoshClamp"]).lower(), str(var["asymLe"]).lower(), str(var["palNewton"]).lower(), str(var["aStrict"]).lower())
    info = {"c_tabs": ctabs, "py_tabs": ptabs, "c_tokens": tokens, "c_errors": errs, "py_kwargs": kwargs,
            "c_increments": n_c, "py_entries": n_p, "variant": var}
    return text, info


if __name__ == "__main__":
    import sys
    t, info = generate(sys.argv[1] if len(sys.argv) > 1 else "/repo")
    print(t)
    print(info)
