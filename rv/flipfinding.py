"""rv/flipfinding.py findings/Cxx.jsonl <key> <commit> <fixes/patch.diff> : mark one known finding as fixed."""
import json, sys
p, key, commit, fix = sys.argv[1:5]
out = []; n = 0
for l in open(p):
    if not l.strip():
        continue
    d = json.loads(l)
    if d["key"] == key:
        d["status"] = "fixed"; d["commit"] = commit; d["fix"] = fix; n += 1
    out.append(json.dumps(d))
open(p, "w").write("\n".join(out) + "\n")
print(key, "flipped" if n else "NOT FOUND")
