#!/bin/bash
# confirm every finished later-batch worktree change that is not yet under seeded/ (4 worktrees in parallel;
# the server tests bind a fixed port: seedconfirm re-runs them alone when another suite was in the way)
cd /verif
one() {
  wt=$1
  [ -d $wt ] || exit 0
  pid=$(basename $wt | sed "s/mut[2345]-//")
  for v in C D E F G H I J; do
    lc=$(echo $v | tr 'A-Z' 'a-z')
    [ -f $wt/out/$v/meta.json ] || continue
    [ -d seeded/$pid-$lc ] && continue
    python3 rv/seedconfirm.py $wt $v > /tmp/confirm2-$pid-$v.log 2>&1
    echo "$pid-$lc: $(tail -1 /tmp/confirm2-$pid-$v.log)"
  done
}
export -f one
ls -d /tmp/mut2-C* /tmp/mut3-C* /tmp/mut4-C* /tmp/mut5-C* 2>/dev/null | xargs -P 4 -I{} bash -c 'one {}'
