#!/bin/bash
# confirm every finished later-batch worktree change that is not yet under seeded/
cd /verif
for wt in /tmp/mut2-C* /tmp/mut3-C* /tmp/mut4-C* /tmp/mut5-C*; do
  [ -d $wt ] || continue
  pid=$(basename $wt | sed "s/mut[2345]-//")
  for v in C D E F G H I J; do
    lc=$(echo $v | tr 'A-Z' 'a-z')
    [ -f $wt/out/$v/meta.json ] || continue
    [ -d seeded/$pid-$lc ] && continue
    python3 rv/seedconfirm.py $wt $v > /tmp/confirm2-$pid-$v.log 2>&1
    echo "$pid-$lc: $(tail -1 /tmp/confirm2-$pid-$v.log)"
  done
done
