"""C02 — every force routine computes the specified pairwise Newtonian sum.

proof:   lean/RV/Props/C02.lean about lean/RV/Model/Gravity.lean (loop nests of
         reb_calculate_acceleration: BASIC with ghost boxes, COMPENSATED, JACOBI, MERCURIUS
         mode 0/1, TRACE interaction/Kepler, tree walk), exact arithmetic, all N.
tie:     the same definitions on IEEE doubles (drv_c02) vs reb_calculate_acceleration of the
         scratch build on generated simulations, every routine, bit for bit (alarm only
         beyond a rounding-level tolerance).
search:  the property statement on the real code with a brute-force math.fsum oracle over the
         declarative source set (no REBOUND algebra), Newton's third law, mode splits, tree.
"""
import ctypes, math, os, sys
sys.path.insert(0, os.path.dirname(os.path.abspath(__file__)))
from common import *

EPS = 2.220446049250313e-16


# ----------------------------------------------------------------------------- generators
def gen_masses(rng, n, allow_zero_m0=True):
    m0 = rng.loguniform(1e-3, 1e3)
    kind = rng.randint(0, 5)
    ms = []
    for i in range(n):
        if kind == 0:
            m = m0 * 10 ** (-rng.uniform(0, 12))
        elif kind == 1:
            m = m0 * rng.uniform(0.1, 2.0)
        elif kind == 2:
            m = 0.0 if rng.chance(0.4) else m0 * 10 ** (-rng.uniform(0, 6))
        elif kind == 3:
            m = m0
        elif kind == 4:
            m = m0 * rng.choice([1e-12, 1e-6, 1e-3, 1.0, 10.0])
        else:
            m = m0 if i == 0 else (0.0 if rng.chance(0.5) else m0 * rng.choice([1e-12, 1e-9, 1e-3]))
        ms.append(m)
    if n and (not allow_zero_m0 or rng.chance(0.8)):
        ms[0] = m0
    return ms, kind


def gen_positions(rng, n, scale, inside=None):
    """random cloud; a few close pairs; `inside` = half box size to stay within"""
    ps = []
    for i in range(n):
        if ps and rng.chance(0.1):
            b = rng.choice(ps)
            d = scale * 10 ** (-rng.uniform(1, 6))
            p = [b[0] + rng.normal() * d, b[1] + rng.normal() * d, b[2] + rng.normal() * d]
        else:
            p = [rng.normal() * scale, rng.normal() * scale, rng.normal() * scale * rng.choice([1, 1, 0.01])]
        if inside is not None:
            p = [max(-0.98 * inside, min(0.98 * inside, v)) for v in p]
        ps.append(p)
    # distinct positions (coincident particles give 0/0 in every routine)
    seen = set()
    for p in ps:
        while tuple(p) in seen:
            p[0] += scale * 1e-3 * (1 + rng.uniform())
        seen.add(tuple(p))
    return ps


def gen_N(rng, big_ok=True):
    r = rng.uniform()
    if r < 0.06:
        return rng.choice([0, 1])
    if r < 0.55:
        return rng.randint(2, 6)
    if r < 0.85:
        return rng.randint(7, 24)
    if r < 0.95 or not big_ok:
        return rng.randint(25, 60)
    return rng.randint(61, 200)


def gen_common(rng, n):
    ms, kind = gen_masses(rng, n)
    scale = rng.loguniform(1e-2, 1e2)
    G = rng.choice([1.0, 1.0, 6.6743e-11, 39.476926421373, rng.loguniform(1e-3, 1e3)])
    soft = rng.choice([0.0, 0.0, scale * 1e-6, scale * rng.uniform(0.01, 3.0)])
    r = rng.uniform()
    if n == 0 or r < 0.3:
        na = -1
    elif r < 0.45:
        na = 1
    elif r < 0.55:
        na = n
    else:
        na = rng.randint(1, n)
    return dict(N=n, Na=na, tp=rng.randint(0, 1), ignore=rng.randint(0, 2), G=G, soft=soft, ms=ms, mkind=kind, scale=scale)


# ----------------------------------------------------------------------------- oracle (no REBOUND algebra)
def src(cfg, k, j):
    """declarative source set: does particle j contribute to the acceleration of particle k?"""
    n = cfg["N"]
    na = n if cfg["Na"] == -1 else cfg["Na"]
    if j == k:
        return False
    if not (j < na or (cfg["tp"] == 1 and k < na)):
        return False
    ig = cfg["ignore"]
    if ig == 1 and {k, j} == {0, 1}:
        return False
    if ig == 2 and (k == 0 or j == 0):
        return False
    return True


def oracle_direct(cfg, xs, ghosts, weight=None, pairs=None):
    """a_k = sum_{gb} sum_{j in src(k)} -G m_j w_kj d / (|d|^2+eps^2)^{3/2},  d = x_k + gb - x_j.
    returns (acc, absacc) with absacc = sum of |terms| (the scale of the rounding error)"""
    n, G, ms = cfg["N"], cfg["G"], cfg["ms"]
    s2 = cfg["soft"] * cfg["soft"]
    out, mag = [], []
    for k in range(n):
        tx, ty, tz, ta = [], [], [], []
        xk = xs[k]
        for j in range(n):
            if not (pairs(k, j) if pairs else src(cfg, k, j)):
                continue
            xj = xs[j]
            for gb in ghosts:
                dx = xk[0] + gb[0] - xj[0]
                dy = xk[1] + gb[1] - xj[1]
                dz = xk[2] + gb[2] - xj[2]
                r2 = dx * dx + dy * dy + dz * dz + s2
                if r2 == 0.0:
                    f = float("nan")
                else:
                    f = -G * ms[j] * r2 ** -1.5
                if weight is not None:
                    f *= weight(k, j, math.sqrt(r2))
                tx.append(f * dx); ty.append(f * dy); tz.append(f * dz)
                ta.append(abs(f) * math.sqrt(dx * dx + dy * dy + dz * dz))
        out.append((math.fsum(tx), math.fsum(ty), math.fsum(tz)))
        mag.append((math.fsum(ta), len(ta)))
    return out, mag


def ghost_shifts(cfg):
    if not cfg.get("shifted"):
        n = (2 * cfg.get("ngx", 0) + 1) * (2 * cfg.get("ngy", 0) + 1) * (2 * cfg.get("ngz", 0) + 1)
        return [(0.0, 0.0, 0.0)] * n
    bx, by, bz = cfg["bs"]
    return [(bx * i, by * j, bz * k) for i in range(-cfg["ngx"], cfg["ngx"] + 1)
            for j in range(-cfg["ngy"], cfg["ngy"] + 1) for k in range(-cfg["ngz"], cfg["ngz"] + 1)]


def cmp_acc(got, want, mag, slack=16.0, extra=0.0):
    """largest |got-want| in units of the allowed rounding error (<=1 is fine)"""
    worst, wi = 0.0, -1
    for k in range(len(got)):
        tol = (mag[k][1] + 8) * slack * EPS * mag[k][0] + extra
        for c in range(3):
            g, w = got[k][c], want[k][c]
            if g != g or w != w:
                if (g != g) != (w != w):
                    return float("inf"), k
                continue
            e = abs(g - w)
            if e == 0.0:
                continue
            q = e / tol if tol > 0 else float("inf")
            if q > worst:
                worst, wi = q, k
    return worst, wi


# ----------------------------------------------------------------------------- helpers on the real code
class TreeCell(ctypes.Structure):
    pass


TreeCell._fields_ = [("x", ctypes.c_double), ("y", ctypes.c_double), ("z", ctypes.c_double), ("w", ctypes.c_double),
                     ("m", ctypes.c_double), ("mx", ctypes.c_double), ("my", ctypes.c_double), ("mz", ctypes.c_double),
                     ("oct", ctypes.POINTER(TreeCell) * 8), ("pt", ctypes.c_int), ("remote", ctypes.c_int)]


def body_tokens(ms, xs):
    t = []
    for m, p in zip(ms, xs):
        t += [d2h(m), d2h(p[0]), d2h(p[1]), d2h(p[2])]
    return t


def run(c):
    d = build()
    rebound = use_scratch_rebound(d)
    clib = rebound.clibrebound
    ok = c.prove(["RV.Props.C02"])
    exe = lean_exe("drv_c02")
    T = 10 if c.thorough else 1
    c.cov["rule"] = ("random simulations: N in [0,200] skewed small, N_active in {-1,1..N}, testparticle_type 0/1, gravity_ignore_terms 0/1/2, "
                     "6 mass families (zeros, ratios to 1e-12), softening {0, tiny, large}, ghost boxes 0-2 per axis (periodic/open/none), close pairs; "
                     "every gravity routine (BASIC, COMPENSATED, JACOBI, MERCURIUS mode 0/1 with 3 changeover functions, TRACE interaction/Kepler with random "
                     "current_Ks, TREE at theta=0 and finite theta) is called through reb_calculate_acceleration on a real simulation and compared (a) with the "
                     "Lean Float model and (b) with a brute-force fsum oracle over the declarative source set; distinct_nontrivial = distinct "
                     "(routine, N, N_active, type, ignore, ghost counts, mass family) with N>=2")
    c.cov["trusted_base"] = ["Lean 4.33 kernel", "Mathlib (kernel-checked)",
                             "correspondence drv_c02 vs compiled gravity.c on generated inputs (differential test)",
                             "ctypes layouts of Simulation/Particle/ri_mercurius/ri_trace (checked by C18) and of reb_treecell (self-checked on leaves)"]
    c.assumptions += ["theorems are exact-arithmetic (commutative ring / field); IEEE rounding is only measured (tolerance (n_terms+8)*16 ulp of the sum of |terms|)",
                      "the scalar kernel G/r^3 (sqrt, division) is a parameter of the theorems; its Float form is tied bitwise by the correspondence",
                      "OPENMP, MPI, QUADRUPOLE code paths are not compiled and not covered; shear ghost boxes and L_infinity are searched, not modelled",
                      "TREE ignores N_active/testparticle_type/gravity_ignore_terms in the source (every particle is a source): tree cases use all-active systems"]

    lines, expect, meta = [], [], []
    stats = {"bitwise_equal": 0, "within_tol": 0, "disagree": 0}
    worst = {}
    hist = {}
    first_dis = [None]
    viol = []

    def P(sim, n):
        return sim.particles

    def new_sim(cfg, xs, integrator=None, gravity="basic", vs=None):
        sim = rebound.Simulation()
        sim.G = cfg["G"]
        sim.softening = cfg["soft"]
        if integrator:
            sim.integrator = integrator
        sim.gravity = gravity
        if cfg.get("boundary"):
            sim.configure_box(cfg["bs"][0])
            sim.boundary = cfg["boundary"]
            sim.N_ghost_x, sim.N_ghost_y, sim.N_ghost_z = cfg["ngx"], cfg["ngy"], cfg["ngz"]
        for i in range(cfg["N"]):
            kw = dict(m=cfg["ms"][i], x=xs[i][0], y=xs[i][1], z=xs[i][2])
            if vs:
                kw.update(vx=vs[i][0], vy=vs[i][1], vz=vs[i][2])
            sim.add(**kw)
        sim.N_active = cfg["Na"]
        sim.testparticle_type = cfg["tp"]
        sim.gravity_ignore = cfg["ignore"]
        return sim

    def read_acc(sim, n):
        ps = sim.particles
        return [(ps[i].ax, ps[i].ay, ps[i].az) for i in range(n)]

    def calc(sim):
        clib.reb_calculate_acceleration(ctypes.byref(sim))

    def add_line(toks, got, tag):
        lines.append(" ".join(str(t) for t in toks))
        expect.append(got)
        meta.append(tag)

    def note(routine, cfg, nontrivial=True):
        key = (routine, cfg["N"], cfg["Na"], cfg["tp"], cfg["ignore"], cfg.get("ngx", 0), cfg.get("ngy", 0), cfg.get("ngz", 0), cfg["mkind"])
        c.count(key, nontrivial=nontrivial and cfg["N"] >= 2)
        hist[routine] = hist.get(routine, 0) + 1

    def check_oracle(routine, cfg, xs, got, want, mag, rep_extra=None, slack=16.0, keyx=""):
        q, k = cmp_acc(got, want, mag, slack)
        worst[routine] = max(worst.get(routine, 0.0), q if q != float("inf") else 1e300)
        if q > 1.0:
            rep = dict(routine=routine, cfg={k_: v for k_, v in cfg.items()}, xs=xs, particle=k,
                       got=got[k] if k >= 0 else None, want=want[k] if k >= 0 else None, excess=q)
            if rep_extra:
                rep.update(rep_extra)
            viol.append(("%s%s" % (routine, keyx),
                         "%s: acceleration of particle %d differs from the declarative pairwise sum (N=%d N_active=%d type=%d ignore=%d ghosts=%s) by %.3g x tolerance"
                         % (routine, k, cfg["N"], cfg["Na"], cfg["tp"], cfg["ignore"], (cfg.get("ngx", 0), cfg.get("ngy", 0), cfg.get("ngz", 0)), q), rep))

    def third_law(routine, cfg, xs, got, mag, torque=True):
        """all active: sum m a = 0 and (no ghost shift) sum m x cross a = 0"""
        n, ms = cfg["N"], cfg["ms"]
        for comp in range(3):
            s = math.fsum(ms[i] * got[i][comp] for i in range(n))
            tol = math.fsum(abs(ms[i]) * (mag[i][1] + 8) * 16 * EPS * mag[i][0] for i in range(n))
            worst[routine + ":sum m a"] = max(worst.get(routine + ":sum m a", 0.0), abs(s) / tol if tol > 0 else (0.0 if s == 0 else 1e300))
            if not abs(s) <= tol:
                viol.append((routine + ":newton3", "%s: all particles active but sum m_i a_i = %.3g (tolerance %.3g), N=%d" % (routine, s, tol, n),
                             dict(routine=routine, cfg=cfg, xs=xs, component=comp, sum=s, tol=tol)))
                break
        if torque:
            for (a, b) in ((1, 2), (2, 0), (0, 1)):
                s = math.fsum(ms[i] * (xs[i][a] * got[i][b] - xs[i][b] * got[i][a]) for i in range(n))
                R = max([abs(v) for p in xs for v in p] + [0.0])
                tol = math.fsum(abs(ms[i]) * (mag[i][1] + 8) * 32 * EPS * mag[i][0] * R for i in range(n))
                worst[routine + ":sum m x^a"] = max(worst.get(routine + ":sum m x^a", 0.0), abs(s) / tol if tol > 0 else (0.0 if s == 0 else 1e300))
                if not abs(s) <= tol:
                    viol.append((routine + ":torque", "%s: all particles active, no ghost boxes, but sum m_i x_i x a_i = %.3g (tolerance %.3g), N=%d" % (routine, s, tol, n),
                                 dict(routine=routine, cfg=cfg, xs=xs, sum=s, tol=tol)))
                    break

    # ======================================================================= BASIC (+ ghost boxes)
    for case in range(220 * T):
        rng = c.rng.fork()
        n = gen_N(rng)
        cfg = gen_common(rng, n)
        r = rng.uniform()
        if r < 0.45:
            cfg.update(boundary=None, shifted=0, ngx=0, ngy=0, ngz=0, bs=(0.0, 0.0, 0.0))
        else:
            if n > 24:
                n = rng.randint(2, 24); cfg = gen_common(rng, n)
            bnd = rng.choice(["periodic", "periodic", "open", "none"])
            L = cfg["scale"] * rng.uniform(4, 12)
            gx, gy, gz = rng.randint(0, 2), rng.randint(0, 2), rng.randint(0, 2)
            if n > 10:
                gz = min(gz, 1)
            cfg.update(boundary=bnd, shifted=0 if bnd == "none" else 1, ngx=gx, ngy=gy, ngz=gz, bs=(L, L, L))
        xs = gen_positions(rng, n, cfg["scale"], inside=(cfg["bs"][0] / 2 if cfg["boundary"] in ("open", "periodic") else None))
        sim = new_sim(cfg, xs, gravity="basic")
        if cfg["boundary"]:
            cfg["bs"] = (sim.boxsize.x, sim.boxsize.y, sim.boxsize.z)
        calc(sim)
        got = read_acc(sim, n)
        na = n if cfg["Na"] == -1 else cfg["Na"]
        add_line(["basic", n, na, cfg["tp"], cfg["ignore"], cfg["shifted"], cfg["ngx"], cfg["ngy"], cfg["ngz"], d2h(cfg["G"]), d2h(cfg["soft"]),
                  d2h(cfg["bs"][0]), d2h(cfg["bs"][1]), d2h(cfg["bs"][2])] + body_tokens(cfg["ms"], xs), got, ("basic", cfg, xs))
        note("basic", cfg)
        gh = ghost_shifts(cfg)
        want, mag = oracle_direct(cfg, xs, gh)
        check_oracle("basic", cfg, xs, got, want, mag)
        if na == n and cfg["ignore"] == 0:
            third_law("basic", cfg, xs, got, mag, torque=(len(gh) == 1))
        if case < 2:
            c.sample({"routine": "basic", "N": n, "N_active": cfg["Na"], "type": cfg["tp"], "ignore": cfg["ignore"],
                      "ghost": [cfg["ngx"], cfg["ngy"], cfg["ngz"]], "masses": cfg["ms"][:4], "a0": list(got[0]) if n else None})

    # ======================================================================= COMPENSATED
    for case in range(120 * T):
        rng = c.rng.fork()
        n = gen_N(rng)
        cfg = gen_common(rng, n)
        xs = gen_positions(rng, n, cfg["scale"])
        sim = new_sim(cfg, xs, gravity="compensated")
        calc(sim)
        got = read_acc(sim, n)
        na = n if cfg["Na"] == -1 else cfg["Na"]
        add_line(["comp", n, na, cfg["tp"], cfg["ignore"], d2h(cfg["G"]), d2h(cfg["soft"])] + body_tokens(cfg["ms"], xs), got, ("comp", cfg, xs))
        note("comp", cfg)
        want, mag = oracle_direct(cfg, xs, [(0.0, 0.0, 0.0)])
        check_oracle("comp", cfg, xs, got, want, mag)
        if na == n and cfg["ignore"] == 0:
            third_law("comp", cfg, xs, got, mag)
        # compensated vs basic on the same input (exact-arithmetic theorem c02_compensated_eq_basic)
        sim.gravity = "basic"
        calc(sim)
        gb_ = read_acc(sim, n)
        q, k = cmp_acc(got, gb_, mag)
        worst["comp-vs-basic"] = max(worst.get("comp-vs-basic", 0.0), q)
        if q > 1.0:
            viol.append(("comp-vs-basic", "COMPENSATED and BASIC differ beyond rounding on particle %d (N=%d N_active=%d type=%d ignore=%d)" % (k, n, cfg["Na"], cfg["tp"], cfg["ignore"]),
                         dict(cfg=cfg, xs=xs, particle=k, comp=got[k], basic=gb_[k])))

    c.log("generated %d model lines" % len(lines))
    # ======================================================================= run the model
    out = run_driver(exe, lines, timeout=1500)
    if len(out) != len(lines):
        c.corr_break("driver returned %d lines for %d ops" % (len(out), len(lines)))
    else:
        for g, e, mt, l in zip(out, expect, meta, lines):
            routine, cfg, xs = mt[0], mt[1], mt[2]
            gt = g.split()
            et = [d2h(v) for a in e for v in a]
            if gt == et:
                stats["bitwise_equal"] += 1
                continue
            bad = True
            if len(gt) == len(et) and not (gt and gt[0].startswith("bad")):
                try:
                    gv = [h2d(t) for t in gt]
                    model = [tuple(gv[3 * i:3 * i + 3]) for i in range(len(gv) // 3)]
                    mag = mt[3] if len(mt) > 3 else None
                    if mag is None:
                        _, mag = oracle_direct(cfg, xs, ghost_shifts(cfg) if routine in ("basic", "tree") else [(0.0, 0.0, 0.0)], pairs=lambda k, j: k != j)
                    q, k = cmp_acc(model, e, mag, slack=4.0)
                    bad = q > 1.0
                except Exception as ex:
                    bad = True
            if bad:
                stats["disagree"] += 1
                if first_dis[0] is None:
                    first_dis[0] = {"routine": routine, "cfg": {k_: v for k_, v in cfg.items() if k_ != "ms"}, "op_line": l[:2000], "model": g[:600],
                                    "impl": " ".join(et)[:600]}
            else:
                stats["within_tol"] += 1
    c.cov["model_lines_compared"] = len(lines)
    c.cov["correspondence"] = stats
    c.cov["routine_histogram"] = hist
    c.cov["worst_error_over_tolerance"] = {k: float("%.3g" % v) for k, v in sorted(worst.items())}
    if stats["disagree"]:
        c.corr_break("%d of %d model/implementation lines differ; first: %s" % (stats["disagree"], len(lines), first_dis[0]["routine"]), first_dis[0])
    seenk = set()
    for key, what, rep in viol:
        if key in seenk:
            continue
        seenk.add(key)
        c.violation(key, what, rep)


if __name__ == "__main__":
    main("C02", run)
