"""C02 — every force routine computes the specified pairwise Newtonian sum.

proof:   lean/RV/Props/C02.lean about lean/RV/Model/Gravity.lean (loop nests of
         reb_calculate_acceleration: BASIC with ghost boxes, COMPENSATED, JACOBI, MERCURIUS
         mode 0/1, TRACE interaction/Kepler, tree walk), exact arithmetic, all N.
tie:     the same definitions on IEEE doubles (drv_c02) vs reb_calculate_acceleration of the
         scratch build on generated simulations, every routine, bit for bit (alarm only
         beyond a rounding-level tolerance).
search:  the property statement on the real code with a brute-force math.fsum oracle over the
         declarative source set (no REBOUND algebra), Newton's third law, mode splits, tree.
"""
import ctypes, math, os, sys
sys.path.insert(0, os.path.dirname(os.path.abspath(__file__)))
from common import *

EPS = 2.220446049250313e-16


# ----------------------------------------------------------------------------- generators
def gen_masses(rng, n, allow_zero_m0=True):
    m0 = rng.loguniform(1e-3, 1e3)
    kind = rng.randint(0, 5)
    ms = []
    for i in range(n):
        if kind == 0:
            m = m0 * 10 ** (-rng.uniform(0, 12))
        elif kind == 1:
            m = m0 * rng.uniform(0.1, 2.0)
        elif kind == 2:
            m = 0.0 if rng.chance(0.4) else m0 * 10 ** (-rng.uniform(0, 6))
        elif kind == 3:
            m = m0
        elif kind == 4:
            m = m0 * rng.choice([1e-12, 1e-6, 1e-3, 1.0, 10.0])
        else:
            m = m0 if i == 0 else (0.0 if rng.chance(0.5) else m0 * rng.choice([1e-12, 1e-9, 1e-3]))
        ms.append(m)
    if n and (not allow_zero_m0 or rng.chance(0.8)):
        ms[0] = m0
    return ms, kind


def gen_positions(rng, n, scale, inside=None):
    """random cloud; a few close pairs; `inside` = half box size to stay within"""
    ps = []
    for i in range(n):
        if ps and rng.chance(0.1):
            b = rng.choice(ps)
            d = scale * 10 ** (-rng.uniform(1, 6))
            p = [b[0] + rng.normal() * d, b[1] + rng.normal() * d, b[2] + rng.normal() * d]
        else:
            p = [rng.normal() * scale, rng.normal() * scale, rng.normal() * scale * rng.choice([1, 1, 0.01])]
        if inside is not None:
            p = [max(-0.98 * inside, min(0.98 * inside, v)) for v in p]
        ps.append(p)
    # distinct positions (coincident particles give 0/0 in every routine)
    seen = set()
    for p in ps:
        while tuple(p) in seen:
            p[0] += scale * 1e-3 * (1 + rng.uniform())
        seen.add(tuple(p))
    return ps


def gen_N(rng, big_ok=True):
    r = rng.uniform()
    if r < 0.06:
        return rng.choice([0, 1])
    if r < 0.55:
        return rng.randint(2, 6)
    if r < 0.85:
        return rng.randint(7, 24)
    if r < 0.95 or not big_ok:
        return rng.randint(25, 60)
    return rng.randint(61, 200)


def gen_common(rng, n):
    ms, kind = gen_masses(rng, n)
    scale = rng.loguniform(1e-2, 1e2)
    G = rng.choice([1.0, 1.0, 6.6743e-11, 39.476926421373, rng.loguniform(1e-3, 1e3)])
    soft = rng.choice([0.0, 0.0, scale * 1e-6, scale * rng.uniform(0.01, 3.0)])
    r = rng.uniform()
    if n == 0 or r < 0.3:
        na = -1
    elif r < 0.45:
        na = 1
    elif r < 0.55:
        na = n
    else:
        na = rng.randint(1, n)
    return dict(N=n, Na=na, tp=rng.randint(0, 1), ignore=rng.randint(0, 2), G=G, soft=soft, ms=ms, mkind=kind, scale=scale)


# ----------------------------------------------------------------------------- oracle (no REBOUND algebra)
def src(cfg, k, j):
    """declarative source set: does particle j contribute to the acceleration of particle k?"""
    n = cfg["N"]
    na = n if cfg["Na"] == -1 else cfg["Na"]
    if j == k:
        return False
    if not (j < na or (cfg["tp"] == 1 and k < na)):
        return False
    ig = cfg["ignore"]
    if ig == 1 and {k, j} == {0, 1}:
        return False
    if ig == 2 and (k == 0 or j == 0):
        return False
    return True


def oracle_direct(cfg, xs, ghosts, weight=None, pairs=None, wcond=1.0, poserr=0.0):
    """a_k = sum_{gb} sum_{j in src(k)} -G m_j w_kj d / (|d|^2+eps^2)^{3/2},  d = x_k + gb - x_j.
    returns (acc, absacc) with absacc = sum of |terms| (the scale of the rounding error)"""
    n, G, ms = cfg["N"], cfg["G"], cfg["ms"]
    s2 = cfg["soft"] * cfg["soft"]
    out, mag = [], []
    for k in range(n):
        tx, ty, tz, ta = [], [], [], []
        xk = xs[k]
        for j in range(n):
            if not (pairs(k, j) if pairs else src(cfg, k, j)):
                continue
            xj = xs[j]
            for gb in ghosts:
                dx = xk[0] + gb[0] - xj[0]
                dy = xk[1] + gb[1] - xj[1]
                dz = xk[2] + gb[2] - xj[2]
                r2 = dx * dx + dy * dy + dz * dz + s2
                if r2 == 0.0:
                    f = float("nan")
                else:
                    f = -G * ms[j] * r2 ** -1.5
                fa = abs(f) * wcond      # weights are evaluated with an absolute error of wcond ulps
                if poserr and r2 > 0:    # ghost shifts known only to `poserr` (wrapped with a different formula than the code)
                    fa *= 1.0 + 3.0 * poserr / (EPS * math.sqrt(r2))
                if weight is not None:
                    f *= weight(k, j, math.sqrt(r2))
                tx.append(f * dx); ty.append(f * dy); tz.append(f * dz)
                ta.append(fa * math.sqrt(dx * dx + dy * dy + dz * dz))
        out.append((math.fsum(tx), math.fsum(ty), math.fsum(tz)))
        mag.append((math.fsum(ta), len(ta)))
    return out, mag


def ghost_shifts(cfg):
    if not cfg.get("shifted"):
        n = (2 * cfg.get("ngx", 0) + 1) * (2 * cfg.get("ngy", 0) + 1) * (2 * cfg.get("ngz", 0) + 1)
        return [(0.0, 0.0, 0.0)] * n
    bx, by, bz = cfg["bs"]
    return [(bx * i, by * j, bz * k) for i in range(-cfg["ngx"], cfg["ngx"] + 1)
            for j in range(-cfg["ngy"], cfg["ngy"] + 1) for k in range(-cfg["ngz"], cfg["ngz"] + 1)]


def cmp_acc(got, want, mag, slack=4.0, extra=0.0):
    """largest |got-want| in units of the allowed rounding error (<=1 is fine)"""
    worst, wi = 0.0, -1
    for k in range(len(got)):
        tol = (mag[k][1] + 8) * slack * EPS * mag[k][0] + extra
        for c in range(3):
            g, w = got[k][c], want[k][c]
            if g != g or w != w:
                if (g != g) != (w != w):
                    return float("inf"), k
                continue
            e = abs(g - w)
            if e == 0.0:
                continue
            q = e / tol if tol > 0 else float("inf")
            if q > worst:
                worst, wi = q, k
    return worst, wi


# ----------------------------------------------------------------------------- helpers on the real code
class TreeCell(ctypes.Structure):
    pass


TreeCell._fields_ = [("x", ctypes.c_double), ("y", ctypes.c_double), ("z", ctypes.c_double), ("w", ctypes.c_double),
                     ("m", ctypes.c_double), ("mx", ctypes.c_double), ("my", ctypes.c_double), ("mz", ctypes.c_double),
                     ("oct", ctypes.POINTER(TreeCell) * 8), ("pt", ctypes.c_int), ("remote", ctypes.c_int)]


def body_tokens(ms, xs):
    t = []
    for m, p in zip(ms, xs):
        t += [d2h(m), d2h(p[0]), d2h(p[1]), d2h(p[2])]
    return t


def run(c):
    d = build()
    rebound = use_scratch_rebound(d)
    clib = rebound.clibrebound
    ok = c.prove(["RV.Props.C02"])
    exe = lean_exe("drv_c02")
    T = 30 if c.thorough else 1
    c.cov["rule"] = ("random simulations: N in [0,200] skewed small, N_active in {-1,1..N}, testparticle_type 0/1, gravity_ignore_terms 0/1/2, "
                     "6 mass families (zeros, ratios to 1e-12), softening {0, tiny, large}, ghost boxes 0-2 per axis (periodic/open/none), close pairs; "
                     "every gravity routine (BASIC, COMPENSATED, JACOBI, MERCURIUS mode 0/1 with 3 changeover functions, TRACE interaction/Kepler with random "
                     "current_Ks, TREE at theta=0 and finite theta) is called through reb_calculate_acceleration on a real simulation and compared (a) with the "
                     "Lean Float model and (b) with a brute-force fsum oracle over the declarative source set; distinct_nontrivial = distinct "
                     "(routine, N, N_active, type, ignore, ghost counts, mass family) with N>=2")
    c.cov["trusted_base"] = ["Lean 4.33 kernel", "Mathlib (kernel-checked)",
                             "correspondence drv_c02 vs compiled gravity.c on generated inputs (differential test)",
                             "ctypes layouts of Simulation/Particle/ri_mercurius/ri_trace (checked by C18) and of reb_treecell (self-checked on leaves)"]
    c.assumptions += ["theorems are exact-arithmetic (commutative ring / field); IEEE rounding is only measured (tolerance (n_terms+8)*16 ulp of the sum of |terms|)",
                      "the scalar kernel G/r^3 (sqrt, division) is a parameter of the theorems; its Float form is tied bitwise by the correspondence",
                      "OPENMP, MPI, QUADRUPOLE code paths are not compiled and not covered; shear ghost boxes and L_infinity are searched, not modelled",
                      "TREE ignores N_active/testparticle_type/gravity_ignore_terms in the source (every particle is a source): tree cases use all-active systems"]

    lines, expect, meta = [], [], []
    stats = {"bitwise_equal": 0, "within_tol": 0, "disagree": 0}
    worst = {}
    hist = {}
    first_dis = [None]
    viol = []

    def P(sim, n):
        return sim.particles

    def new_sim(cfg, xs, integrator=None, gravity="basic", vs=None):
        sim = rebound.Simulation()
        sim.G = cfg["G"]
        sim.softening = cfg["soft"]
        if integrator:
            sim.integrator = integrator
        sim.gravity = gravity
        if cfg.get("boundary"):
            sim.configure_box(cfg["bs"][0])
            sim.boundary = cfg["boundary"]
            sim.N_ghost_x, sim.N_ghost_y, sim.N_ghost_z = cfg["ngx"], cfg["ngy"], cfg["ngz"]
        for i in range(cfg["N"]):
            kw = dict(m=cfg["ms"][i], x=xs[i][0], y=xs[i][1], z=xs[i][2])
            if vs:
                kw.update(vx=vs[i][0], vy=vs[i][1], vz=vs[i][2])
            sim.add(**kw)
        sim.N_active = cfg["Na"]
        sim.testparticle_type = cfg["tp"]
        sim.gravity_ignore = cfg["ignore"]
        return sim

    def read_acc(sim, n):
        ps = sim.particles
        return [(ps[i].ax, ps[i].ay, ps[i].az) for i in range(n)]

    def calc(sim):
        clib.reb_calculate_acceleration(ctypes.byref(sim))

    def add_line(toks, got, tag):
        lines.append(" ".join(str(t) for t in toks))
        expect.append(got)
        meta.append(tag)

    dims = {}

    def dim(name, n=1):
        dims[name] = dims.get(name, 0) + n

    def note(routine, cfg, nontrivial=True):
        n_, na_ = cfg["N"], (cfg["N"] if cfg["Na"] == -1 else cfg["Na"])
        if na_ < n_:
            dim("roles: N_active < N")
            dim("roles: testparticle_type %d" % cfg["tp"])
            if any(m_ != 0 for m_ in cfg["ms"][na_:]):
                dim("roles: massive test particles")
            if any(m_ == 0 for m_ in cfg["ms"][na_:]):
                dim("roles: massless test particles")
        if na_ == 1 and n_ > 1:
            dim("roles: single active body")
        if any(m_ == 0 for m_ in cfg["ms"][:na_]):
            dim("roles: zero-mass active body")
        if cfg["soft"] != 0:
            dim("options: softening != 0 (%s)" % routine.rstrip("01T"))
        if cfg["G"] != 1.0:
            dim("options: G != 1")
        if cfg.get("ngx", 0) or cfg.get("ngy", 0) or cfg.get("ngz", 0):
            dim("geometry: ghost boxes")
        if n_ in (0, 1):
            dim("scale: N in {0,1}")
        if n_ > 128:
            dim("scale: N > 128")
        key = (routine, cfg["N"], cfg["Na"], cfg["tp"], cfg["ignore"], cfg.get("ngx", 0), cfg.get("ngy", 0), cfg.get("ngz", 0), cfg["mkind"])
        c.count(key, nontrivial=nontrivial and cfg["N"] >= 2)
        hist[routine] = hist.get(routine, 0) + 1

    def check_oracle(routine, cfg, xs, got, want, mag, rep_extra=None, slack=4.0, keyx=""):
        q, k = cmp_acc(got, want, mag, slack)
        worst[routine] = max(worst.get(routine, 0.0), q if q != float("inf") else 1e300)
        if q > 1.0:
            rep = dict(routine=routine, cfg={k_: v for k_, v in cfg.items()}, xs=xs, particle=k,
                       got=got[k] if k >= 0 else None, want=want[k] if k >= 0 else None, excess=q)
            if rep_extra:
                rep.update(rep_extra)
            viol.append(("%s%s" % (routine, keyx),
                         "%s: acceleration of particle %d differs from the declarative pairwise sum (N=%d N_active=%d type=%d ignore=%d ghosts=%s) by %.3g x tolerance"
                         % (routine, k, cfg["N"], cfg["Na"], cfg["tp"], cfg["ignore"], (cfg.get("ngx", 0), cfg.get("ngy", 0), cfg.get("ngz", 0)), q), rep))

    def third_law(routine, cfg, xs, got, mag, torque=True):
        """all active: sum m a = 0 and (no ghost shift) sum m x cross a = 0"""
        n, ms = cfg["N"], cfg["ms"]
        for comp in range(3):
            s = math.fsum(ms[i] * got[i][comp] for i in range(n))
            tol = math.fsum(abs(ms[i]) * (mag[i][1] + 8) * 16 * EPS * mag[i][0] for i in range(n))
            worst[routine + ":sum m a"] = max(worst.get(routine + ":sum m a", 0.0), abs(s) / tol if tol > 0 else (0.0 if s == 0 else 1e300))
            if not abs(s) <= tol:
                viol.append((routine + ":newton3", "%s: all particles active but sum m_i a_i = %.3g (tolerance %.3g), N=%d" % (routine, s, tol, n),
                             dict(routine=routine, cfg=cfg, xs=xs, component=comp, sum=s, tol=tol)))
                break
        if torque:
            for (a, b) in ((1, 2), (2, 0), (0, 1)):
                s = math.fsum(ms[i] * (xs[i][a] * got[i][b] - xs[i][b] * got[i][a]) for i in range(n))
                R = max([abs(v) for p in xs for v in p] + [0.0])
                tol = math.fsum(abs(ms[i]) * (mag[i][1] + 8) * 32 * EPS * mag[i][0] * R for i in range(n))
                worst[routine + ":sum m x^a"] = max(worst.get(routine + ":sum m x^a", 0.0), abs(s) / tol if tol > 0 else (0.0 if s == 0 else 1e300))
                if not abs(s) <= tol:
                    viol.append((routine + ":torque", "%s: all particles active, no ghost boxes, but sum m_i x_i x a_i = %.3g (tolerance %.3g), N=%d" % (routine, s, tol, n),
                                 dict(routine=routine, cfg=cfg, xs=xs, sum=s, tol=tol)))
                    break

    # ======================================================================= BASIC (+ ghost boxes)
    for case in range(220 * T):
        rng = c.rng.fork()
        n = gen_N(rng)
        cfg = gen_common(rng, n)
        r = rng.uniform()
        if r < 0.45:
            cfg.update(boundary=None, shifted=0, ngx=0, ngy=0, ngz=0, bs=(0.0, 0.0, 0.0))
        else:
            if n > 24:
                n = rng.randint(2, 24); cfg = gen_common(rng, n)
            bnd = rng.choice(["periodic", "periodic", "open", "none"])
            L = cfg["scale"] * rng.uniform(4, 12)
            gx, gy, gz = rng.randint(0, 2), rng.randint(0, 2), rng.randint(0, 2)
            if n > 10:
                gz = min(gz, 1)
            cfg.update(boundary=bnd, shifted=0 if bnd == "none" else 1, ngx=gx, ngy=gy, ngz=gz, bs=(L, L, L))
        xs = gen_positions(rng, n, cfg["scale"], inside=(cfg["bs"][0] / 2 if cfg["boundary"] in ("open", "periodic") else None))
        sim = new_sim(cfg, xs, gravity="basic")
        if cfg["boundary"]:
            cfg["bs"] = (sim.boxsize.x, sim.boxsize.y, sim.boxsize.z)
        calc(sim)
        got = read_acc(sim, n)
        na = n if cfg["Na"] == -1 else cfg["Na"]
        add_line(["basic", n, na, cfg["tp"], cfg["ignore"], cfg["shifted"], cfg["ngx"], cfg["ngy"], cfg["ngz"], d2h(cfg["G"]), d2h(cfg["soft"]),
                  d2h(cfg["bs"][0]), d2h(cfg["bs"][1]), d2h(cfg["bs"][2])] + body_tokens(cfg["ms"], xs), got, ("basic", cfg, xs))
        note("basic", cfg)
        gh = ghost_shifts(cfg)
        want, mag = oracle_direct(cfg, xs, gh)
        check_oracle("basic", cfg, xs, got, want, mag)
        if na == n and cfg["ignore"] == 0:
            third_law("basic", cfg, xs, got, mag, torque=(len(gh) == 1))
        if case < 2:
            c.sample({"routine": "basic", "N": n, "N_active": cfg["Na"], "type": cfg["tp"], "ignore": cfg["ignore"],
                      "ghost": [cfg["ngx"], cfg["ngy"], cfg["ngz"]], "masses": cfg["ms"][:4], "a0": list(got[0]) if n else None})

    # ======================================================================= BASIC / TREE with shear-periodic ghost boxes
    def shear_lattice(cfg, code_convention=False):
        """ghost shifts of REB_BOUNDARY_SHEAR.  Spec: column i is displaced in y by -1.5 i OMEGA Lx t wrapped to the
        nearest image [-Ly/2, Ly/2].  code_convention=True re-implements boundary.c's three fmod formulas."""
        bx, by, bz = cfg["bs"]
        out = []
        for i in range(-cfg["ngx"], cfg["ngx"] + 1):
            vy = -1.5 * i * cfg["OMEGA"] * bx
            if code_convention:
                if i == 0:
                    shift = -math.fmod(vy * cfg["t"], by)
                elif i > 0:
                    shift = -math.fmod(vy * cfg["t"] - by / 2., by) - by / 2.
                else:
                    shift = -math.fmod(vy * cfg["t"] + by / 2., by) + by / 2.
                off = -shift
            else:
                off = vy * cfg["t"]
                off -= by * round(off / by)
            for j in range(-cfg["ngy"], cfg["ngy"] + 1):
                for k in range(-cfg["ngz"], cfg["ngz"] + 1):
                    out.append((bx * i, by * j + off, bz * k))
        return out

    shist = {"t>0": 0, "t<0": 0, "t=0": 0, "wrap_beyond_half_box": 0}
    for case in range(60 * T):
        rng = c.rng.fork()
        n = rng.randint(2, 14)
        cfg = gen_common(rng, n)
        L = cfg["scale"] * rng.uniform(4, 12)
        cfg.update(boundary="shear", ngx=rng.randint(1, 2), ngy=rng.randint(0, 2), ngz=0, soft=cfg["scale"] * rng.choice([0.0, 0.01, 0.3]))
        cfg["OMEGA"] = rng.choice([1.0, rng.loguniform(0.1, 10.0)])
        tk = rng.randint(0, 9)
        period = 1.0 / (1.5 * cfg["OMEGA"])          # time for column i=1 to drift by one box (Lx = Ly)
        cfg["t"] = 0.0 if tk == 0 else (-1.0 if tk >= 8 else 1.0) * period * rng.choice([rng.uniform(0, 0.5), rng.uniform(0.5, 1.0), rng.uniform(1.0, 40.0)])
        xs = gen_positions(rng, n, cfg["scale"], inside=L / 2)
        grav = "basic" if case % 3 else "tree"
        if grav == "tree":
            cfg.update(Na=-1, tp=0, ignore=0)
            if len(set(tuple(p) for p in xs)) != len(xs):
                continue
        sim = rebound.Simulation()
        sim.G = cfg["G"]; sim.softening = cfg["soft"]
        sim.gravity = grav
        sim.opening_angle2 = 0.0
        sim.ri_sei.OMEGA = cfg["OMEGA"]
        sim.configure_box(L)
        sim.boundary = "shear"
        sim.N_ghost_x, sim.N_ghost_y, sim.N_ghost_z = cfg["ngx"], cfg["ngy"], cfg["ngz"]
        cfg["bs"] = (sim.boxsize.x, sim.boxsize.y, sim.boxsize.z)
        for i in range(n):
            sim.add(m=cfg["ms"][i], x=xs[i][0], y=xs[i][1], z=xs[i][2])
        sim.N_active = cfg["Na"]; sim.testparticle_type = cfg["tp"]; sim.gravity_ignore = cfg["ignore"]
        sim.t = cfg["t"]
        if grav == "tree":
            clib.reb_simulation_update_tree(ctypes.byref(sim))
            clib.reb_simulation_update_tree_gravity_data(ctypes.byref(sim))
            if sim.N != n:
                continue
            xs = [[sim.particles[i].x, sim.particles[i].y, sim.particles[i].z] for i in range(n)]
            cfg["ms"] = [sim.particles[i].m for i in range(n)]
        calc(sim)
        got = read_acc(sim, n)
        na = n if cfg["Na"] == -1 else cfg["Na"]
        shist["t=0" if cfg["t"] == 0 else ("t>0" if cfg["t"] > 0 else "t<0")] += 1
        if cfg["t"] != 0:
            dims["time: shear ghost boxes at t != 0"] = dims.get("time: shear ghost boxes at t != 0", 0) + 1
        drift = abs(1.5 * cfg["OMEGA"] * cfg["bs"][0] * cfg["t"]) * cfg["ngx"]
        if math.fmod(abs(1.5 * cfg["OMEGA"] * cfg["bs"][0] * cfg["t"]), cfg["bs"][1]) > cfg["bs"][1] / 2:
            shist["wrap_beyond_half_box"] += 1
        poserr = 8 * EPS * (drift + 2 * cfg["bs"][1])
        pairs = (lambda k, j: k != j) if grav == "tree" else None
        want, mag = oracle_direct(cfg, xs, shear_lattice(cfg), pairs=pairs, poserr=poserr)
        note("shear-" + grav, cfg)
        if grav == "basic":
            _, magc = oracle_direct(cfg, xs, shear_lattice(cfg, True), pairs=pairs)
            add_line(["shear", n, na, cfg["tp"], cfg["ignore"], cfg["ngx"], cfg["ngy"], cfg["ngz"], d2h(cfg["G"]), d2h(cfg["soft"]),
                      d2h(cfg["bs"][0]), d2h(cfg["bs"][1]), d2h(cfg["bs"][2]), d2h(cfg["OMEGA"]), d2h(cfg["t"])] + body_tokens(cfg["ms"], xs),
                     got, ("shear", cfg, xs, magc))
        q, kq = cmp_acc(got, want, mag)
        if cfg["t"] >= 0:
            worst["shear-" + grav] = max(worst.get("shear-" + grav, 0.0), q if q != float("inf") else 1e300)
        if q > 1.0:
            rep = dict(routine="shear-" + grav, cfg=dict(cfg), xs=xs, particle=kq, got=got[kq], want=want[kq], excess=q)
            key = "shear-" + grav
            if cfg["t"] < 0:
                # does the code at least sum over its own (not nearest-image) lattice?  then it is the negative-time finding
                want2, mag2 = oracle_direct(cfg, xs, shear_lattice(cfg, True), pairs=pairs, poserr=poserr)
                if cmp_acc(got, want2, mag2)[0] <= 1.0:
                    key = "FC02b:shear-negative-t-not-nearest-image"
            viol.append((key, "%s gravity with shear-periodic ghost boxes at t=%g: acceleration of particle %d differs from the sum over the sheared nearest-image lattice by %.3g x tolerance "
                         "(N=%d N_ghost=(%d,%d) OMEGA=%g)" % (grav, cfg["t"], kq, q, n, cfg["ngx"], cfg["ngy"], cfg["OMEGA"]), rep))
        if na == n and cfg["ignore"] == 0:
            third_law("shear-" + grav, cfg, xs, got, mag, torque=False)
    c.cov["shear_histogram"] = shist

    # ======================================================================= COMPENSATED
    for case in range(120 * T):
        rng = c.rng.fork()
        n = gen_N(rng)
        cfg = gen_common(rng, n)
        xs = gen_positions(rng, n, cfg["scale"])
        sim = new_sim(cfg, xs, gravity="compensated")
        calc(sim)
        got = read_acc(sim, n)
        na = n if cfg["Na"] == -1 else cfg["Na"]
        add_line(["comp", n, na, cfg["tp"], cfg["ignore"], d2h(cfg["G"]), d2h(cfg["soft"])] + body_tokens(cfg["ms"], xs), got, ("comp", cfg, xs))
        note("comp", cfg)
        want, mag = oracle_direct(cfg, xs, [(0.0, 0.0, 0.0)])
        check_oracle("comp", cfg, xs, got, want, mag)
        if na == n and cfg["ignore"] == 0:
            third_law("comp", cfg, xs, got, mag)
        # compensated vs basic on the same input (exact-arithmetic theorem c02_compensated_eq_basic)
        sim.gravity = "basic"
        calc(sim)
        gb_ = read_acc(sim, n)
        q, k = cmp_acc(got, gb_, mag)
        worst["comp-vs-basic"] = max(worst.get("comp-vs-basic", 0.0), q)
        if q > 1.0:
            viol.append(("comp-vs-basic", "COMPENSATED and BASIC differ beyond rounding on particle %d (N=%d N_active=%d type=%d ignore=%d)" % (k, n, cfg["Na"], cfg["tp"], cfg["ignore"]),
                         dict(cfg=cfg, xs=xs, particle=k, comp=got[k], basic=gb_[k])))


    # ======================================================================= JACOBI
    def oracle_jacobi(cfg, xs):
        n, G, ms = cfg["N"], cfg["G"], cfg["ms"]
        naj = n if cfg["Na"] == -1 else cfg["Na"]
        R, M, Q, Qcond = [], [], [], []
        for j in range(n):
            Mj = math.fsum(ms[:j])
            Rj = [math.fsum(ms[k] * xs[k][c_] for k in range(j)) for c_ in range(3)]
            M.append(Mj)
            Q.append([xs[j][c_] - Rj[c_] / Mj for c_ in range(3)] if j > 1 else None)
            # Q_j = x_j - R_j/M_j is a difference: its relative rounding error is (|x_j| + j |R_j/M_j|)/|Q_j| ulps, and enters as Q/|Q|^3
            if j > 1:
                nx_ = math.sqrt(sum(v * v for v in xs[j])) + (j + 1) * math.sqrt(sum((math.fsum(abs(ms[k] * xs[k][c_]) for k in range(j)) / Mj) ** 2 for c_ in range(3)))
                Qcond.append(1.0 + 3.0 * nx_ / math.sqrt(sum(v * v for v in Q[j])))
            else:
                Qcond.append(1.0)
        out, mag = [], []
        for i in range(n):
            t = [[], [], []]; ta = []
            for j in range(n):
                # direct term: every pair with at least one active member (test particles do not see each other), minus {0,1}
                if j == i or {i, j} == {0, 1} or not (i < naj or j < naj):
                    continue
                d = [xs[i][c_] - xs[j][c_] for c_ in range(3)]
                r2 = d[0] * d[0] + d[1] * d[1] + d[2] * d[2]
                f = -G * ms[j] * r2 ** -1.5
                for c_ in range(3):
                    t[c_].append(f * d[c_])
                ta.append(abs(f) * math.sqrt(r2))
            for j in range(max(i, 1) + 1, n):
                q2 = Q[j][0] ** 2 + Q[j][1] ** 2 + Q[j][2] ** 2
                f = -G * ms[j] * q2 ** -1.5
                for c_ in range(3):
                    t[c_].append(f * Q[j][c_])
                ta.append(abs(f) * math.sqrt(q2) * Qcond[j])
            if i > 1:
                q2 = Q[i][0] ** 2 + Q[i][1] ** 2 + Q[i][2] ** 2
                f = G * M[i] * q2 ** -1.5
                for c_ in range(3):
                    t[c_].append(f * Q[i][c_])
                ta.append(abs(f) * math.sqrt(q2) * Qcond[i])
            out.append(tuple(math.fsum(v) for v in t))
            mag.append((math.fsum(ta), len(ta) + i))
        return out, mag

    for case in range(70 * T):
        rng = c.rng.fork()
        n = gen_N(rng, big_ok=False)
        cfg = gen_common(rng, n)
        cfg.update(tp=rng.randint(0, 1), ignore=1, soft=0.0)     # N_active varied: test particles do not attract each other
        if n:
            cfg["ms"][0] = max(cfg["ms"][0], 1e-300) if cfg["ms"][0] > 0 else rng.loguniform(1e-3, 1e3)
        xs = gen_positions(rng, n, cfg["scale"])
        sim = new_sim(cfg, xs, integrator="whfast", gravity="jacobi")
        sim.gravity_ignore = rng.randint(0, 2)   # the routine must not depend on it
        for i in range(n):   # stale accelerations must be overwritten
            sim.particles[i].ax = rng.normal(); sim.particles[i].ay = rng.normal(); sim.particles[i].az = rng.normal()
        calc(sim)
        got = read_acc(sim, n)
        want, mag = oracle_jacobi(cfg, xs)
        add_line(["jacobi", n, (n if cfg["Na"] == -1 else cfg["Na"]), d2h(cfg["G"])] + body_tokens(cfg["ms"], xs), got, ("jacobi", cfg, xs, mag))
        note("jacobi", cfg)
        check_oracle("jacobi", cfg, xs, got, want, mag)

    # the two ways WHFast computes the same kick: gravity=jacobi vs gravity=basic (+ Jacobi term in the interaction step)
    for case in range(25 * T):
        rng = c.rng.fork()
        n = rng.randint(2, 9)
        ms = [1.0] + [10 ** (-rng.uniform(2, 7)) if rng.chance(0.8) else 0.0 for _ in range(n - 1)]
        sims = []
        a0 = rng.uniform(0.5, 1.5)
        orb = [(a0 * 1.5 ** i * rng.uniform(0.95, 1.05), rng.uniform(0, 0.1), rng.uniform(0, 0.1), rng.uniform(0, 6.28), rng.uniform(0, 6.28), rng.uniform(0, 6.28)) for i in range(n - 1)]
        ntest = rng.randint(0, min(2, n - 2))
        tptype = rng.randint(0, 1)
        if ntest and tptype == 0:        # type 0: test particles are massless (BASIC ignores their mass, JACOBI does not)
            for i in range(n - ntest, n):
                ms[i] = 0.0
        dt = rng.uniform(0.005, 0.05)
        for grav in ("basic", "jacobi"):
            sim = rebound.Simulation()
            sim.integrator = "whfast"
            sim.gravity = grav
            sim.dt = dt
            sim.add(m=ms[0])
            for i in range(n - 1):
                a, e, inc, Om, om, f = orb[i]
                sim.add(m=ms[i + 1], a=a, e=e, inc=inc, Omega=Om, omega=om, f=f)
            if ntest:
                sim.N_active = n - ntest
                sim.testparticle_type = tptype
            sim.steps(3)
            sims.append(sim)
        errs = 0.0
        for i in range(n):
            p, q = sims[0].particles[i], sims[1].particles[i]
            for k_ in ("x", "y", "z", "vx", "vy", "vz"):
                errs = max(errs, abs(getattr(p, k_) - getattr(q, k_)))
        worst["whfast jacobi-vs-basic"] = max(worst.get("whfast jacobi-vs-basic", 0.0), errs / 1e-12)
        c.count(("jacobi-split", n, ntest, tptype, case % 7))
        hist["jacobi-split"] = hist.get("jacobi-split", 0) + 1
        if not errs <= 1e-12:
            viol.append(("jacobi-split" + (":tp%d" % tptype if ntest else ""), "WHFast with gravity=jacobi and gravity=basic disagree after 3 steps by %.3g (N=%d, %d test particles, type %d)" % (errs, n, ntest, tptype),
                         dict(ms=ms, orbits=orb, dt=dt, err=errs, ntest=ntest, testparticle_type=tptype)))

    # ======================================================================= cross-cutting dimensions
    def mk_plain(cfg, xs, gravity, vs=None, boxed=None):
        sim = rebound.Simulation()
        sim.G = cfg["G"]; sim.softening = cfg["soft"]
        sim.gravity = gravity
        if boxed:
            sim.opening_angle2 = 0.0
            sim.configure_box(boxed[0], boxed[1], boxed[2], boxed[3])
            sim.boundary = "open"
        for i in range(cfg["N"]):
            kw = dict(m=cfg["ms"][i], x=xs[i][0], y=xs[i][1], z=xs[i][2])
            if vs:
                kw.update(vx=vs[i][0], vy=vs[i][1], vz=vs[i][2])
            sim.add(**kw)
        sim.N_active = cfg["Na"]; sim.testparticle_type = cfg["tp"]; sim.gravity_ignore = cfg["ignore"]
        return sim

    def tree_ready(sim):
        clib.reb_simulation_update_tree(ctypes.byref(sim))
        clib.reb_simulation_update_tree_gravity_data(ctypes.byref(sim))

    def expect_direct(tag, cfg, xs, got, pairs=None, extra=None):
        want, mag = oracle_direct(cfg, xs, [(0.0, 0.0, 0.0)], pairs=pairs)
        if extra:
            want = [tuple(w[c_] + extra[k][c_] for c_ in range(3)) for k, w in enumerate(want)]
            mag = [(m_[0] + max(abs(v) for v in extra[k]), m_[1] + 1) for k, m_ in enumerate(mag)]
        q, kq = cmp_acc(got, want, mag)
        worst[tag] = max(worst.get(tag, 0.0), q if q != float("inf") else 1e300)
        if q > 1.0:
            viol.append((tag, "%s: acceleration of particle %d differs from the declarative pairwise sum by %.3g x tolerance (N=%d N_active=%d type=%d ignore=%d)"
                         % (tag, kq, q, cfg["N"], cfg["Na"], cfg["tp"], cfg["ignore"]), dict(cfg=cfg, xs=xs, particle=kq, got=got[kq], want=want[kq])))
        return want, mag

    import tempfile, pickle
    for case in range(24 * T):
        rng = c.rng.fork()
        n = rng.randint(2, 9)
        cfg = gen_common(rng, n)
        xs = gen_positions(rng, n, cfg["scale"])
        vs = [[rng.normal() for _ in range(3)] for _ in range(n)]
        grav = ["basic", "compensated", "jacobi", "tree"][case % 4]
        if grav == "jacobi":
            cfg.update(ignore=1, soft=0.0)
            cfg["ms"][0] = cfg["ms"][0] if cfg["ms"][0] > 0 else 1.0
        boxed = None
        if grav == "tree":
            cfg.update(Na=-1, tp=0, ignore=0)
            L = cfg["scale"] * 10
            boxed = (L, rng.choice([1, 2, 3]), rng.choice([1, 2]), 1)
            xs = [[max(-0.45 * L, min(0.45 * L, v)) for v in p] for p in xs]
            if len(set(tuple(p) for p in xs)) != n:
                continue
        na = n if cfg["Na"] == -1 else cfg["Na"]

        def oracle_for(cfg_, xs_):
            if grav == "jacobi":
                return oracle_jacobi(cfg_, xs_)
            return oracle_direct(cfg_, xs_, [(0.0, 0.0, 0.0)], pairs=(lambda k, j: k != j) if grav == "tree" else None)

        def check(tag, got, cfg_, xs_, extra=None):
            want, mag = oracle_for(cfg_, xs_)
            if extra:
                want = [tuple(w[c_] + extra[k][c_] for c_ in range(3)) for k, w in enumerate(want)]
                mag = [(m_[0] + max(abs(v) for v in extra[k]), m_[1] + 1) for k, m_ in enumerate(mag)]
            q, kq = cmp_acc(got, want, mag)
            worst[tag] = max(worst.get(tag, 0.0), q if q != float("inf") else 1e300)
            if q > 1.0:
                viol.append((tag + ":" + grav, "%s (%s): acceleration of particle %d differs from the declarative pairwise sum by %.3g x tolerance (N=%d N_active=%d type=%d ignore=%d)"
                             % (tag, grav, kq, q, cfg_["N"], cfg_["Na"], cfg_["tp"], cfg_["ignore"]), dict(cfg=cfg_, xs=xs_, gravity=grav, particle=kq, got=got[kq], want=want[kq])))

        # ---- (2) variational particles with NON-ZERO data present: the forces on the real particles must not see them
        sim = mk_plain(cfg, xs, grav, vs, boxed)
        if grav == "jacobi":
            sim.integrator = "whfast"
        try:
            if grav in ("tree", "jacobi"):   # reb_calculate_acceleration_var exits ("not yet implemented") for every routine but BASIC / COMPENSATED
                raise RuntimeError("unsupported")
            var1 = sim.add_variation()
            var2 = sim.add_variation(order=2, first_order=var1) if case % 3 == 0 else None
            if case % 5 == 0 and na < n:
                sim.add_variation(testparticle=n - 1)
            for i in range(n, sim.N):
                pv = sim.particles[i]
                pv.m = rng.uniform(0.1, 1.0); pv.x, pv.y, pv.z = rng.normal(), rng.normal(), rng.normal()
                pv.vx, pv.vy, pv.vz = rng.normal(), rng.normal(), rng.normal()
            if grav == "tree":
                tree_ready(sim)
            calc(sim)
            check("dim:variational-present", read_acc(sim, n), cfg, xs)
            dim("variational: 1st order non-zero data present")
            if var2 is not None:
                dim("variational: 2nd order present")
        except Exception as ex:
            if grav not in ("tree", "jacobi"):
                viol.append(("dim:variational:crash:" + grav, "force evaluation with variational particles raised %r" % (ex,), dict(cfg=cfg, xs=xs, gravity=grav)))

        # ---- (5) additional_forces callback: update_acceleration = gravity + what the callback adds
        sim = mk_plain(cfg, xs, grav, vs, boxed)
        if grav == "jacobi":
            sim.integrator = "whfast"
        extra = [(rng.normal(), rng.normal(), rng.normal()) for _ in range(n)]

        def af(simp, _extra=extra):
            ps_ = simp.contents.particles
            for i_ in range(len(_extra)):
                ps_[i_].ax += _extra[i_][0]; ps_[i_].ay += _extra[i_][1]; ps_[i_].az += _extra[i_][2]
        sim.additional_forces = af
        if case % 2:
            sim.force_is_velocity_dependent = 1
        if grav == "tree":
            tree_ready(sim)
        clib.reb_simulation_update_acceleration(ctypes.byref(sim))
        check("dim:additional_forces", read_acc(sim, n), cfg, xs, extra=extra)
        dim("callbacks: additional_forces adds to the routine's result")

        # ---- (6) restore: copy / file / pickle, then evaluate the force on the restored simulation
        sim = mk_plain(cfg, xs, grav, vs, boxed)
        if grav == "jacobi":
            sim.integrator = "whfast"
        how = ["copy", "file", "pickle"][case % 3]
        if how == "copy":
            sim2 = sim.copy()
        elif how == "pickle":
            sim2 = pickle.loads(pickle.dumps(sim))
        else:
            fn_ = os.path.join(tempfile.gettempdir(), "c02_%d_%d.bin" % (os.getpid(), case))
            sim.save_to_file(fn_, delete_file=True)
            sim2 = rebound.Simulation(fn_)
            os.remove(fn_)
        if grav == "tree":
            tree_ready(sim2)
        calc(sim2)
        check("dim:restore-" + how, read_acc(sim2, n), cfg, xs)
        dim("histories: force after restore (%s)" % how)

        # ---- (6) a particle removed, then force (tree must be rebuilt around the hole)
        if n >= 3:
            sim = mk_plain(cfg, xs, grav, vs, boxed)
            if grav == "jacobi":
                sim.integrator = "whfast"
            kill = rng.randint(1, n - 1)
            sim.remove(kill, keep_sorted=(grav != "tree"))
            if grav == "tree":
                tree_ready(sim)
            m_ = sim.N
            xs2 = [[sim.particles[i].x, sim.particles[i].y, sim.particles[i].z] for i in range(m_)]
            cfg2 = dict(cfg); cfg2["N"] = m_; cfg2["ms"] = [sim.particles[i].m for i in range(m_)]
            cfg2["Na"] = sim.N_active
            if m_ == n - 1 and (cfg2["Na"] == -1 or 1 <= cfg2["Na"] <= m_):
                calc(sim)
                check("dim:after-remove", read_acc(sim, m_), cfg2, xs2)
                dim("histories: force after a particle was removed")

        # ---- (7) system far from the origin (centre of mass away): translation invariance of the force
        if grav != "tree":
            sim = mk_plain(cfg, [[p[0] + 1e3 * cfg["scale"], p[1] - 3e2 * cfg["scale"], p[2]] for p in xs], grav, vs, None)
            if grav == "jacobi":
                sim.integrator = "whfast"
            calc(sim)
            xs3 = [[sim.particles[i].x, sim.particles[i].y, sim.particles[i].z] for i in range(n)]
            check("dim:offset-origin", read_acc(sim, n), cfg, xs3)
            dim("geometry: centre of mass far from the origin")

    # ---- (7) tree: non-square root layouts and particles exactly on cell faces / root-box boundaries
    for case in range(8 * T):
        rng = c.rng.fork()
        L = rng.choice([1.0, 8.0])
        lay = rng.choice([(2, 1, 1), (1, 3, 1), (2, 2, 1), (3, 2, 1), (1, 1, 2)])
        grid = [-0.5, -0.25, 0.0, 0.25, 0.5]
        n = rng.randint(3, 10)
        xs, seen = [], set()
        for _ in range(n):
            for _try in range(20):
                p = [L * lay[c_] * (rng.choice(grid) * 0.98 if rng.chance(0.7) else rng.uniform(-0.49, 0.49)) for c_ in range(3)]
                p = [L * round(v / L * 4) / 4 if rng.chance(0.5) else v for v in p]      # exactly on faces of cells of size L/4 ... L
                p = [max(-0.5 * L * lay[c_], min(0.5 * L * lay[c_], v)) * (1 - 1e-12) for c_, v in enumerate(p)]
                if tuple(p) not in seen:
                    seen.add(tuple(p)); xs.append(p); break
        n = len(xs)
        cfg = dict(N=n, Na=-1, tp=0, ignore=0, G=rng.choice([1.0, 4.3]), soft=rng.choice([0.0, 0.05 * L]), ms=[rng.choice([0.0, 1.0, 1e-3]) for _ in range(n)], mkind=9, scale=L)
        sim = rebound.Simulation()
        sim.G = cfg["G"]; sim.softening = cfg["soft"]; sim.gravity = "tree"; sim.opening_angle2 = 0.0
        sim.configure_box(L, lay[0], lay[1], lay[2])
        sim.boundary = "open"
        try:
            for i in range(n):
                sim.add(m=cfg["ms"][i], x=xs[i][0], y=xs[i][1], z=xs[i][2])
        except Exception:
            continue
        tree_ready(sim)
        if sim.N != n:
            continue
        xs = [[sim.particles[i].x, sim.particles[i].y, sim.particles[i].z] for i in range(n)]
        cfg["ms"] = [sim.particles[i].m for i in range(n)]
        calc(sim)
        expect_direct("dim:tree-faces-layout", cfg, xs, read_acc(sim, n), pairs=lambda k, j: k != j)
        dim("geometry: tree, non-square root layout, particles on cell faces")

    # ---- (9) scale: COMPENSATED work array grown across an allocation (N_allocated_gravity_cs), N around 128
    for nbig in ([130] if not c.thorough else [127, 128, 129, 200, 1030]):
        rng = c.rng.fork()
        cfg = gen_common(rng, nbig)
        cfg.update(Na=-1, ignore=0)
        xs = gen_positions(rng, nbig, cfg["scale"])
        sim = mk_plain(dict(cfg, N=3), xs[:3], "compensated")
        calc(sim)                              # allocates gravity_cs for 3 particles
        for i in range(3, nbig):
            sim.add(m=cfg["ms"][i], x=xs[i][0], y=xs[i][1], z=xs[i][2])
        calc(sim)
        expect_direct("dim:grow-gravity_cs", cfg, xs, read_acc(sim, nbig))
        dim("scale: work arrays grown across an allocation (N=%d)" % nbig)
    for (_, cfg_m, _) in [(0, 0, 0)]:
        pass
    dim("histories: force right after an integrator switch", 0)
    dim("time: shear ghost boxes at t != 0", 0)
    dim("histories: TREE force after the particle array changed under the tree (mass edit / transfer / removal)", 0)
    dim("roles: non-identity encounter map (MERCURIUS/TRACE)", 0)

    # ======================================================================= pairwise conjunctions (greedy all-pairs covering array)
    from c02_pairs import covering_array, triples_array, PairLog
    PF = {
        "routine": ["basic", "compensated", "jacobi", "tree"],
        "bnd": ["none", "periodic", "open", "shear"],
        "roles": ["all-active", "one-active", "massive-tp", "massless-tp", "zero-mass-active"],
        "tp": [0, 1],
        "ignore": [0, 1, 2],
        "soft": ["0", "small", "large"],
        "G": ["1", "other"],
        "nclass": ["2", "3-6", "7-20"],
        # "edit-mass": ONLY the mass of a particle that is already in the simulation (and, for TREE, already in its leaf) changes;
        # "edit": mass, position and softening change together
        "h1": ["none", "copy", "file", "pickle", "remove", "add", "whfast-step", "edit", "edit-mass"],
        "h2": ["none", "copy", "file", "pickle", "remove", "add", "whfast-step", "edit", "edit-mass"],
        "entry": ["calculate_acceleration", "update_acceleration", "step"],
        "var": ["none", "first", "second"],
        "cb": ["none", "additional_forces"],
    }

    def pf_ok(f):
        r = f["routine"]
        # COMPENSATED and JACOBI have no ghost-box loop (the source ignores N_ghost / boundaries there)
        if r in ("compensated", "jacobi") and f["bnd"] != "none":
            return False
        # JACOBI ignores softening, gravity_ignore_terms and testparticle_type (fixed pair {0,1} exclusion, no softening)
        if r == "jacobi" and (f["soft"] != "0" or f["ignore"] != 1 or f["roles"] == "zero-mass-active"):
            return False
        # gravity_ignore_terms is not read by the tree walk; tree needs a box (bnd none has no box)
        if r == "tree" and (f["ignore"] != 0 or f["bnd"] == "none"):
            return False
        # variational particles: reb_calculate_acceleration_var exits for everything but BASIC / COMPENSATED; no boxes (var particles live outside)
        if f["var"] != "none" and (r not in ("basic", "compensated") or f["bnd"] != "none" or "remove" in (f["h1"], f["h2"]) or "add" in (f["h1"], f["h2"])):
            return False
        # "testparticletype=1 not implemented for second order variational equations" (reb_calculate_acceleration_var raises)
        if f["var"] == "second" and f["tp"] == 1:
            return False
        # a WHFast step needs a bound hierarchical system and Jacobi masses: only without boxes, all-active layouts
        if "whfast-step" in (f["h1"], f["h2"]) and (f["bnd"] != "none" or f["roles"] in ("one-active", "zero-mass-active") or r == "tree" or f["var"] != "none"):
            return False
        # with n = 2 nothing can be removed without leaving a single particle for the pair-ignoring routines
        if f["nclass"] == "2" and "remove" in (f["h1"], f["h2"]):
            return False
        # the JACOBI routine warns (Python raises) when stepped with an integrator other than WHFast/SABA
        if r == "jacobi" and f["entry"] == "step":
            return False
        # reb_simulation_step runs boundary checks that remove particles outside the box: keep box + step + add apart from shear drift
        if f["entry"] == "step" and f["bnd"] == "shear":
            return False
        # the callback is only reached through update_acceleration / step
        if f["cb"] != "none" and f["entry"] == "calculate_acceleration":
            return False
        return True

    rngp = SplitMix(20240 + 7 * c.seed)
    arr, pvalid, pexcl = covering_array(PF, pf_ok, SplitMix(4711))          # the array itself does not depend on the seed
    if c.thorough:
        arr = arr + triples_array(PF, pf_ok, SplitMix(4712), ("routine", "roles", "bnd"), arr) + triples_array(PF, pf_ok, SplitMix(4713), ("routine", "h1", "h2"), arr)
        todo_cases = arr
    else:
        todo_cases = arr      # the whole array in every run (the cases are tiny): every admissible pair with every seed
    plog = PairLog(PF, pvalid, pexcl)
    pw_fail = 0
    for pi, f in enumerate(todo_cases):
        rng = c.rng.fork()
        try:
            n = {"2": 2, "3-6": rng.randint(3, 6), "7-20": rng.randint(7, 20)}[f["nclass"]]
            scale = rng.loguniform(1e-1, 1e1)
            m0 = rng.loguniform(1e-2, 1e2)
            ms = [m0] + [m0 * 10 ** (-rng.uniform(0, 6)) for _ in range(n - 1)]
            if f["roles"] == "all-active":
                na = -1
            elif f["roles"] == "one-active":
                na = 1
            else:
                na = rng.randint(1, n - 1) if n > 2 else 1
                if f["roles"] == "massless-tp":
                    for i in range(na, n):
                        ms[i] = 0.0
                if f["roles"] == "zero-mass-active":
                    ms[rng.randint(0, na - 1)] = 0.0
                    if na == 1:
                        ms[0] = 0.0
            G = 1.0 if f["G"] == "1" else rng.choice([6.6743e-11, 39.476926421373, rng.loguniform(1e-2, 1e2)])
            soft = {"0": 0.0, "small": scale * 1e-6, "large": scale * rng.uniform(0.05, 2.0)}[f["soft"]]
            cfg = dict(N=n, Na=na, tp=f["tp"], ignore=f["ignore"], G=G, soft=soft, ms=ms, mkind=7, scale=scale)
            Lbox = scale * rng.uniform(6, 10)
            whstep = "whfast-step" in (f["h1"], f["h2"])
            if whstep:
                # a hierarchical planetary system (positions/velocities from orbits) so that one WHFast step is harmless
                sim0 = rebound.Simulation(); sim0.G = G
                sim0.add(m=ms[0])
                for i in range(1, n):
                    sim0.add(m=ms[i], a=scale * 1.5 ** (i - 1), e=0.02, inc=0.02 * i, f=rng.uniform(0, 6.28))
                xs = [[sim0.particles[i].x, sim0.particles[i].y, sim0.particles[i].z] for i in range(n)]
                vs = [[sim0.particles[i].vx, sim0.particles[i].vy, sim0.particles[i].vz] for i in range(n)]
            else:
                xs = gen_positions(rng, n, scale, inside=(Lbox / 2 if f["bnd"] != "none" else None))
                vs = [[rng.normal(), rng.normal(), rng.normal()] for _ in range(n)]
            grav = f["routine"]
            sim = rebound.Simulation()
            sim.G = G; sim.softening = soft
            sim.gravity = grav
            if grav == "jacobi":
                sim.integrator = "whfast"
            if f["bnd"] != "none":
                sim.opening_angle2 = 0.0
                sim.configure_box(Lbox, rng.choice([1, 2]) if grav == "tree" else 1, 1, 1)
                sim.boundary = f["bnd"]
                gxs = (rng.randint(1, 2), rng.randint(0, 1), 0) if f["bnd"] == "shear" else (rng.randint(0, 1), rng.randint(0, 1), rng.randint(0, 1))
                sim.N_ghost_x, sim.N_ghost_y, sim.N_ghost_z = gxs
                cfg.update(boundary=f["bnd"], shifted=1, ngx=gxs[0], ngy=gxs[1], ngz=gxs[2], bs=(sim.boxsize.x, sim.boxsize.y, sim.boxsize.z))
                if f["bnd"] == "shear":
                    cfg["OMEGA"] = rng.choice([1.0, 2.5]); cfg["t"] = rng.uniform(0.1, 30.0) / (1.5 * cfg["OMEGA"])
                    sim.ri_sei.OMEGA = cfg["OMEGA"]; sim.t = cfg["t"]
                if grav == "tree":
                    xs = [[max(-0.49 * cfg["bs"][c_], min(0.49 * cfg["bs"][c_], p[c_])) for c_ in range(3)] for p in xs]
            for i in range(n):
                sim.add(m=ms[i], x=xs[i][0], y=xs[i][1], z=xs[i][2], vx=vs[i][0], vy=vs[i][1], vz=vs[i][2])
            sim.N_active = na; sim.testparticle_type = f["tp"]; sim.gravity_ignore = f["ignore"]
            if f["var"] != "none":
                v1 = sim.add_variation()
                if f["var"] == "second":
                    sim.add_variation(order=2, first_order=v1)
                for i in range(n, sim.N):
                    pv = sim.particles[i]
                    pv.m = rng.uniform(0.1, 1.0); pv.x, pv.y, pv.z = rng.normal(), rng.normal(), rng.normal()
                    pv.vx, pv.vy, pv.vz = rng.normal(), rng.normal(), rng.normal()
            extra = None
            # ---- the two history events, in this order (event adjacency)
            for ev in (f["h1"], f["h2"]):
                if ev == "copy":
                    sim = sim.copy()
                elif ev == "pickle":
                    sim = pickle.loads(pickle.dumps(sim))
                elif ev == "file":
                    fn_ = os.path.join(tempfile.gettempdir(), "c02p_%d_%d.bin" % (os.getpid(), pi))
                    sim.save_to_file(fn_, delete_file=True)
                    sim = rebound.Simulation(fn_)
                    os.remove(fn_)
                elif ev == "remove":
                    nr_ = sim.N - sim.N_var
                    if nr_ >= 3:
                        sim.remove(rng.randint(1, nr_ - 1), keep_sorted=(grav != "tree"))
                elif ev == "add":
                    nr_ = sim.N - sim.N_var
                    pnew = [rng.normal() * scale * 0.3 for _ in range(3)]
                    if f["bnd"] != "none":
                        pnew = [max(-0.45 * cfg["bs"][c_], min(0.45 * cfg["bs"][c_], pnew[c_])) for c_ in range(3)]
                    sim.add(m=m0 * 1e-3, x=pnew[0] + 0.013 * scale, y=pnew[1], z=pnew[2])
                elif ev == "edit":
                    k_ = rng.randint(0, sim.N - sim.N_var - 1)
                    sim.particles[k_].m = sim.particles[k_].m * 1.7 + (m0 * 1e-4 if f["roles"] != "massless-tp" or k_ < (n if na == -1 else na) else 0.0)
                    sim.particles[k_].x += 0.01 * scale
                    sim.softening = sim.softening * 1.3
                elif ev == "edit-mass":
                    nz_ = [i_ for i_ in range(sim.N - sim.N_var) if sim.particles[i_].m != 0.0]       # zero masses keep their role
                    if nz_:
                        k_ = rng.choice(nz_)
                        sim.particles[k_].m = sim.particles[k_].m * rng.choice([0.25, 3.0])
                elif ev == "whfast-step":
                    g_keep = sim.gravity
                    sim.integrator = "whfast"; sim.dt = 1e-3 * math.sqrt(scale ** 3 / (G * m0)) if G * m0 > 0 else 1e-3
                    sim.steps(1); sim.synchronize()
                    sim.gravity = g_keep
            # ---- state after the history = the specification's input
            if grav == "tree":
                tree_ready(sim)          # a removal in tree mode only flags the particle; the tree update drops it
            nr_ = sim.N - sim.N_var
            cfg["N"] = nr_
            cfg["ms"] = [sim.particles[i].m for i in range(nr_)]
            cfg["Na"] = sim.N_active
            cfg["ignore"] = int(sim.gravity_ignore)
            cfg["soft"] = sim.softening
            if grav == "jacobi" and cfg["ignore"] != 1:
                cfg["ignore"] = 1
            if f["cb"] != "none":
                extra = [(rng.normal(), rng.normal(), rng.normal()) for _ in range(nr_)]

                def af(simp, _extra=extra):
                    ps_ = simp.contents.particles
                    for i_ in range(len(_extra)):
                        ps_[i_].ax += _extra[i_][0]; ps_[i_].ay += _extra[i_][1]; ps_[i_].az += _extra[i_][2]
                sim.additional_forces = af
            if grav == "tree":
                tree_ready(sim)
                if sim.N - sim.N_var != nr_:
                    continue
            if f["entry"] == "calculate_acceleration":
                calc(sim)
            elif f["entry"] == "update_acceleration":
                clib.reb_simulation_update_acceleration(ctypes.byref(sim))
            else:
                sim.integrator = "none"; sim.dt = 0.0
                sim.steps(1)
                if sim.N - sim.N_var != nr_:
                    continue
            xs2 = [[sim.particles[i].x, sim.particles[i].y, sim.particles[i].z] for i in range(nr_)]
            got = read_acc(sim, nr_)
            if grav == "tree":      # update_tree may have re-ordered
                cfg["ms"] = [sim.particles[i].m for i in range(nr_)]
            # ---- oracle
            if f["bnd"] == "shear":
                gh = shear_lattice(cfg)
                poserr = 8 * EPS * (abs(1.5 * cfg["OMEGA"] * cfg["bs"][0] * cfg["t"]) * cfg["ngx"] + 2 * cfg["bs"][1])
            else:
                gh = ghost_shifts(cfg) if f["bnd"] != "none" else [(0.0, 0.0, 0.0)]
                poserr = 0.0
            nar_ = nr_ if cfg["Na"] == -1 else cfg["Na"]
            if grav == "jacobi":
                want, mag = oracle_jacobi(cfg, xs2)
            else:
                want, mag = oracle_direct(cfg, xs2, gh, poserr=poserr)
            treeall = None
            if grav == "tree" and nar_ < nr_:
                treeall = oracle_direct(cfg, xs2, gh, pairs=lambda k, j: k != j, poserr=poserr)
            if extra and f["entry"] != "calculate_acceleration":
                want = [tuple(w[c_] + extra[k][c_] for c_ in range(3)) for k, w in enumerate(want)]
                mag = [(m_[0] + max(abs(v) for v in extra[k]), m_[1] + 1) for k, m_ in enumerate(mag)]
                if treeall:
                    treeall = ([tuple(w[c_] + extra[k][c_] for c_ in range(3)) for k, w in enumerate(treeall[0])], [(m_[0] + max(abs(v) for v in extra[k]), m_[1] + 1) for k, m_ in enumerate(treeall[1])])
            q, kq = cmp_acc(got, want, mag)
            plog.add(f)
            c.count(("pairwise", pi, c.seed if not c.thorough else 0))
            hist["pairwise"] = hist.get("pairwise", 0) + 1
            if q > 1.0:
                key = "pairwise:" + grav
                if treeall and cmp_acc(got, treeall[0], treeall[1])[0] <= 1.0:
                    key = "FC02d:tree-ignores-N_active"
                else:
                    pw_fail += 1
                viol.append((key, "%s via %s after (%s, %s), boundary %s, roles %s (N=%d N_active=%d type=%d ignore=%d, var=%s, cb=%s): acceleration of particle %d differs from the declarative "
                             "pairwise sum by %.3g x tolerance" % (grav, f["entry"], f["h1"], f["h2"], f["bnd"], f["roles"], nr_, cfg["Na"], cfg["tp"], cfg["ignore"], f["var"], f["cb"], kq, q),
                             dict(factors=f, cfg=cfg, xs=xs2, particle=kq, got=got[kq], want=want[kq])))
            worst["pairwise:" + grav] = max(worst.get("pairwise:" + grav, 0.0), q if (q != float("inf") and not (treeall and q > 1.0)) else 0.0)
            # ---- and into the model tie when the model has the notion
            if f["entry"] == "calculate_acceleration" and f["cb"] == "none" and grav in ("basic", "compensated", "jacobi"):
                if grav == "basic" and f["bnd"] in ("none", "periodic", "open"):
                    bs_ = cfg.get("bs", (0.0, 0.0, 0.0))
                    add_line(["basic", nr_, nar_, cfg["tp"], cfg["ignore"], 1 if f["bnd"] != "none" else 0, cfg.get("ngx", 0), cfg.get("ngy", 0), cfg.get("ngz", 0), d2h(G), d2h(cfg["soft"]),
                              d2h(bs_[0]), d2h(bs_[1]), d2h(bs_[2])] + body_tokens(cfg["ms"], xs2), got, ("basic", dict(cfg, ngx=cfg.get("ngx", 0), ngy=cfg.get("ngy", 0), ngz=cfg.get("ngz", 0), shifted=1 if f["bnd"] != "none" else 0, bs=bs_), xs2, mag))
                elif grav == "basic" and f["bnd"] == "shear":
                    add_line(["shear", nr_, nar_, cfg["tp"], cfg["ignore"], cfg["ngx"], cfg["ngy"], cfg["ngz"], d2h(G), d2h(cfg["soft"]), d2h(cfg["bs"][0]), d2h(cfg["bs"][1]), d2h(cfg["bs"][2]),
                              d2h(cfg["OMEGA"]), d2h(cfg["t"])] + body_tokens(cfg["ms"], xs2), got, ("shear", cfg, xs2, mag))
                elif grav == "compensated":
                    add_line(["comp", nr_, nar_, cfg["tp"], cfg["ignore"], d2h(G), d2h(cfg["soft"])] + body_tokens(cfg["ms"], xs2), got, ("comp", cfg, xs2, mag))
                elif grav == "jacobi":
                    add_line(["jacobi", nr_, nar_, d2h(G)] + body_tokens(cfg["ms"], xs2), got, ("jacobi", cfg, xs2, mag))
        except Exception as ex:
            viol.append(("pairwise:crash", "pairwise case %r raised %r" % (f, ex), dict(factors=f)))
    # factor log of the encounter routines (MERCURIUS mode 0/1, TRACE interaction/Kepler): filled by their blocks below
    EF = {"routine": ["mercurius", "trace"], "weight": ["mercury", "C4", "C5", "infinity", "Ks=0", "Ks sparse", "Ks half", "Ks=1"],
          "map": ["identity", "subset", "star only"], "roles": ["all-active", "one-active", "mid"], "tp": [0, 1], "soft": ["0", "!=0"], "nclass": ["1-2", "3-6", "7+"]}

    def ef_ok(f):
        # the changeover function exists only for MERCURIUS, the current_Ks mask only for TRACE
        if (f["routine"] == "mercurius") != (f["weight"] in ("mercury", "C4", "C5", "infinity")):
            return False
        # with one or two particles there is neither a proper subset map nor a middle N_active
        if f["nclass"] == "1-2" and (f["map"] == "subset" or f["roles"] == "mid"):
            return False
        return True
    from c02_pairs import valid_pairs
    ev_, ex_ = valid_pairs(EF, ef_ok, SplitMix(99))
    elog = PairLog(EF, ev_, ex_)

    def enc_factors(routine, weight, mp, n, cfg):
        na_ = n if cfg["Na"] == -1 else cfg["Na"]
        return dict(routine=routine, weight=weight, map=("identity" if len(mp) == n else ("star only" if len(mp) == 1 else "subset")),
                    roles=("all-active" if na_ == n else ("one-active" if na_ == 1 else "mid")), tp=cfg["tp"], soft=("0" if cfg["soft"] == 0 else "!=0"),
                    nclass=("1-2" if n <= 2 else ("3-6" if n <= 6 else "7+")))
    prep = plog.report()
    prep["factors"] = {k_: len(v_) for k_, v_ in PF.items()}
    prep["array_size"] = len(arr)
    c.cov["pairs"] = prep
    if prep["covered"] < prep["total"]:
        c.broken.append("coverage: %d of %d admissible factor pairs were not evaluated, e.g. %s" % (prep["total"] - prep["covered"], prep["total"], prep["missing"][:3]))

    # ======================================================================= force after an integrator switch
    # "whichever routine is selected": gravity_ignore_terms left behind by one integrator must not leak into the next
    SWI = [("whfast", "jacobi", 1), ("whfast", "democraticheliocentric", 2), ("whfast", "whds", 2), ("saba", None, 1), ("eos", None, 2),
           ("ias15", None, 0), ("leapfrog", None, 0), ("bs", None, 0), ("janus", None, 0)]
    nsw = 0
    for ia, (inta, coa, _) in enumerate(SWI[:5]):
        for ib, (intb, cob, igb) in enumerate(SWI):
            if (inta, coa) == (intb, cob):
                continue
            rng = c.rng.fork()
            n = rng.randint(3, 6)
            ms = [1.0] + [10 ** (-rng.uniform(3, 5)) for _ in range(n - 1)]
            sim = rebound.Simulation()
            sim.add(m=ms[0])
            for i in range(1, n):
                sim.add(m=ms[i], a=1.6 ** (i - 1) * rng.uniform(0.97, 1.03), e=rng.uniform(0, 0.05), inc=rng.uniform(0, 0.05), f=rng.uniform(0, 6.28))
            sim.move_to_com()
            sim.dt = 0.05
            sim.integrator = inta
            sim.ri_whfast.coordinates = coa or "jacobi"
            sim.steps(2)
            sim.synchronize()
            sim.integrator = intb
            sim.ri_whfast.coordinates = cob or "jacobi"
            if intb == "janus":
                sim.ri_janus.scale_pos = 1e-15; sim.ri_janus.scale_vel = 1e-15
            sim.dt = 0.05
            try:
                sim.steps(1)
                sim.synchronize()
            except Exception as ex:
                viol.append(("switch:crash:%s->%s" % (inta, intb), "switching %s -> %s raised %r" % (inta, intb, ex), dict(first=[inta, coa], second=[intb, cob])))
                continue
            clib.reb_simulation_update_acceleration(ctypes.byref(sim))
            got = read_acc(sim, n)
            xs = [[sim.particles[i].x, sim.particles[i].y, sim.particles[i].z] for i in range(n)]
            cfg = dict(N=n, Na=-1, tp=0, ignore=igb, G=1.0, soft=0.0, ms=ms, mkind=0, scale=1.0)
            want, mag = oracle_direct(cfg, xs, [(0.0, 0.0, 0.0)])
            q, kq = cmp_acc(got, want, mag)
            nsw += 1
            dim("histories: force right after an integrator switch")
            c.count(("switch", inta, coa, intb, cob))
            hist["switch"] = hist.get("switch", 0) + 1
            if q > 1.0:
                key = "switch:%s%s->%s%s" % (inta, ":" + coa if coa else "", intb, ":" + cob if cob else "")
                if intb == "bs" and int(sim.gravity_ignore) != 0:
                    key = "FC02c:bs-keeps-gravity_ignore_terms"
                viol.append((key, "after %s%s -> %s%s on the same simulation the accelerations differ from the pairwise sum the running integrator needs "
                             "(gravity_ignore_terms=%d, expected %d): particle %d off by %.3g x tolerance" % (inta, "/" + coa if coa else "", intb, "/" + cob if cob else "", int(sim.gravity_ignore), igb, kq, q),
                             dict(first=[inta, coa], second=[intb, cob], ms=ms, xs=xs, gravity_ignore_terms=int(sim.gravity_ignore), expected=igb, particle=kq, got=got[kq], want=want[kq])))
    c.cov["integrator_switch_force_checks"] = nsw

    # ======================================================================= MERCURIUS (mode 0 / mode 1)
    LNAMES = ["mercury", "C4", "C5", "infinity"]

    def L_oracle(kind, d, dcrit):
        y = (d - 0.1 * dcrit) / (0.9 * dcrit)
        if y < 0:
            return 0.0
        if y > 1:
            return 1.0
        if kind == 0:
            return y ** 3 * (10.0 - 15.0 * y + 6.0 * y * y)
        if kind == 1:
            return y ** 5 * (126.0 + y * (-420.0 + y * (540.0 + y * (-315.0 + 70.0 * y))))
        if kind == 2:
            return y ** 6 * (462.0 + y * (-1980.0 + y * (3465.0 + y * (-3080.0 + y * (1386.0 - 252.0 * y)))))
        fy = math.exp(-1.0 / y) if y > 0 else 0.0
        f1 = math.exp(-1.0 / (1.0 - y)) if 1.0 - y > 0 else 0.0
        return fy / (fy + f1)

    NULLD = ctypes.POINTER(ctypes.c_double)()
    NULLI = ctypes.POINTER(ctypes.c_int)()
    Lhist = {"L=0": 0, "0<L<1": 0, "L=1": 0}

    def gen_enc(rng, cfg, full=False):
        n = cfg["N"]
        na = n if cfg["Na"] == -1 else cfg["Na"]
        if full:
            S = list(range(1, n))
        elif rng.chance(0.15):
            S = []                                   # nobody but the star is in the encounter set
        else:
            S = [i for i in range(1, n) if rng.chance(0.5)]
        mp = [0] + S
        encNa = len([i for i in mp if i < na])
        return mp, len(mp), encNa

    def star_term(cfg, xs, k):
        G, m0 = cfg["G"], cfg["ms"][0]
        x = xs[k]
        r2 = x[0] * x[0] + x[1] * x[1] + x[2] * x[2] + cfg["soft"] ** 2
        f = -G * m0 * r2 ** -1.5
        return (f * x[0], f * x[1], f * x[2]), abs(f) * math.sqrt(r2)

    for case in range(90 * T):
        rng = c.rng.fork()
        n = max(1, gen_N(rng, big_ok=False))
        cfg = gen_common(rng, n)
        cfg["ignore"] = 2
        xs = gen_positions(rng, n, cfg["scale"])
        xs[0] = [0.0, 0.0, 0.0] if rng.chance(0.7) else xs[0]
        kind = rng.randint(0, 3)
        dcrit = [cfg["scale"] * rng.loguniform(0.01, 30.0) for _ in range(n)]
        full = rng.chance(0.4)
        mp, encN, encNa = gen_enc(rng, cfg, full)
        sim = new_sim(cfg, xs, integrator="mercurius", gravity="mercurius")
        rim = sim.ri_mercurius
        rim.L = LNAMES[kind]
        dc = (ctypes.c_double * n)(*dcrit)
        em = (ctypes.c_int * n)(*(mp + [0] * (n - len(mp))))
        try:
            rim._dcrit = ctypes.cast(dc, ctypes.POINTER(ctypes.c_double))
            rim._N_allocated_dcrit = n
            rim._encounter_map = ctypes.cast(em, ctypes.POINTER(ctypes.c_int))
            rim._N_allocated = n
            rim.mode = 0
            calc(sim)
            got0 = read_acc(sim, n)
            init = [(rng.normal(), rng.normal(), rng.normal()) for _ in range(n)]
            for i in range(n):
                sim.particles[i].ax, sim.particles[i].ay, sim.particles[i].az = init[i]
            rim.mode = 1
            rim._encounter_N = encN
            rim._encounter_N_active = encNa
            calc(sim)
            got1 = read_acc(sim, n)
            rim.mode = 0
            sim.gravity = "mercurius"
        finally:
            rim._dcrit = NULLD; rim._N_allocated_dcrit = 0
            rim._encounter_map = NULLI; rim._N_allocated = 0
        na = n if cfg["Na"] == -1 else cfg["Na"]

        def w0(k, j, r):
            l = L_oracle(kind, r, max(dcrit[k], dcrit[j]))
            Lhist["L=0" if l == 0 else ("L=1" if l == 1 else "0<L<1")] += 1
            return l
        WC = [31.0, 1471.0, 10625.0, 8.0][kind] / 4 + 4   # sum |coefficients| of the changeover polynomial
        want0, mag0 = oracle_direct(cfg, xs, [(0.0, 0.0, 0.0)], weight=w0, wcond=WC)
        inmap = set(mp)
        want1, mag1 = oracle_direct(cfg, xs, [(0.0, 0.0, 0.0)], weight=lambda k, j, r: 1.0 - L_oracle(kind, r, max(dcrit[k], dcrit[j])),
                                    pairs=lambda k, j: k in inmap and j in inmap and src(cfg, k, j), wcond=WC)
        w1, m1 = [], []
        for k in range(n):
            if k == 0:
                w1.append((0.0, 0.0, 0.0)); m1.append((0.0, 0))
            elif k in inmap:
                st, sa = star_term(cfg, xs, k)
                w1.append(tuple(math.fsum([want1[k][c_], st[c_]]) for c_ in range(3))); m1.append((mag1[k][0] + sa, mag1[k][1] + 1))
            else:
                w1.append(init[k]); m1.append((0.0, 0))
        note("merc0", cfg); note("merc1", cfg)
        elog.add(enc_factors("mercurius", LNAMES[kind], mp, n, cfg))
        if mp != list(range(n)):
            dims["roles: non-identity encounter map (MERCURIUS/TRACE)"] = dims.get("roles: non-identity encounter map (MERCURIUS/TRACE)", 0) + 1
        # L evaluated near a clamp changes by O(1)*ulp(y): allow the rounding of y through L' <= 2.2
        check_oracle("merc0", cfg, xs, got0, want0, mag0, dict(dcrit=dcrit, L=LNAMES[kind]))
        check_oracle("merc1", cfg, xs, got1, w1, m1, dict(dcrit=dcrit, L=LNAMES[kind], map=mp, encN=encN, encNa=encNa, init=init))
        if kind < 3:
            add_line(["merc0", n, na, cfg["tp"], kind, d2h(cfg["G"]), d2h(cfg["soft"])] + body_tokens(cfg["ms"], xs) + [d2h(v) for v in dcrit],
                     got0, ("merc0", cfg, xs, mag0))
            add_line(["merc1", n, cfg["tp"], kind, d2h(cfg["G"]), d2h(cfg["soft"]), encN, encNa] + body_tokens(cfg["ms"], xs) + [d2h(v) for v in dcrit]
                     + mp + [d2h(v) for a in init for v in a], got1, ("merc1", cfg, xs, m1))
        if full and n >= 2:
            # every particle in the encounter set: mode0 + mode1 = full planet-planet force + star term, whatever L is
            sim2 = new_sim(cfg, xs, gravity="basic")
            calc(sim2)
            gb_ = read_acc(sim2, n)
            _, magf = oracle_direct(cfg, xs, [(0.0, 0.0, 0.0)])
            tot, ref, mg = [], [], []
            for k in range(n):
                if k == 0:
                    tot.append((0.0, 0.0, 0.0)); ref.append((0.0, 0.0, 0.0)); mg.append((0.0, 0)); continue
                st, sa = star_term(cfg, xs, k)
                tot.append(tuple(got0[k][c_] + got1[k][c_] for c_ in range(3)))
                ref.append(tuple(gb_[k][c_] + st[c_] for c_ in range(3)))
                mg.append((2 * magf[k][0] + sa, magf[k][1] + 2))
            q, kq = cmp_acc(tot, ref, mg)
            worst["merc-split"] = max(worst.get("merc-split", 0.0), q)
            if q > 1.0:
                viol.append(("merc-split", "MERCURIUS mode0 + mode1 != full force + star term on particle %d (all particles in the encounter set, N=%d N_active=%d type=%d L=%s): %.3g x tolerance"
                             % (kq, n, cfg["Na"], cfg["tp"], LNAMES[kind], q), dict(cfg=cfg, xs=xs, dcrit=dcrit, L=LNAMES[kind], particle=kq, sum=tot[kq], full=ref[kq])))

    # ======================================================================= TRACE (interaction / Kepler)
    for case in range(80 * T):
        rng = c.rng.fork()
        n = max(1, gen_N(rng, big_ok=False))
        cfg = gen_common(rng, n)
        cfg["ignore"] = 2
        xs = gen_positions(rng, n, cfg["scale"])
        pK = rng.choice([0.0, 0.1, 0.5, 1.0])
        ks = [[1 if rng.chance(pK) else 0 for _ in range(n)] for _ in range(n)]
        full = rng.chance(0.4)
        mp, encN, encNa = gen_enc(rng, cfg, full)
        sim = new_sim(cfg, xs, integrator="trace", gravity="trace")
        rit = sim.ri_trace
        kk = (ctypes.c_int * (n * n))(*[ks[a][b] * rng.choice([1, 1, 2, -1]) for a in range(n) for b in range(n)])
        em = (ctypes.c_int * n)(*(mp + [0] * (n - len(mp))))
        try:
            rit._current_Ks = ctypes.cast(kk, ctypes.POINTER(ctypes.c_int))
            rit._encounter_map = ctypes.cast(em, ctypes.POINTER(ctypes.c_int))
            rit._N_allocated = n
            rit._mode = 0
            calc(sim)
            got0 = read_acc(sim, n)
            init = [(rng.normal(), rng.normal(), rng.normal()) for _ in range(n)]
            for i in range(n):
                sim.particles[i].ax, sim.particles[i].ay, sim.particles[i].az = init[i]
            rit._mode = 1
            rit._encounter_N = encN
            rit._encounter_N_active = encNa
            calc(sim)
            got1 = read_acc(sim, n)
            rit._mode = 0
        finally:
            rit._current_Ks = NULLI; rit._encounter_map = NULLI; rit._N_allocated = 0
        na = n if cfg["Na"] == -1 else cfg["Na"]
        K_ = lambda k, j: ks[min(k, j)][max(k, j)] != 0
        want0, mag0 = oracle_direct(cfg, xs, [(0.0, 0.0, 0.0)], pairs=lambda k, j: src(cfg, k, j) and not K_(k, j))
        inmap = set(mp)
        want1, mag1 = oracle_direct(cfg, xs, [(0.0, 0.0, 0.0)], pairs=lambda k, j: k in inmap and j in inmap and src(cfg, k, j) and K_(k, j))
        w1, m1 = [], []
        for k in range(n):
            if k == 0:
                w1.append((0.0, 0.0, 0.0)); m1.append((0.0, 0))
            elif k in inmap:
                st, sa = star_term(cfg, xs, k)
                w1.append(tuple(math.fsum([want1[k][c_], st[c_]]) for c_ in range(3))); m1.append((mag1[k][0] + sa, mag1[k][1] + 1))
            else:
                w1.append(init[k]); m1.append((0.0, 0))
        note("trace0", cfg); note("trace1", cfg)
        elog.add(enc_factors("trace", {0.0: "Ks=0", 0.1: "Ks sparse", 0.5: "Ks half", 1.0: "Ks=1"}[pK], mp, n, cfg))
        if mp != list(range(n)):
            dims["roles: non-identity encounter map (MERCURIUS/TRACE)"] = dims.get("roles: non-identity encounter map (MERCURIUS/TRACE)", 0) + 1
        check_oracle("trace0", cfg, xs, got0, want0, mag0, dict(ks=ks))
        check_oracle("trace1", cfg, xs, got1, w1, m1, dict(ks=ks, map=mp, encN=encN, encNa=encNa, init=init))
        kstr = "".join("1" if ks[a][b] else "0" for a in range(n) for b in range(n))
        add_line(["trace0", n, na, cfg["tp"], d2h(cfg["G"]), d2h(cfg["soft"])] + body_tokens(cfg["ms"], xs) + [kstr], got0, ("trace0", cfg, xs, mag0))
        add_line(["trace1", n, cfg["tp"], d2h(cfg["G"]), d2h(cfg["soft"]), encN, encNa] + body_tokens(cfg["ms"], xs) + [kstr] + mp + [d2h(v) for a in init for v in a],
                 got1, ("trace1", cfg, xs, m1))
        if full and n >= 2:
            sim2 = new_sim(cfg, xs, gravity="basic")
            calc(sim2)
            gb_ = read_acc(sim2, n)
            _, magf = oracle_direct(cfg, xs, [(0.0, 0.0, 0.0)])
            tot, ref, mg = [], [], []
            for k in range(n):
                if k == 0:
                    tot.append((0.0, 0.0, 0.0)); ref.append((0.0, 0.0, 0.0)); mg.append((0.0, 0)); continue
                st, sa = star_term(cfg, xs, k)
                tot.append(tuple(got0[k][c_] + got1[k][c_] for c_ in range(3)))
                ref.append(tuple(gb_[k][c_] + st[c_] for c_ in range(3)))
                mg.append((2 * magf[k][0] + sa, magf[k][1] + 2))
            q, kq = cmp_acc(tot, ref, mg)
            worst["trace-split"] = max(worst.get("trace-split", 0.0), q)
            if q > 1.0:
                viol.append(("trace-split", "TRACE interaction + Kepler != full force + star term on particle %d (all particles in the encounter set, N=%d N_active=%d type=%d): %.3g x tolerance"
                             % (kq, n, cfg["Na"], cfg["tp"], q), dict(cfg=cfg, xs=xs, ks=ks, particle=kq, sum=tot[kq], full=ref[kq])))

    # ======================================================================= TREE
    def tree_cells(sim):
        roots = ctypes.cast(sim._tree_root, ctypes.POINTER(ctypes.POINTER(TreeCell)))
        out = []
        for i in range(sim.N_root):
            if roots[i]:
                out.append(roots[i].contents)
        return out

    def ser(cell, toks, leaves, pre=None):
        """preorder tokens; returns list of particle indices below; `pre` collects (m, mx, my, mz) of every cell in the same order"""
        if pre is not None:
            pre.append((cell.m, cell.mx, cell.my, cell.mz))
        if cell.pt >= 0:
            toks += ["L", cell.pt, cell.remote, d2h(cell.m), d2h(cell.mx), d2h(cell.my), d2h(cell.mz)]
            return [cell.pt]
        kids = [cell.oct[o].contents for o in range(8) if cell.oct[o]]
        toks += ["N", d2h(cell.w), d2h(cell.m), d2h(cell.mx), d2h(cell.my), d2h(cell.mz), len(kids)]
        mine = []
        for kc in kids:
            mine += ser(kc, toks, leaves, pre)
        leaves.append((cell, mine))
        return mine

    # factors of the TREE block; "event" = what happens to the particles AFTER they entered the tree (sim.add inserts them) and before the force call
    TF = {"event": ["none", "edit-mass", "force then edit-mass", "edit-mass + move", "mass transfer i->j", "force then remove"],
          "theta": ["0", "finite"], "bnd": ["open", "periodic"], "roots": ["1", "several"]}
    tarr, tvalid, texcl = covering_array(TF, lambda f_: True, SplitMix(4721))
    tlog = PairLog(TF, tvalid, texcl)
    thist = {}
    for case in range(60 * T):
        rng = c.rng.fork()
        tf = tarr[case % len(tarr)]
        n = gen_N(rng)
        if tf["event"] != "none":
            n = max(n, 3)
        cfg = gen_common(rng, n)
        cfg.update(Na=-1, tp=0, ignore=0)
        th2 = 0.0 if tf["theta"] == "0" else rng.choice([0.09, 0.25, 0.49, 1.0])
        L = cfg["scale"] * rng.uniform(6, 12)
        bnd = tf["bnd"]
        gx, gy, gz = (rng.randint(0, 1), rng.randint(0, 1), rng.randint(0, 1)) if (rng.chance(0.4) and n <= 40) else (0, 0, 0)
        nr = (1, 1, 1) if tf["roots"] == "1" else rng.choice([(2, 1, 1), (2, 2, 1), (1, 2, 3)])
        cfg.update(boundary=bnd, shifted=1, ngx=gx, ngy=gy, ngz=gz, bs=(L, L, L))
        sim = rebound.Simulation()
        sim.G = cfg["G"]; sim.softening = cfg["soft"]
        sim.gravity = "tree"
        sim.opening_angle2 = th2
        sim.configure_box(L, nr[0], nr[1], nr[2])
        sim.boundary = bnd
        sim.N_ghost_x, sim.N_ghost_y, sim.N_ghost_z = gx, gy, gz
        cfg["bs"] = (sim.boxsize.x, sim.boxsize.y, sim.boxsize.z)
        xs = gen_positions(rng, n, cfg["scale"])
        xs = [[max(-0.49 * cfg["bs"][c_], min(0.49 * cfg["bs"][c_], p[c_])) for c_ in range(3)] for p in xs]
        if len(set(tuple(p) for p in xs)) != len(xs):
            continue
        for i in range(n):
            sim.add(m=cfg["ms"][i], x=xs[i][0], y=xs[i][1], z=xs[i][2])
        clib.reb_simulation_update_tree(ctypes.byref(sim))
        clib.reb_simulation_update_tree_gravity_data(ctypes.byref(sim))
        if sim.N != n:
            continue
        # ---- the event: the particle array changes while the particles sit in their leaves
        ev = tf["event"]
        if ev.startswith("force then"):
            calc(sim)
        if ev in ("edit-mass", "force then edit-mass", "edit-mass + move"):
            for k_ in set(rng.randint(0, n - 1) for _ in range(rng.randint(1, 3))):
                pk_ = sim.particles[k_]
                pk_.m = pk_.m * rng.choice([0.2, 5.0]) if pk_.m != 0.0 else 1e-3 * max(cfg["ms"])
                if ev == "edit-mass + move":
                    pk_.x = max(-0.49 * cfg["bs"][0], min(0.49 * cfg["bs"][0], pk_.x + rng.normal() * 0.05 * cfg["bs"][0]))
        elif ev == "mass transfer i->j":       # what a merger does to the masses; the donor stays as a zero-mass particle
            i_, j_ = rng.randint(0, n - 1), rng.randint(0, n - 2)
            j_ = j_ + 1 if j_ >= i_ else j_
            sim.particles[j_].m = sim.particles[j_].m + sim.particles[i_].m
            sim.particles[i_].m = 0.0
        elif ev == "force then remove":
            sim.remove(rng.randint(0, n - 1), keep_sorted=False)
        if ev != "none":
            tree_ready(sim)
            n = sim.N
            cfg["N"] = n
            if n < 2 or len(set((sim.particles[i].x, sim.particles[i].y, sim.particles[i].z) for i in range(n))) != n:
                continue
            dim("histories: TREE force after the particle array changed under the tree (mass edit / transfer / removal)")
        xs = [[sim.particles[i].x, sim.particles[i].y, sim.particles[i].z] for i in range(n)]   # update_tree may reorder
        cfg["ms"] = [sim.particles[i].m for i in range(n)]
        calc(sim)
        got = read_acc(sim, n)
        toks, cells = [], []
        roots = tree_cells(sim)
        nleaf = 0
        pre = []
        for rc_ in roots:
            nleaf += len(ser(rc_, toks, cells, pre))
        # monopole data: the model's refresh pass (refreshCell: leaves re-read the particle array) on the real tree shape = the C cell fields
        add_line(["treedata", n] + body_tokens(cfg["ms"], xs) + [len(roots)] + list(toks), pre, ("treedata", cfg, xs, None))
        # hypothesis `hleaves` of c02_tree_theta0_direct on the real tree: the leaves are exactly the particles
        lv = []
        def collect(cell):
            if cell.pt >= 0:
                lv.append((cell.pt, cell.remote, cell.m, cell.mx, cell.my, cell.mz))
            else:
                for o in range(8):
                    if cell.oct[o]:
                        collect(cell.oct[o].contents)
        for rc_ in roots:
            collect(rc_)
        if nleaf != n or sorted(l[0] for l in lv) != list(range(n)) or any(
                l[1] != 0 or l[2] != cfg["ms"][l[0]] or [l[3], l[4], l[5]] != xs[l[0]] for l in lv):
            stale = [l[0] for l in lv if 0 <= l[0] < n and l[2] != cfg["ms"][l[0]]]
            viol.append(("tree:leaves", "TREE after event '%s': the leaves of the tree are not exactly the particles (%d leaves, %d particles%s)" % (
                ev, nleaf, n, "; leaf mass differs from particles[pt].m for particles %s" % stale[:5] if stale else ""), dict(cfg=cfg, xs=xs, leaves=lv, event=ev)))
            continue
        members = {ctypes.addressof(cc): mm for cc, mm in cells}
        gh = ghost_shifts(cfg)
        want, mag = oracle_direct(cfg, xs, gh, pairs=lambda k, j: k != j)
        add_line(["tree", n, 1, gx, gy, gz, d2h(cfg["G"]), d2h(cfg["soft"]), d2h(th2), d2h(cfg["bs"][0]), d2h(cfg["bs"][1]), d2h(cfg["bs"][2])]
                 + body_tokens(cfg["ms"], xs) + [len(roots)] + toks, got, ("tree", cfg, xs, mag))
        key = "tree0" if th2 == 0.0 else "treeT"
        note(key, cfg)
        tlog.add(tf)
        thist[str(th2)] = thist.get(str(th2), 0) + 1
        # cell data = total mass and centre of mass of the leaves below (fsum)
        for cell, mine in cells:
            mt = math.fsum(cfg["ms"][i] for i in mine)
            okc = abs(cell.m - mt) <= 1e-13 * abs(mt) + 0.0
            if mt > 0:
                for c_, val in enumerate((cell.mx, cell.my, cell.mz)):
                    com = math.fsum(cfg["ms"][i] * xs[i][c_] for i in mine) / mt
                    sc = max(abs(xs[i][c_]) for i in mine)
                    okc = okc and abs(val - com) <= 1e-12 * sc * max(1.0, len(mine) / 8)
            if not okc:
                viol.append(("tree:celldata", "tree cell (w=%g, %d particles) does not carry the total mass / centre of mass of its particles" % (cell.w, len(mine)),
                             dict(cfg=cfg, xs=xs, members=mine, m=cell.m, com=(cell.mx, cell.my, cell.mz))))
                break
        if th2 == 0.0:
            check_oracle("tree0", cfg, xs, got, want, mag)
            third_law("tree0", cfg, xs, got, mag, torque=(len(gh) == 1))
        else:
            # spec walk: accept a cell iff w^2 <= theta^2 r^2; monopole error of an accepted cell <= 6 G sum m_i rho_i^2 / (r - s)^4
            G, s2_ = cfg["G"], cfg["soft"] ** 2
            worstq = 0.0
            for k in range(n):
                bound = 0.0
                unb = False
                selfimg = [[], [], []]     # the particle's own periodic images absorbed in accepted cells
                for gb in gh:
                    pos = (xs[k][0] + gb[0], xs[k][1] + gb[1], xs[k][2] + gb[2])
                    stack = list(roots)
                    while stack:
                        cell = stack.pop()
                        if cell.pt >= 0:
                            continue
                        dx, dy, dz = pos[0] - cell.mx, pos[1] - cell.my, pos[2] - cell.mz
                        r2 = dx * dx + dy * dy + dz * dz
                        if cell.w * cell.w > th2 * r2:
                            stack += [cell.oct[o].contents for o in range(8) if cell.oct[o]]
                        else:
                            mine = members[ctypes.addressof(cell)]
                            r = math.sqrt(r2)
                            rho2 = [(xs[i][0] - cell.mx) ** 2 + (xs[i][1] - cell.my) ** 2 + (xs[i][2] - cell.mz) ** 2 for i in mine]
                            smax = math.sqrt(max(rho2))
                            if smax >= 0.9 * r:
                                unb = True
                            else:
                                bound += 6 * G * math.fsum(abs(cfg["ms"][i]) * q for i, q in zip(mine, rho2)) / (r - smax) ** 4
                                # the cell's centre of mass is itself rounded ((x*m)/m != x): |dF| <= 2 G m |dx| / r^3, |dx| <= depth * ulp(|x|)
                                bound += 2 * G * abs(cell.m) * 4 * (len(mine) + 2) * EPS * max(abs(cell.mx), abs(cell.my), abs(cell.mz), cell.w) / (r - smax) ** 3
                            if k in mine:
                                g2 = gb[0] * gb[0] + gb[1] * gb[1] + gb[2] * gb[2] + s2_
                                f = -G * cfg["ms"][k] * g2 ** -1.5 if g2 > 0 else float("nan")
                                for c_ in range(3):
                                    selfimg[c_].append(f * gb[c_])
                if unb:
                    continue
                tol = (mag[k][1] + 8) * 16 * EPS * mag[k][0]
                e = math.sqrt(sum((got[k][c_] - want[k][c_]) ** 2 for c_ in range(3)))
                bound *= 2.0      # the leading-order remainder reaches 0.98 of the bound on the clean tree (thorough tier): margin 2
                q = e / (bound + 3 * tol) if bound + tol > 0 else (0.0 if e == 0 else float("inf"))
                if q > 1.0 and selfimg[0]:
                    e2 = math.sqrt(sum((got[k][c_] - want[k][c_] - math.fsum(selfimg[c_])) ** 2 for c_ in range(3)))
                    if e2 <= bound + 3 * tol:
                        viol.append(("FC02a:tree-ghost-self-image", "TREE with ghost boxes and opening_angle2=%g adds particle %d's own periodic image (error %.3g, multipole bound %.3g; "
                                     "bound holds once the self-image term is added to the reference)" % (th2, k, e, bound),
                                     dict(cfg=cfg, xs=xs, theta2=th2, particle=k, err=e, err_with_self_image=e2, bound=bound)))
                        c.cov["tree_self_image_cases"] = c.cov.get("tree_self_image_cases", 0) + 1
                        continue
                worstq = max(worstq, q)
                if q > 1.0:
                    viol.append(("treeT", "TREE with opening_angle2=%g: error of particle %d is %.3g, multipole bound %.3g (N=%d)" % (th2, k, e, bound, n),
                                 dict(cfg=cfg, xs=xs, theta2=th2, particle=k, err=e, bound=bound)))
                    break
            worst["treeT"] = max(worst.get("treeT", 0.0), worstq)
    c.cov["tree_opening_angle2_histogram"] = thist
    trep = tlog.report(); trep["factors"] = {k_: len(v_) for k_, v_ in TF.items()}
    c.cov["pairs_tree"] = trep
    if trep["covered"] < trep["total"]:
        c.broken.append("coverage: %d of %d factor pairs of the TREE block were not evaluated, e.g. %s" % (trep["total"] - trep["covered"], trep["total"], trep["missing"][:3]))
    c.cov["mercurius_L_branch_histogram"] = Lhist

    c.log("generated %d model lines" % len(lines))
    # ======================================================================= run the model
    out = run_driver(exe, lines, timeout=1500)
    if len(out) != len(lines):
        c.corr_break("driver returned %d lines for %d ops" % (len(out), len(lines)))
    else:
        for g, e, mt, l in zip(out, expect, meta, lines):
            routine, cfg, xs = mt[0], mt[1], mt[2]
            gt = g.split()
            et = [d2h(v) for a in e for v in a]
            if gt == et:
                stats["bitwise_equal"] += 1
                continue
            bad = True
            if routine == "treedata":
                if len(gt) == len(et) and not (gt and gt[0].startswith("bad")):
                    gv = [h2d(t) for t in gt]
                    ev_ = [v for a in e for v in a]
                    sc_ = max([abs(v) for v in ev_[1::4] + ev_[2::4] + ev_[3::4]] + [1e-300])
                    bad = any(not (abs(a_ - b_) <= 16 * EPS * (abs(b_) + (0.0 if i_ % 4 == 0 else sc_))) for i_, (a_, b_) in enumerate(zip(gv, ev_)))
            elif len(gt) == len(et) and not (gt and gt[0].startswith("bad")):
                try:
                    gv = [h2d(t) for t in gt]
                    model = [tuple(gv[3 * i:3 * i + 3]) for i in range(len(gv) // 3)]
                    mag = mt[3] if len(mt) > 3 else None
                    if mag is None:
                        _, mag = oracle_direct(cfg, xs, ghost_shifts(cfg) if routine in ("basic", "tree") else [(0.0, 0.0, 0.0)], pairs=lambda k, j: k != j)
                    q, k = cmp_acc(model, e, mag, slack=4.0)
                    bad = q > 1.0
                except Exception as ex:
                    bad = True
            if bad:
                stats["disagree"] += 1
                if first_dis[0] is None:
                    first_dis[0] = {"routine": routine, "cfg": {k_: v for k_, v in cfg.items() if k_ != "ms"}, "op_line": l[:2000], "model": g[:600],
                                    "impl": " ".join(et)[:600]}
            else:
                stats["within_tol"] += 1
    erep = elog.report(); erep["factors"] = {k_: len(v_) for k_, v_ in EF.items()}
    c.cov["pairs_encounter_routines"] = erep
    if c.thorough and erep["covered"] < erep["total"]:
        c.broken.append("coverage: %d of %d admissible factor pairs of the MERCURIUS/TRACE routines were not evaluated, e.g. %s" % (erep["total"] - erep["covered"], erep["total"], erep["missing"][:3]))
    # ======================================================================= public entry points (extracted from the headers / Python layer)
    import re as _re
    hdr = open(os.path.join(REPO, "src", "rebound.h")).read()
    entry = set(_re.findall(r"^DLLEXPORT[^;(]*?\b(reb_simulation_update_acceleration|reb_simulation_update_tree|reb_simulation_configure_box|reb_integrator_mercurius_L_\w+|reb_simulation_step|reb_simulation_steps)\s*\(", hdr, flags=_re.M))
    for hf, pat in (("gravity.h", r"^void\s+(reb_calculate_acceleration)\s*\("), ("boundary.h", r"^struct reb_vec6d\s+(reb_boundary_get_ghostbox)\s*\("),
                    ("tree.h", r"^void\s+(reb_simulation_update_tree_gravity_data)\s*\(")):
        entry |= set(_re.findall(pat, open(os.path.join(REPO, "src", hf)).read(), flags=_re.M))
    pysrc = open(os.path.join(REPO, "rebound", "simulation.py")).read()
    gm = _re.search(r"^GRAVITIES\s*=\s*\{([^}]*)\}", pysrc, flags=_re.M)
    pygrav = _re.findall(r'"(\w+)"\s*:', gm.group(1)) if gm else []
    bm = _re.search(r"^BOUNDARIES\s*=\s*\{([^}]*)\}", pysrc, flags=_re.M)
    pybnd = _re.findall(r'"(\w+)"\s*:', bm.group(1)) if bm else []
    used = set()
    # direct calls of the entry points the blocks above reach only indirectly, each against the oracle
    rng = c.rng.fork()
    simE = rebound.Simulation()
    simE.configure_box(7.0, 2, 1, 1); used.add("reb_simulation_configure_box")
    clib.reb_boundary_get_ghostbox.restype = rebound.vectors.Vec6d
    for bname in pybnd:
        simE.boundary = bname
        simE.ri_sei.OMEGA = 1.3; simE.t = 2.1
        cfgE = dict(bs=(simE.boxsize.x, simE.boxsize.y, simE.boxsize.z), ngx=2, ngy=1, ngz=1, shifted=0 if bname == "none" else 1, OMEGA=1.3, t=2.1)
        wantg = shear_lattice(dict(cfgE), True) if bname == "shear" else ghost_shifts(cfgE)
        gotg = []
        for i_ in range(-2, 3):
            for j_ in range(-1, 2):
                for k_ in range(-1, 2):
                    gb_ = clib.reb_boundary_get_ghostbox(ctypes.byref(simE), ctypes.c_int(i_), ctypes.c_int(j_), ctypes.c_int(k_))
                    gotg.append((gb_.x, gb_.y, gb_.z))
        if bname == "shear":
            wantg = [(w[0], w[1], w[2]) for w in wantg]
        if gotg != [tuple(w) for w in wantg]:
            viol.append(("entry:get_ghostbox:" + bname, "reb_boundary_get_ghostbox differs from the specified shifts for boundary=%s" % bname, dict(boundary=bname, got=gotg[:6], want=wantg[:6])))
        used.add("boundary=" + bname)
    used.add("reb_boundary_get_ghostbox")
    for li, lname in enumerate(LNAMES):
        fnL = getattr(clib, "reb_integrator_mercurius_L_" + lname)
        fnL.restype = ctypes.c_double
        fnL.argtypes = [ctypes.c_void_p, ctypes.c_double, ctypes.c_double]
        for _ in range(40):
            dcr = rng.loguniform(1e-2, 1e2); dd_ = dcr * rng.choice([0.05, 0.1, rng.uniform(0.1, 1.0), 1.0, 1.5])
            gl = fnL(None, dd_, dcr); wl = L_oracle(li, dd_, dcr)
            if not abs(gl - wl) <= 3e4 * EPS:
                viol.append(("entry:L_" + lname, "reb_integrator_mercurius_L_%s(%.17g, %.17g) = %.17g, expected %.17g" % (lname, dd_, dcr, gl, wl), dict(L=lname, d=dd_, dcrit=dcr)))
                break
        used.add("reb_integrator_mercurius_L_" + lname)
    for gname in pygrav:            # every Python spelling of the routine selector reaches the routine it names
        simG = rebound.Simulation()
        simG.integrator = {"mercurius": "mercurius", "trace": "trace", "jacobi": "whfast"}.get(gname, "ias15")
        if gname == "tree":
            simG.configure_box(10.0)
        simG.gravity = gname
        simG.add(m=1.0); simG.add(m=1e-3, x=1.0, vy=1.0); simG.add(m=1e-3, x=-2.0, vy=-0.7)
        try:
            if gname in ("mercurius", "trace"):
                simG.dt = 1e-3; simG.steps(1)
            else:
                if gname == "tree":
                    tree_ready(simG)
                clib.reb_simulation_update_acceleration(ctypes.byref(simG))
            a1 = simG.particles[1].ax
            if gname == "none":
                okg = a1 == 0.0
            elif gname in ("mercurius", "trace"):      # the WH part after a step: planet-planet term only, -G m_2/3^2
                okg = abs(a1 - (-1e-3 / 9.0)) < 1e-6
            elif gname == "jacobi":                    # star-planet-1 pair excluded, Jacobi terms added: -m_2/9 - m_2 Q_2/|Q_2|^3, Q_2 = x_2 - R_2/M_2
                okg = abs(a1 - (-1e-3 / 9.0 + 1e-3 / (2.0 + 1e-3 / 1.001) ** 2)) < 1e-7
            else:
                okg = abs(a1 - (-1.0 - 1e-3 / 9.0)) < 1e-2
            if not okg:
                viol.append(("entry:gravity=" + gname, "sim.gravity = %r: acceleration of particle 1 is %.6g" % (gname, a1), dict(gravity=gname)))
        except Exception as ex:
            viol.append(("entry:gravity=" + gname, "sim.gravity = %r raised %r" % (gname, ex), dict(gravity=gname)))
        used.add("gravity=" + gname)
    used |= {"reb_calculate_acceleration", "reb_simulation_update_acceleration", "reb_simulation_update_tree", "reb_simulation_update_tree_gravity_data",
             "reb_simulation_steps"} if hist.get("pairwise", 0) and hist.get("tree0", 0) + hist.get("treeT", 0) else set()
    if any(fc["entry"] == "step" for fc in todo_cases):
        used.add("reb_simulation_step")       # reb_simulation_steps loops over reb_simulation_step
    want_entry = set(entry) | {"gravity=" + g for g in pygrav} | {"boundary=" + b for b in pybnd}
    c.cov["entry_points_extracted"] = sorted(want_entry)
    c.cov["entry_points_exercised"] = len(want_entry & used)
    if len(entry) < 12 or len(pygrav) < 7 or len(pybnd) < 4:
        c.broken.append("entry-point extraction found only %d C functions / %d gravity names / %d boundary names" % (len(entry), len(pygrav), len(pybnd)))
    if want_entry - used:
        c.broken.append("entry points not exercised in this run: " + ", ".join(sorted(want_entry - used)))
    c.cov["dimensions"] = dict(sorted(dims.items()))
    for nm_, cnt_ in sorted(dims.items()):
        if cnt_ == 0:
            c.broken.append("coverage: dimension '%s' not covered" % nm_)
    c.cov["model_lines_compared"] = len(lines)
    c.cov["correspondence"] = stats
    c.cov["routine_histogram"] = hist
    c.cov["worst_error_over_tolerance"] = {k: float("%.3g" % v) for k, v in sorted(worst.items())}
    if stats["disagree"]:
        c.corr_break("%d of %d model/implementation lines differ; first: %s" % (stats["disagree"], len(lines), first_dis[0]["routine"]), first_dis[0])
    seenk = set()
    for key, what, rep in viol:
        if key in seenk:
            continue
        seenk.add(key)
        c.violation(key, what, rep)


if __name__ == "__main__":
    main("C02", run)
