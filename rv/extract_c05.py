"""Translator for C05 / C17: from the working tree of REBOUND generate lean/RV/Gen/C05Descriptors.lean

  * the persisted-field table `reb_binary_field_descriptor_list` (output.c) : id, dtype, name, member
    path of the storage location, member path of the element counter, element size;
  * ALL members of `struct reb_simulation` and of the embedded `ri_*` structures (reb_dp7 flattened to
    its seven pointers) with kind / offset / size taken from the *compiler* (a generated offsetof/sizeof
    program compiled against the scratch build);
  * the element structures of the persisted arrays (reb_particle, reb_variational_configuration, ...)
    with their members, so that pointer-valued members inside persisted payloads are known;
  * which field names `reb_binary_diff` compares member-wise, and which members (binarydiff.c);
  * the classification of not-persisted members from ref/C05_transient.json.

Deliberately dumb: regexes + brace matching.  Every list carries its item count, and the regex view of
the table is cross-checked against the *compiled* table (ids, dtypes, names, offsets, element sizes).
"""
import json, os, re, subprocess, sys
sys.path.insert(0, os.path.dirname(os.path.abspath(__file__)))
from common import ROOT, LEAN, Infra, write_if_changed, compile_harness

DTYPES = ["REB_DOUBLE", "REB_INT", "REB_UINT", "REB_UINT32", "REB_INT64", "REB_UINT64", None, "REB_VEC3D",
          "REB_PARTICLE", "REB_POINTER", "REB_POINTER_ALIGNED", "REB_DP7", "REB_OTHER", "REB_FIELD_END",
          "REB_FIELD_NOT_FOUND", "REB_PARTICLE4", "REB_POINTER_FIXED_SIZE"]
LEAN_DTYPE = {"REB_DOUBLE": "double", "REB_INT": "int", "REB_UINT": "uint", "REB_UINT32": "uint32",
              "REB_INT64": "int64", "REB_UINT64": "uint64", "REB_VEC3D": "vec3d", "REB_PARTICLE": "particle",
              "REB_POINTER": "pointer", "REB_POINTER_ALIGNED": "pointerAligned", "REB_DP7": "dp7",
              "REB_OTHER": "other", "REB_FIELD_END": "fieldEnd", "REB_FIELD_NOT_FOUND": "notFound",
              "REB_PARTICLE4": "particle4", "REB_POINTER_FIXED_SIZE": "pointerFixed"}
TRANSIENT_CLASSES = ["counter", "cache", "callback", "pointer", "wallclock", "handle", "scratch", "flag",
                     "ode", "finding"]


def strip_c_comments(s):
    s = re.sub(r"/\*.*?\*/", "", s, flags=re.S)
    return re.sub(r"//[^\n]*", "", s)


# ----------------------------------------------------------------------------- descriptor table (regex view)
def parse_table(repo):
    src = open(os.path.join(repo, "src", "output.c")).read()
    m = re.search(r"reb_binary_field_descriptor_list\[\]\s*=\s*\{(.*?)\n\};", src, flags=re.S)
    if not m:
        raise Infra("extract_c05: descriptor list not found in output.c")
    body = strip_c_comments(m.group(1))
    rows = []
    for em in re.finditer(r"\{\s*(\d+)\s*,\s*(REB_\w+)\s*,\s*\"([^\"]*)\"\s*,(.*?)\}\s*(?:,|$)", body, flags=re.S):
        rest = em.group(4)
        # three comma separated expressions; offsetof(...) contains a comma -> split on top level
        parts, depth, cur = [], 0, ""
        for ch in rest:
            if ch == "(":
                depth += 1
            if ch == ")":
                depth -= 1
            if ch == "," and depth == 0:
                parts.append(cur.strip()); cur = ""
            else:
                cur += ch
        parts.append(cur.strip())
        if len(parts) != 3:
            raise Infra("extract_c05: cannot parse descriptor row %s" % em.group(0)[:120])

        def path(e):
            mm = re.fullmatch(r"offsetof\(\s*struct\s+reb_simulation\s*,\s*([\w.]+)\s*\)", e)
            return mm.group(1) if mm else None
        rows.append({"id": int(em.group(1)), "dtype": em.group(2), "name": em.group(3),
                     "path": path(parts[0]), "npath": path(parts[1]),
                     "off_expr": parts[0], "offn_expr": parts[1], "esz_expr": parts[2]})
    return rows


# ----------------------------------------------------------------------------- struct parser on gcc -E output
def preprocess(d):
    p = subprocess.run(["gcc", "-E", "-P", "-D_GNU_SOURCE", "-DLIBREBOUND", "-DSERVER",
                        os.path.join(d, "src", "rebound.h")], capture_output=True, text=True)
    if p.returncode != 0:
        raise Infra("gcc -E rebound.h failed: " + p.stderr[:1000])
    return p.stdout


def struct_body(pp, name):
    m = re.search(r"\bstruct\s+%s\s*\{" % re.escape(name), pp)
    if not m:
        return None
    i = m.end()
    depth = 1
    while depth:
        c = pp[i]
        depth += (c == "{") - (c == "}")
        i += 1
    return pp[m.end():i - 1]


def split_decls(body):
    out, depth, cur = [], 0, ""
    for ch in body:
        if ch in "{(":
            depth += 1
        if ch in "})":
            depth -= 1
        if ch == ";" and depth == 0:
            if cur.strip():
                out.append(" ".join(cur.split()))
            cur = ""
        else:
            cur += ch
    if cur.strip():
        raise Infra("extract_c05: trailing text in struct body: %r" % cur[:80])
    return out


SCALAR_KIND = {"double": "f64", "float": "f32", "int": "i32", "unsigned int": "u32", "uint32_t": "u32",
               "int32_t": "i32", "int64_t": "i64", "uint64_t": "u64", "size_t": "u64", "char": "i8",
               "long": "i64", "unsigned long": "u64"}


def parse_members(pp, sname):
    """-> list of dict(name, ctype, kind, array) for one struct; kind in
    f64 i32 u32 i64 u64 f32 enum32 ptr fptr struct:<name> other"""
    body = struct_body(pp, sname)
    if body is None:
        raise Infra("extract_c05: struct %s not found" % sname)
    mem = []
    for decl in split_decls(body):
        d = decl
        if re.search(r"\(\s*\*\s*\w+\s*\)\s*\(", d):
            nm = re.search(r"\(\s*\*\s*(\w+)\s*\)\s*\(", d).group(1)
            mem.append({"name": nm, "ctype": "fptr", "kind": "fptr", "array": None})
            continue
        if d.startswith("enum"):
            nm = re.search(r"(\w+)\s*$", d).group(1)
            mem.append({"name": nm, "ctype": "enum", "kind": "enum32", "array": None})
            continue
        d = re.sub(r"__attribute__\s*\(\(.*?\)\)", "", d)
        # possibly several declarators: "float x,y,z"
        mm = re.match(r"^((?:const\s+|volatile\s+)*(?:struct\s+\w+|unsigned\s+\w+|\w+))\s*(.*)$", d)
        base, decls = mm.group(1).strip(), mm.group(2)
        for one in decls.split(","):
            one = one.strip()
            arr = None
            am = re.search(r"\[(\w+)\]\s*$", one)
            if am:
                arr = int(am.group(1))
                one = one[:am.start()].strip()
            nm = re.search(r"(\w+)\s*$", one).group(1)
            stars = one.count("*")
            base_n = re.sub(r"\b(const|volatile)\b", "", base).strip()
            if stars:
                kind = "ptr"
            elif base_n.startswith("struct "):
                kind = "struct:" + base_n.split()[1]
            elif base_n in SCALAR_KIND:
                kind = SCALAR_KIND[base_n]
            else:
                kind = "other"
            mem.append({"name": nm, "ctype": base_n + "*" * stars, "kind": kind, "array": arr})
    return mem


def flatten_sim(pp):
    """members of reb_simulation with embedded reb_integrator_* and reb_dp7 flattened; reb_vec3d and arrays atomic"""
    out = []

    def rec(sname, prefix):
        for m in parse_members(pp, sname):
            k = m["kind"]
            path = prefix + m["name"]
            if k.startswith("struct:") and m["array"] is None:
                inner = k.split(":")[1]
                if inner.startswith("reb_integrator_") or inner == "reb_dp7":
                    rec(inner, path + ".")
                    continue
                if inner == "reb_vec3d":
                    out.append({"path": path, "kind": "vec3d", "ctype": "struct reb_vec3d"})
                    continue
                out.append({"path": path, "kind": "other", "ctype": "struct " + inner})
                continue
            if m["array"] is not None:
                if k == "struct:reb_particle":
                    out.append({"path": path, "kind": "parr", "ctype": "struct reb_particle[%d]" % m["array"], "array": m["array"]})
                else:
                    out.append({"path": path, "kind": "other", "ctype": m["ctype"] + "[%d]" % m["array"]})
                continue
            out.append({"path": path, "kind": k, "ctype": m["ctype"]})
    rec("reb_simulation", "")
    return out


def elem_struct_of(esz_expr):
    mm = re.fullmatch(r"sizeof\(\s*struct\s+(\w+)\s*\)", esz_expr)
    return mm.group(1) if mm else None


# ----------------------------------------------------------------------------- compare spec (binarydiff.c)
def parse_compare(repo):
    src = strip_c_comments(open(os.path.join(repo, "src", "binarydiff.c")).read())
    # int reb_<x>_diff(struct reb_<x> p1, struct reb_<x> p2){ ... differ = differ || (p1.M != p2.M); ...}
    funcs = {}
    for fm in re.finditer(r"int\s+(reb_\w+_diff)\s*\(\s*struct\s+(\w+)\s+(\w+)\s*,\s*struct\s+\w+\s+(\w+)\s*\)\s*\{(.*?)\n\}", src, flags=re.S):
        a, b = fm.group(3), fm.group(4)
        mems, modes = [], {}
        # two accepted forms per line:  (p1.M != p2.M)   [C comparison]   |   memcmp(&p1.M, &p2.M, sizeof(T))   [bitwise]
        for lm in re.finditer(r"\(\s*%s\.(\w+)\s*!=\s*%s\.(\w+)\s*\)|memcmp\(\s*&%s\.(\w+)\s*,\s*&%s\.(\w+)\s*,\s*sizeof\(\s*\w+\s*\)\s*\)" % (a, b, a, b), fm.group(5)):
            x, y = (lm.group(1), lm.group(2)) if lm.group(1) else (lm.group(3), lm.group(4))
            if x != y:
                raise Infra("extract_c05: %s compares different members" % fm.group(1))
            mems.append(x)
            modes[x] = "ne" if lm.group(1) else "bits"
        nstmt = len(re.findall(r"differ\s*=\s*differ\s*\|\|", fm.group(5)))
        if nstmt != len(mems):
            raise Infra("extract_c05: %s has %d comparison statements but %d were understood" % (fm.group(1), nstmt, len(mems)))
        funcs[fm.group(1)] = {"struct": fm.group(2), "members": mems, "modes": modes}
    # inside reb_binary_diff:  if (strcmp(...name, "particles")==0){ ... reb_particle_diff(
    body = src[src.index("int reb_binary_diff("):]
    specs = []
    for sm in re.finditer(r"strcmp\(\s*reb_binary_field_descriptor_for_type\(field1\.type\)\.name\s*,\s*\"(\w[\w.]*)\"\s*\)\s*==\s*0\s*\)\s*\{(.*?)\}\s*else", body, flags=re.S):
        fn = re.search(r"(reb_\w+_diff)\s*\(", sm.group(2))
        if not fn or fn.group(1) not in funcs:
            raise Infra("extract_c05: member-wise compare of %s uses an unknown function" % sm.group(1))
        specs.append({"field": sm.group(1), "func": fn.group(1), **funcs[fn.group(1)]})
    wall = re.findall(r"strncmp\(\s*reb_binary_field_descriptor_for_type\(field1\.type\)\.name\s*,\s*\"(\w+)\"\s*,\s*(\d+)\s*\)\s*!=\s*0", body)
    if len(wall) != 1:
        raise Infra("extract_c05: walltime exclusion in reb_binary_diff not found (%d matches)" % len(wall))
    prefix, n = wall[0][0], int(wall[0][1])
    return specs, prefix[:n]


# ----------------------------------------------------------------------------- layout program
def layout(d, simmembers, elemstructs, pp):
    """compile + run a generated program: offsets/sizes of every member, element structs, compiled table"""
    lines = ['#include <stdio.h>', '#include <stddef.h>', '#include "rebound.h"',
             '#define M(p) printf("M %s %zu %zu\\n", #p, offsetof(struct reb_simulation, p), sizeof(((struct reb_simulation*)0)->p));',
             '#define E(s,p) printf("E %s %s %zu %zu\\n", #s, #p, offsetof(struct s, p), sizeof(((struct s*)0)->p));',
             'int main(){']
    for m in simmembers:
        lines.append("M(%s)" % m["path"])
    for s in elemstructs:
        lines.append('printf("S %s %%zu\\n", sizeof(struct %s));' % (s, s))
        for m in parse_members(pp, s):
            lines.append("E(%s,%s)" % (s, m["name"]))
    lines += ['printf("S reb_simulation %zu\\n", sizeof(struct reb_simulation));',
              'printf("S reb_binary_field %zu\\n", sizeof(struct reb_binary_field));',
              'int i=-1; do { i++; const struct reb_binary_field_descriptor* f=&reb_binary_field_descriptor_list[i];',
              ' printf("D %u %d %zu %zu %zu %s\\n", f->type, (int)f->dtype, f->offset, f->offset_N, f->element_size, f->name);',
              '} while (reb_binary_field_descriptor_list[i].dtype!=REB_FIELD_END);',
              'return 0;}']
    cfile = os.path.join(d, "c05_layout.c")
    with open(cfile, "w") as f:
        f.write("\n".join(lines) + "\n")
    exe = compile_harness(d, cfile, os.path.join(d, "c05_layout"))
    p = subprocess.run([exe], capture_output=True, text=True)
    if p.returncode != 0:
        raise Infra("c05_layout failed")
    mem, el, sizes, comp = {}, {}, {}, []
    for l in p.stdout.splitlines():
        t = l.split(" ")
        if t[0] == "M":
            mem[t[1]] = (int(t[2]), int(t[3]))
        elif t[0] == "E":
            el.setdefault(t[1], {})[t[2]] = (int(t[3]), int(t[4]))
        elif t[0] == "S":
            sizes[t[1]] = int(t[2])
        elif t[0] == "D":
            comp.append({"id": int(t[1]), "dtype": DTYPES[int(t[2])], "off": int(t[3]), "offn": int(t[4]),
                         "esz": int(t[5]), "name": " ".join(t[6:])})
    return mem, el, sizes, comp


# ----------------------------------------------------------------------------- main entry
def lstr(s):
    return '"' + s.replace("\\", "\\\\").replace('"', '\\"') + '"'


def extract(d, repo, write=True):
    """d: scratch build dir (has src/ and the compiled library).  Returns the info dict (also used by the
    Python side of the checks) and (re)writes the Lean file."""
    problems = []
    rows = parse_table(repo)
    pp = preprocess(d)
    simmembers = flatten_sim(pp)
    elemstructs = []
    for r in rows:
        es = elem_struct_of(r["esz_expr"])
        if es and es not in elemstructs:
            elemstructs.append(es)
    if "reb_particle" not in elemstructs:
        elemstructs.append("reb_particle")
    memlay, ellay, sizes, comp = layout(d, simmembers, elemstructs, pp)
    for i, m in enumerate(simmembers):
        m["idx"] = i
        m["off"], m["size"] = memlay[m["path"]]
    by_path = {m["path"]: m for m in simmembers}
    by_off = {}
    for m in simmembers:
        by_off.setdefault(m["off"], m)   # first member at an offset (dp7: g.p0)
    # ---- regex view vs compiled view of the table
    if len(rows) != len(comp):
        problems.append("descriptor rows parsed from output.c (%d) != rows of the compiled table (%d)" % (len(rows), len(comp)))
    psz = sizes["reb_particle"]
    for r, cdesc in zip(rows, comp):
        if (r["id"], r["dtype"], r["name"]) != (cdesc["id"], cdesc["dtype"], cdesc["name"]):
            problems.append("row %s: source text and compiled table differ (%s)" % (r["name"], cdesc))
            continue
        r["off"], r["offn"], r["esz"] = cdesc["off"], cdesc["offn"], cdesc["esz"]
        if r["path"] is not None:
            if r["path"] == "ri_ias15.g" or r["dtype"] == "REB_DP7":
                r["path"] = r["path"] + ".p0"       # reb_dp7 is flattened: the descriptor addresses its first pointer
            if r["path"] not in by_path:
                problems.append("row %s: member path %s is not a member of reb_simulation" % (r["name"], r["path"]))
                continue
            if by_path[r["path"]]["off"] != cdesc["off"]:
                problems.append("row %s: compiled offset %d != offsetof(%s)=%d" % (r["name"], cdesc["off"], r["path"], by_path[r["path"]]["off"]))
        elif r["off_expr"].strip() != "0":
            problems.append("row %s: offset expression not understood: %s" % (r["name"], r["off_expr"]))
        if r["npath"] is not None:
            if r["npath"] not in by_path or by_path[r["npath"]]["off"] != cdesc["offn"]:
                problems.append("row %s: counter path %s does not match compiled offset_N %d" % (r["name"], r["npath"], cdesc["offn"]))
        elif r["offn_expr"].strip() != "0":
            problems.append("row %s: offset_N expression not understood: %s" % (r["name"], r["offn_expr"]))
        r["elem"] = elem_struct_of(r["esz_expr"])
    # ---- element structs
    elems = {}
    for s in elemstructs:
        ms = []
        for m in parse_members(pp, s):
            off, size = ellay[s][m["name"]]
            k = m["kind"]
            if m["array"] is not None and not k == "ptr":
                k = "arr"
            elif k.startswith("struct:"):
                k = "struct"
            ms.append({"name": m["name"], "kind": k, "off": off, "size": size})
        elems[s] = {"size": sizes[s], "members": ms}
    # ---- compare spec
    specs, wallprefix = parse_compare(repo)
    for sp in specs:
        if sp["struct"] not in elems:
            problems.append("compare spec for %s uses struct %s which is not an element struct" % (sp["field"], sp["struct"]))
    # ---- transient classification
    tj = json.load(open(os.path.join(ROOT, "ref", "C05_transient.json")))["members"]
    for p_, v in tj.items():
        if v["class"] not in TRANSIENT_CLASSES:
            problems.append("ref/C05_transient.json: unknown class %s for %s" % (v["class"], p_))
    stale = [p_ for p_ in tj if p_ not in by_path]
    osrc = strip_c_comments(open(os.path.join(repo, "src", "output.c")).read())
    fm = re.search(r"int\s+functionpointersused\s*=\s*0\s*;\s*if\s*\((.*?)\)\s*\{", osrc, flags=re.S)
    fp_members = re.findall(r"r->([\w.]+)", fm.group(1)) if fm else []
    if not fp_members:
        problems.append("function-pointer flag condition of reb_simulation_save_to_stream not found")
    info = {"fp_members": fp_members, "rows": rows, "members": simmembers, "elems": elems, "specs": specs, "wallprefix": wallprefix,
            "sizes": sizes, "psz": psz, "transient": tj, "stale_transient": stale, "problems": problems,
            "by_path": by_path}
    if write:
        write_if_changed(os.path.join(LEAN, "RV", "Gen", "C05Descriptors.lean"), render(info))
    return info


MK = {"f64": "f64", "i32": "i32", "u32": "u32", "i64": "i64", "u64": "u64", "enum32": "enum32", "vec3d": "vec3d",
      "ptr": "ptr", "fptr": "fptr", "parr": "parr", "other": "other"}
EK = {"f64": "f64", "i32": "i32", "u32": "u32", "i64": "i64", "u64": "u64", "enum32": "enum32", "ptr": "ptr",
      "fptr": "fptr"}


def render(info):
    rows, members, elems, specs = info["rows"], info["members"], info["elems"], info["specs"]
    by_path = info["by_path"]
    o = []
    o.append("/- GENERATED by rv/extract_c05.py from src/output.c, src/rebound.h, src/binarydiff.c (working tree) and")
    o.append("   ref/C05_transient.json — do not edit.  Offsets and sizes are the compiler's (offsetof/sizeof program). -/")
    o.append("import RV.Model.Persist")
    o.append("namespace RV.Gen.C05")
    o.append("open RV.Persist")
    o.append("")
    o.append("/-- sizeof(struct reb_particle) -/")
    o.append("def particleSize : Nat := %d" % info["psz"])
    o.append("def simStructSize : Nat := %d" % info["sizes"]["reb_simulation"])
    o.append("def fieldHeaderSize : Nat := %d" % info["sizes"]["reb_binary_field"])
    o.append("")
    o.append("/-- every member of struct reb_simulation and of the embedded reb_integrator_* structs (reb_dp7 flattened):")
    o.append("    index, kind, offset, size -/")
    o.append("def members : List Member := [")
    o.append(",\n".join("  ⟨%d, .%s, %d, %d⟩" % (m["idx"], MK.get(m["kind"], "other"), m["off"], m["size"]) for m in members))
    o.append("]")
    o.append("def membersCount : Nat := %d" % len(members))
    o.append("def memberNames : List String := [")
    o.append(",\n".join("  " + lstr(m["path"]) for m in members))
    o.append("]")
    o.append("")
    cmpidx = {sp["field"]: i + 1 for i, sp in enumerate(specs)}
    o.append("/-- reb_binary_field_descriptor_list: id, dtype, member index of the storage location, member index of")
    o.append("    the element counter, element size, walltime flag (name prefix, binarydiff.c), compare spec (0 = memcmp) -/")
    o.append("def table : List Desc := [")
    tl = []
    for r in rows:
        mi = by_path[r["path"]]["idx"] if r.get("path") in by_path else 0
        ni = by_path[r["npath"]]["idx"] if r.get("npath") in by_path else 0
        tl.append("  ⟨%d, .%s, %d, %d, %d, %s, %d⟩" % (r["id"], LEAN_DTYPE[r["dtype"]], mi, ni, r.get("esz", 0),
                                                     "true" if r["name"].startswith(info["wallprefix"]) else "false",
                                                     cmpidx.get(r["name"], 0)))
    o.append(",\n".join(tl))
    o.append("]")
    o.append("def tableCount : Nat := %d" % len(rows))
    o.append("def tableNames : List String := [")
    o.append(",\n".join("  " + lstr(r["name"]) for r in rows))
    o.append("]")
    o.append("def wallPrefix : String := %s" % lstr(info["wallprefix"]))

    def idof(name):
        for r in rows:
            if r["name"] == name:
                return r["id"]
        return None
    mr0 = by_path.get("max_radius0", {}).get("idx")
    mr1 = by_path.get("max_radius1", {}).get("idx")
    o.append("")
    o.append("/-- ids looked up by name in input.c / output.c (`reb_binary_field_descriptor_for_name`), the hard coded ids")
    o.append("    87 (output.c) and 35 (input.c), and the members touched by the post-load fix-ups (input.c finish_fields) -/")
    o.append("def special : Special := {")
    o.append("  endId := %d, fpId := %d, fpIdWritten := 87, headerId := %d, legacyId := 35," % (idof("end"), idof("functionpointers"), idof("header")))
    o.append("  legacyMem0 := %d, legacyMem1 := %d," % (mr0, mr1))
    o.append("  nMem := %d, nAllocMem := %d, particlesMem := %d, varCfgMem := %d, nVarCfgMem := %d, recalcMem := %d }" % (
        by_path["N"]["idx"], by_path["N_allocated"]["idx"], by_path["particles"]["idx"], by_path["var_config"]["idx"],
        by_path["N_var_config"]["idx"], by_path["ri_whfast512.recalculate_constants"]["idx"]))
    o.append("")
    # element structs
    names = list(elems.keys())
    o.append("/-- element structures of persisted arrays: (size, members (kind, offset, size)) -/")
    for s in names:
        e = elems[s]
        o.append("def elem_%s : ElemLayout := ⟨%d, [%s]⟩" % (s, e["size"], ", ".join(
            "⟨.%s, %d, %d⟩" % (EK.get(m["kind"], "other"), m["off"], m["size"]) for m in e["members"])))
        o.append("def elem_%s_names : List String := [%s]" % (s, ", ".join(lstr(m["name"]) for m in e["members"])))
    o.append("def elemStructCount : Nat := %d" % len(names))

    def moff(s_, n_):
        for m in elems[s_]["members"]:
            if m["name"] == n_:
                return m["off"]
        raise Infra("extract_c05: struct %s has no member %s" % (s_, n_))
    o.append("/-- offsets of the `sim` back pointers set by the post-load fix-ups (input.c:206-215) -/")
    o.append("def particleSimOff : Nat := %d" % moff("reb_particle", "sim"))
    o.append("def varCfgSimOff : Nat := %d" % moff("reb_variational_configuration", "sim"))
    o.append("")
    o.append("/-- element layout of each table row (by position): `none` for rows without an element struct")
    o.append("    (simple fields, arrays of double) ; REB_PARTICLE / REB_PARTICLE4 rows hold reb_particle elements -/")
    o.append("def rowElems : List (Nat × ElemLayout) := [")
    re_ = []
    for r in rows:
        el = r.get("elem")
        if r["dtype"] in ("REB_PARTICLE", "REB_PARTICLE4"):
            el = "reb_particle"
        if el:
            re_.append("  (%d, elem_%s)" % (r["id"], el))
    o.append(",\n".join(re_))
    o.append("]")
    o.append("")
    o.append("/-- member-wise compare specs of reb_binary_diff: for the field named so, the listed members (kind, offset, size)")
    o.append("    are compared with `!=`, everything else in the element is ignored -/")
    o.append("def cmpSpecs : List CmpSpec := [")
    cl = []
    for sp in specs:
        e = elems[sp["struct"]]
        bym = {m["name"]: m for m in e["members"]}
        def ck(x):
            k = EK.get(bym[x]["kind"], "other")
            # a double compared bitwise (memcmp) behaves like an integer of the same size
            return "u64" if (k == "f64" and sp.get("modes", {}).get(x) == "bits") else k
        cl.append("  ⟨%d, [%s]⟩" % (e["size"], ", ".join("⟨.%s, %d, %d⟩" % (ck(x), bym[x]["off"], bym[x]["size"]) for x in sp["members"])))
    o.append(",\n".join(cl))
    o.append("]")
    o.append("def cmpSpecFields : List String := [%s]" % ", ".join(lstr(sp["field"]) for sp in specs))
    o.append("def cmpSpecCount : Nat := %d" % len(specs))
    o.append("")
    tj = info["transient"]
    tl = sorted(by_path[p_]["idx"] for p_, v in tj.items() if p_ in by_path and v["class"] != "finding")
    fl = sorted(by_path[p_]["idx"] for p_, v in tj.items() if p_ in by_path and v["class"] == "finding")
    o.append("/-- members deliberately not persisted (ref/C05_transient.json, classes other than `finding`) -/")
    o.append("def transient : List Nat := [%s]" % ", ".join(map(str, tl)))
    o.append("def transientCount : Nat := %d" % len(tl))
    fpm = set(info.get("fp_members", []))
    fl = sorted(by_path[p_]["idx"] for p_ in fpm if p_ in by_path)
    ex = sorted(by_path[p_]["idx"] for p_, v in tj.items() if p_ in by_path and v.get("flag_exempt"))
    gp = sorted(by_path[p_]["idx"] for p_, v in tj.items() if p_ in by_path and v.get("flag_gap"))
    o.append("/-- function-pointer members that set the `functionpointers` flag of a saved stream (condition of output.c:594-604) -/")
    o.append("def fpFlagged : List Nat := [%s]" % ", ".join(map(str, fl)))
    o.append("def fpFlaggedCount : Nat := %d" % len(fl))
    o.append("/-- function-pointer members exempt from the flag, each with a reason in ref/C05_transient.json (`flag_exempt`) -/")
    o.append("def fpExempt : List Nat := [%s]" % ", ".join(map(str, ex)))
    o.append("/-- function-pointer members that SHOULD set the flag but do not (recorded findings, `flag_gap`) -/")
    o.append("def fpGaps : List Nat := [%s]" % ", ".join(map(str, gp)))
    o.append("/-- members known to be missing from the table although they are user settings (class `finding`) -/")
    o.append("def knownGaps : List Nat := [%s]" % ", ".join(map(str, fl)))
    o.append("")
    o.append("end RV.Gen.C05")
    return "\n".join(o) + "\n"


if __name__ == "__main__":
    from common import build, REPO
    d = build(python_pkg=False)
    info = extract(d, REPO, write="--write" in sys.argv)
    print("rows", len(info["rows"]), "members", len(info["members"]), "elems", list(info["elems"]), "specs", info["specs"])
    print("problems", info["problems"], "stale", info["stale_transient"])
    persisted = set()
    for r in info["rows"]:
        if r.get("path"):
            persisted.add(r["path"])
    for m in info["members"]:
        tag = "P" if m["path"] in persisted else ("T" if m["path"] in info["transient"] else "?")
        print(tag, m["idx"], m["path"], m["kind"], m["off"], m["size"])


# ============================================================================= read sets (C05 deepening)
# For every translation unit of src/: which members of struct reb_simulation / reb_integrator_* does it access?
# Crude but sound over-approximation: every access chain `v->a.b->c` whose head `v` is declared in that file as a
# `struct reb_simulation*` or `struct reb_integrator_X*` (parameter or local, any function of the file) is walked through
# the generated member table; every member reached is an access of (file, member).  Reads and writes are not told apart.
READ_SKIP = {"glad.c", "communication_mpi.c"}


def strip_strings(s):
    return re.sub(r'"(?:\\.|[^"\\])*"', '""', s)


def tu_accesses(text, by_path, integrators):
    text = strip_strings(strip_c_comments(text))
    simvars = set(re.findall(r"struct\s+reb_simulation\s*\*\s*(?:const\s+|restrict\s+|REB_RESTRICT\s+)*(\w+)", text))
    intvars = {}
    for x, v in re.findall(r"struct\s+reb_integrator_(\w+)\s*\*\s*(?:const\s+|restrict\s+|REB_RESTRICT\s+)*(\w+)", text):
        intvars.setdefault(v, set()).add(x)
    dp7vars = set(re.findall(r"struct\s+reb_dp7\s*\*?\s*(?:const\s+|restrict\s+)*(\w+)", text))
    acc = set()
    for m in re.finditer(r"\b([A-Za-z_]\w*)((?:\s*(?:\[[^\]\[]*\])?\s*(?:->|\.)\s*[A-Za-z_]\w*)+)", text):
        head, rest = m.group(1), m.group(2)
        names = re.findall(r"(?:->|\.)\s*([A-Za-z_]\w*)", rest)
        cur = set()
        if head in simvars:
            cur.add("sim")
        for x in intvars.get(head, ()):
            cur.add("ri_" + x)
        if not cur:
            continue
        for nm in names:
            nxt = set()
            for t in cur:
                if t == "sim":
                    if nm.startswith("ri_") and nm[3:] in integrators:
                        nxt.add(nm)
                    elif nm in by_path:
                        acc.add(nm)
                else:
                    p_ = t + "." + nm
                    if p_ in by_path:
                        acc.add(p_)
                    elif p_ + ".p0" in by_path:        # a reb_dp7: all seven arrays
                        for k in range(7):
                            acc.add("%s.p%d" % (p_, k))
            cur = nxt
            if not cur:
                break
    return acc


def extract_reads(repo, info, write=True):
    """-> dict(tus, accesses {(tu, path)}), and lean/RV/Gen/C05Reads.lean"""
    by_path = info["by_path"]
    integrators = sorted({p_.split(".")[0][3:] for p_ in by_path if p_.startswith("ri_")})
    src = os.path.join(repo, "src")
    tus = sorted(f for f in os.listdir(src) if f.endswith(".c") and f not in READ_SKIP)
    accesses = {}
    for f in tus:
        accesses[f] = tu_accesses(open(os.path.join(src, f)).read(), by_path, integrators)
    rules = json.load(open(os.path.join(ROOT, "ref", "C05_reads.json")))
    out = {"tus": tus, "accesses": accesses, "rules": rules, "integrators": integrators}
    if write:
        write_if_changed(os.path.join(LEAN, "RV", "Gen", "C05Reads.lean"), render_reads(info, out))
    return out


def persisted_member_paths(info):
    per = set()
    for r in info["rows"]:
        if r.get("path") and r["dtype"] not in ("REB_OTHER", "REB_FIELD_END"):
            per.add(r["path"])
            if r["dtype"] == "REB_DP7":
                for k in range(7):
                    per.add(r["path"][:-1] + str(k))
    return per


def owners_of(path, rules, transient):
    """translation units that may access a restricted (carried-over, not persisted) member"""
    own = set(rules["universal_owners"])
    best = None
    for k_ in rules["owners"]:
        if (path == k_ or path.startswith(k_)) and (best is None or len(k_) > len(best)):
            best = k_
    if best is not None:
        own |= set(rules["owners"][best])
    return own


def render_reads(info, rd):
    by_path, tus, rules = info["by_path"], rd["tus"], rd["rules"]
    tidx = {f: i for i, f in enumerate(tus)}
    per = persisted_member_paths(info)
    tj = info["transient"]
    unrestricted = set(rules["unrestricted_classes"])
    o = ["/- GENERATED by rv/extract_c05.py (extract_reads) from src/*.c, ref/C05_transient.json and ref/C05_reads.json — do not edit. -/",
         "namespace RV.Gen.C05Reads", ""]
    o.append("def tuNames : List String := [%s]" % ", ".join(lstr(f) for f in tus))
    o.append("def tuCount : Nat := %d" % len(tus))
    acc_all = sorted((tidx[f], by_path[p_]["idx"]) for f in tus for p_ in rd["accesses"][f])
    # only accesses to members that are neither persisted nor of an unrestricted class need a decision in Lean
    # (the persisted set is tied to the descriptor table by c05_reads_persisted_consistent)
    restored = set(rules.get("restored_counters", {}))
    acc = sorted((tidx[f], by_path[p_]["idx"]) for f in tus for p_ in rd["accesses"][f]
                 if p_ not in per and p_ not in restored and tj.get(p_, {}).get("class") not in unrestricted)
    o.append("/-- (translation unit, member index): accesses, found by walking the access chains of the file, to members")
    o.append("    that are neither persisted nor of a class that cannot influence the trajectory -/")
    o.append("def accesses : List (Nat × Nat) := [%s]" % ", ".join("(%d, %d)" % a for a in acc))
    o.append("def accessCount : Nat := %d" % len(acc))
    o.append("/-- number of all member accesses found (including persisted / harmless members) -/")
    o.append("def accessCountAll : Nat := %d" % len(acc_all))
    o.append("/-- members that are persisted by a row of the descriptor table -/")
    o.append("def persistedMembers : List Nat := [%s]" % ", ".join(str(by_path[p_]["idx"]) for p_ in sorted(per, key=lambda x: by_path[x]["idx"]) if p_ in by_path))
    o.append("/-- element counters of persisted arrays that are re-derived exactly from the payload size on load (ref/C05_reads.json) -/")
    o.append("def restoredCounters : List Nat := [%s]" % ", ".join(str(by_path[p_]["idx"]) for p_ in sorted(rules.get("restored_counters", {})) if p_ in by_path))
    o.append("/-- members whose class (callback, handle, wallclock, flag, pointer) cannot influence the trajectory -/")
    unr = sorted(by_path[p_]["idx"] for p_, v in tj.items() if p_ in by_path and v["class"] in unrestricted)
    o.append("def unrestrictedMembers : List Nat := [%s]" % ", ".join(map(str, unr)))
    own = []
    for p_, v in tj.items():
        if p_ in by_path and v["class"] not in unrestricted:
            for f in sorted(owners_of(p_, rules, tj)):
                if f in tidx:
                    own.append((tidx[f], by_path[p_]["idx"]))
    o.append("/-- (translation unit, member): the unit owns the not-persisted member (allocates / recomputes / resets it) -/")
    o.append("def owners : List (Nat × Nat) := [%s]" % ", ".join("(%d, %d)" % a for a in sorted(own)))
    al = sorted((tidx[e["tu"]], by_path[e["member"]]["idx"]) for e in rules["allowed"] if e["tu"] in tidx and e["member"] in by_path)
    o.append("/-- cross-owner accesses reviewed and accepted (ref/C05_reads.json `allowed`, each with a reason) -/")
    o.append("def allowed : List (Nat × Nat) := [%s]" % ", ".join("(%d, %d)" % a for a in al))
    fi = sorted((tidx[e["tu"]], by_path[e["member"]]["idx"]) for e in rules["findings"] if e["tu"] in tidx and e["member"] in by_path)
    o.append("/-- cross-owner accesses that ARE defects (ref/C05_reads.json `findings`, each with its key) -/")
    o.append("def findingRows : List (Nat × Nat) := [%s]" % ", ".join("(%d, %d)" % a for a in fi))
    o.append("def allowedCount : Nat := %d" % len(rules["allowed"]))
    o.append("def findingCount : Nat := %d" % len(rules["findings"]))
    o.append("")
    o.append("end RV.Gen.C05Reads")
    return "\n".join(o) + "\n"
