"""C16 — variational particles are the derivatives of the trajectory.

proof:   lean/RV/Props/C16.lean — over any field of characteristic 0, for every N: the
         hand-derived variational force loops of reb_calculate_acceleration_var (1st order
         with variational-mass terms, 1st-order test particle, 2nd order, 2nd-order test
         particle) are the eps-parts of the force model on dual numbers; move_to_com
         corrections are the eps-parts of the COM shift; rescale_var leaves exp(lrescale)*delta
         unchanged and never touches real particles / 2nd-order / lrescale<0 sets.
tie:     lean/RV/Model/Var.lean on IEEE doubles (drv_c16) vs the compiled gravity.c/tools.c,
         bit for bit; forward-mode AD of the Lean force model on Dual Float (an oracle that
         shares no algebra with REBOUND) vs the real variational accelerations (<=1e-12).
search:  all 65 reb_particle_derivative_* vs 60-digit finite differences of an independent
         element->Cartesian map (mpmath, ref/C16_mp.py); Richardson-extrapolated central
         differences of shadow simulations vs integrated variational particles (IAS15, BS
         orders 1,2; WHFast order 1; every vary() parameter and supported pair; test-particle
         variations; move_to_com); rescaling continuity; MEGNO -> 2, Lyapunov -> 0.
"""
import ctypes, json, math, os, pickle, re, select, signal, subprocess, sys, time, traceback
sys.path.insert(0, os.path.dirname(os.path.abspath(__file__)))
from common import *

VT = "python3-vt"
ORB = ["m", "a", "e", "inc", "Omega", "omega", "f"]
PAL = ["m", "a", "lambda", "h", "k", "ix", "iy"]
VARIATIONTYPES = ["m", "a", "e", "inc", "omega", "Omega", "f", "k", "h", "lambda", "ix", "iy"]  # particle.py order
CART = ["x", "y", "z", "vx", "vy", "vz"]


def cname(p, q=None):
    """C function suffix for a (pair of) variation parameter(s): particle.py orders pairs by VARIATIONTYPES"""
    if q is None:
        return p
    if VARIATIONTYPES.index(q) < VARIATIONTYPES.index(p):
        p, q = q, p
    return p + "_" + q


# ============================================================================ helpers
def gp_tokens(ps):
    t = []
    for p in ps:
        t += [d2h(p[0]), d2h(p[1]), d2h(p[2]), d2h(p[3])]
    return t


def vals(line):
    return [h2d(t) for t in line.split()]


def norm3(a):
    return math.sqrt(a[0] * a[0] + a[1] * a[1] + a[2] * a[2])


def gen_gravity_case(rng, n):
    """n real particles (m,x,y,z) well separated on a random scale, G random"""
    G = rng.choice([1.0, 1.0, 6.674e-11, 39.47841760435743, rng.loguniform(1e-3, 1e3)])
    L = rng.loguniform(1e-2, 1e2)
    m0 = rng.loguniform(1e-3, 1e3)
    kind = rng.randint(0, 2)
    ps = []
    for i in range(n):
        if i == 0 or kind == 1:
            m = m0 * rng.uniform(0.5, 2.0)
        elif kind == 0:
            m = m0 * 10 ** (-rng.uniform(1, 8))
        else:
            m = 0.0 if rng.chance(0.3) else m0 * 10 ** (-rng.uniform(0, 5))
        ps.append([m, L * rng.normal(), L * rng.normal(), L * rng.normal() * rng.choice([1.0, 0.05])])
    return G, L, m0, ps


def gen_var(rng, n, L, m0, massvar=True):
    s = rng.loguniform(1e-3, 1e3)
    out = []
    for i in range(n):
        dm = (m0 * rng.normal() * rng.choice([0.0, 1.0, 1e-3])) if massvar else 0.0
        out.append([dm, s * rng.normal(), s * rng.normal(), s * rng.normal()])
    return out


def scale1(G, ps, dv, i, others=None):
    """magnitude of the terms summed into the 1st-order variational acceleration of particle i"""
    s = 0.0
    for j in (range(len(ps)) if others is None else others):
        if j == i:
            continue
        r = norm3([ps[i][k] - ps[j][k] for k in (1, 2, 3)])
        dd = norm3([dv[i][k] - dv[j][k] for k in (1, 2, 3)])
        s += abs(G) * (abs(ps[j][0]) * 4 * dd / r ** 3 + abs(dv[j][0]) / r ** 2)
    return s


def scale2(G, ps, da, db, dd, i):
    s = 0.0
    for j in range(len(ps)):
        if j == i:
            continue
        r = norm3([ps[i][k] - ps[j][k] for k in (1, 2, 3)])
        a = norm3([da[i][k] - da[j][k] for k in (1, 2, 3)])
        b = norm3([db[i][k] - db[j][k] for k in (1, 2, 3)])
        c = norm3([dd[i][k] - dd[j][k] for k in (1, 2, 3)])
        s += abs(G) * (abs(ps[j][0]) * (4 * c / r ** 3 + 18 * a * b / r ** 4)
                       + (abs(da[j][0]) * b + abs(db[j][0]) * a) * 4 / r ** 3 + abs(dd[j][0]) / r ** 2)
    return s


class Cmp:
    """collects model-vs-implementation comparisons of one kind"""

    def __init__(self, name, tol):
        self.name, self.tol = name, tol
        self.n = 0
        self.nbit = 0
        self.worst = 0.0
        self.first = None

    def add(self, got, want, scales, info, per=3):
        """got/want: flat lists (3 per particle); scales: one per particle"""
        for k, (g, w) in enumerate(zip(got, want)):
            self.n += 1
            if d2h(g) == d2h(w):
                continue
            self.nbit += 1
            sc = max(scales[k // per], 1e-300)
            e = abs(g - w) / sc if (g == g and w == w) else float("inf")
            if e > self.worst:
                self.worst = e
            if not e <= self.tol and self.first is None:
                self.first = dict(info, component=k, model=g, impl=w, rel=e)
        if len(got) != len(want) and self.first is None:
            self.first = dict(info, model_len=len(got), impl_len=len(want))

    def report(self, c, kind):
        c.cov.setdefault("comparisons", {})[self.name] = {"values": self.n, "not_bitwise": self.nbit,
                                                          "worst_rel": float("%.3g" % self.worst), "tol": self.tol}
        if self.first is not None:
            if kind == "corr":
                c.corr_break("%s: Lean Float model and compiled code differ" % self.name, self.first)
            return self.first
        return None


# ============================================================================ tie: variational accelerations
def tie_accelerations(c, rebound, exe):
    clib = rebound.clibrebound
    ncases = 400 if c.thorough else 60
    lines, handlers = [], []
    cm = {k: Cmp(k, 1e-13) for k in ("force", "var1", "var2", "var1tp", "var2tp")}
    ad = {k: Cmp("AD:" + k, 1e-12) for k in ("var1", "var2", "var1tp", "var2tp")}
    hist = {}

    def push(toks, fn):
        lines.append(" ".join(toks))
        handlers.append(fn)

    for case in range(ncases):
        rng = c.rng.fork()
        n = rng.choice([2, 2, 3, 3, 4, 5, 6, 8]) if case % 7 else rng.randint(9, 24)
        if case == 3:
            n = 45          # 45 real + 3*45 + 3 variational = 183 particles: crosses the 128-entry allocation boundary
            c.cov["tie_big_N_cases"] = c.cov.get("tie_big_N_cases", 0) + 1
        hist[n] = hist.get(n, 0) + 1
        G, L, m0, ps = gen_gravity_case(rng, n)
        da = gen_var(rng, n, L, m0)
        db = gen_var(rng, n, L, m0, massvar=rng.chance(0.7))
        dd = gen_var(rng, n, L, m0, massvar=rng.chance(0.5))
        ti = rng.randint(0, n - 1)
        ta, tb, tdd = (gen_var(rng, 1, L, m0, False)[0] for _ in range(3))
        sim = rebound.Simulation()
        sim.G = G
        for p in ps:
            sim.add(m=p[0], x=p[1], y=p[2], z=p[3], vx=rng.normal(), vy=rng.normal(), vz=rng.normal())
        va = sim.add_variation()
        vb = sim.add_variation()
        vab = sim.add_variation(order=2, first_order=va, first_order_2=vb)
        vta = sim.add_variation(testparticle=ti)
        vtb = sim.add_variation(testparticle=ti)
        vtab = sim.add_variation(order=2, testparticle=ti, first_order=vta, first_order_2=vtb)
        for v, dat in ((va, da), (vb, db), (vab, dd)):
            q = v.particles
            for i in range(n):
                q[i].m, q[i].x, q[i].y, q[i].z = dat[i]
                q[i].vx, q[i].vy, q[i].vz = rng.normal(), rng.normal(), rng.normal()
        for v, dat in ((vta, ta), (vtb, tb), (vtab, tdd)):
            q = v.particles
            q[0].m, q[0].x, q[0].y, q[0].z = dat
        clib.reb_simulation_update_acceleration(ctypes.byref(sim))
        real = [sim.particles[i] for i in range(n)]
        acc = lambda q, k: [v for i in range(k) for v in (q[i].ax, q[i].ay, q[i].az)]
        info = dict(case=case, N=n, G=G, particles=ps)
        g = d2h(G)
        # force
        want = acc(real, n)
        fs = [sum(abs(G * ps[j][0]) / max(1e-300, norm3([ps[i][k] - ps[j][k] for k in (1, 2, 3)])) ** 2
                  for j in range(n) if j != i) for i in range(n)]
        push(["force", str(n), g, d2h(0.0)] + gp_tokens(ps),
             lambda out, want=want, fs=fs, info=info: cm["force"].add(vals(out), want, fs, info))
        # first order (two independent sets)
        for v, dat, tag in ((va, da, "a"), (vb, db, "b")):
            want = acc(v.particles, n)
            sc = [scale1(G, ps, dat, i) for i in range(n)]
            inf = dict(info, var=dat, set=tag)
            toks = [str(n), g] + gp_tokens(ps) + gp_tokens(dat)
            push(["var1"] + toks, lambda out, want=want, sc=sc, inf=inf: cm["var1"].add(vals(out), want, sc, inf))
            push(["ad1"] + toks, lambda out, want=want, sc=sc, inf=inf: ad["var1"].add(vals(out), want, sc, inf))
        # second order
        want = acc(vab.particles, n)
        sc = [scale2(G, ps, da, db, dd, i) for i in range(n)]
        inf = dict(info, var_a=da, var_b=db, var_2nd=dd)
        toks = [str(n), g] + gp_tokens(ps) + gp_tokens(da) + gp_tokens(db) + gp_tokens(dd)
        push(["var2"] + toks, lambda out, want=want, sc=sc, inf=inf: cm["var2"].add(vals(out), want, sc, inf))
        push(["ad2"] + toks, lambda out, want=want, sc=sc, inf=inf: ad["var2"].add(vals(out), want, sc, inf))
        # single test-particle variations of particle ti
        others = [ps[j] for j in range(n) if j != ti]
        z4 = [[0.0] * 4 for _ in range(n)]
        dsel = lambda d: [d if j == ti else [0.0] * 4 for j in range(n)]
        want = acc(vta.particles, 1)
        sc = [scale1(G, ps, dsel(ta), ti)]
        inf = dict(info, testparticle=ti, var=ta)
        toks = [g, d2h(ps[ti][1]), d2h(ps[ti][2]), d2h(ps[ti][3]), d2h(ta[1]), d2h(ta[2]), d2h(ta[3]),
                str(n - 1)] + gp_tokens(others)
        push(["var1tp"] + toks, lambda out, want=want, sc=sc, inf=inf: cm["var1tp"].add(vals(out), want, sc, inf))
        push(["ad1tp"] + toks, lambda out, want=want, sc=sc, inf=inf: ad["var1tp"].add(vals(out), want, sc, inf))
        want = acc(vtab.particles, 1)
        sc = [scale2(G, ps, dsel(ta), dsel(tb), dsel(tdd), ti)]
        inf = dict(info, testparticle=ti, var_a=ta, var_b=tb, var_2nd=tdd)
        toks = [g, d2h(ps[ti][1]), d2h(ps[ti][2]), d2h(ps[ti][3])] + [d2h(v) for v in tdd[1:] + ta[1:] + tb[1:]] + \
               [str(n - 1)] + gp_tokens(others)
        push(["var2tp"] + toks, lambda out, want=want, sc=sc, inf=inf: cm["var2tp"].add(vals(out), want, sc, inf))
        push(["ad2tp"] + toks, lambda out, want=want, sc=sc, inf=inf: ad["var2tp"].add(vals(out), want, sc, inf))
        c.count(("acc", n, case % 8), nontrivial=True, n=5)
        if case < 2:
            c.sample({"kind": "variational acceleration", "N": n, "G": G, "particle0": ps[0], "var1_0": da[0],
                      "real_var_acc0": acc(va.particles, 1)})
    # ---------------------------------------------------------------- N_active < N, both testparticle types
    for k in ("forceS", "var1S", "var2S"):
        cm[k] = Cmp(k, 1e-13)
    ad["var1S"] = Cmp("AD:var1S", 1e-12)
    cm["tp-active"] = Cmp("tp-active", 1e-13)
    ad["tp-active"] = Cmp("AD:tp-active", 1e-12)
    ad["var2S-massless"] = Cmp("AD:var2S-massless", 1e-12)
    excl = {"softening": Cmp("excluded:softening", 0.0), "var2-massive-testparticles": Cmp("excluded:var2-massive-tp", 0.0),
            "tp-branch-massive-inactive": Cmp("excluded:tp-branch-massive-inactive", 0.0)}
    variants = {}
    for case in range(ncases // 2):
        rng = c.rng.fork()
        n = rng.choice([2, 3, 3, 4, 5, 6, 8])
        na = rng.randint(1, n - 1)
        tptype = rng.randint(0, 1)
        massless = rng.chance(0.5)
        G, L, m0, ps = gen_gravity_case(rng, n)
        for i in range(na, n):
            ps[i][0] = 0.0 if massless else m0 * 10 ** (-rng.uniform(2, 6))
        da = gen_var(rng, n, L, m0)
        db = gen_var(rng, n, L, m0, massvar=rng.chance(0.7))
        dd = gen_var(rng, n, L, m0, massvar=rng.chance(0.5))
        if massless:
            for dat in (da, db, dd):
                for i in range(na, n):
                    dat[i][0] = 0.0
        sim = rebound.Simulation()
        sim.G = G
        for p in ps:
            sim.add(m=p[0], x=p[1], y=p[2], z=p[3])
        sim.N_active = na
        sim.testparticle_type = tptype
        va = sim.add_variation()
        sets = [(va, da)]
        if tptype == 0:
            vb = sim.add_variation()
            vab = sim.add_variation(order=2, first_order=va, first_order_2=vb)
            sets += [(vb, db), (vab, dd)]
        for v, dat in sets:
            q = v.particles
            for i in range(n):
                q[i].m, q[i].x, q[i].y, q[i].z = dat[i]
        tp1, tp1b, tpdd = (gen_var(rng, 1, L, m0, False)[0] for _ in range(3))
        tpa1, tpa1b, tpadd = (gen_var(rng, 1, L, m0, False)[0] for _ in range(3))
        ia = na - 1                                  # an ACTIVE particle varied through add_variation(testparticle=ia)
        vtpa1 = sim.add_variation(testparticle=ia)
        vtpa1.particles[0].m, vtpa1.particles[0].x, vtpa1.particles[0].y, vtpa1.particles[0].z = tpa1
        vtpa2 = None
        if tptype == 0:
            vtpa1b = sim.add_variation(testparticle=ia)
            vtpa2 = sim.add_variation(order=2, testparticle=ia, first_order=vtpa1, first_order_2=vtpa1b)
            for v_, d_ in ((vtpa1b, tpa1b), (vtpa2, tpadd)):
                v_.particles[0].m, v_.particles[0].x, v_.particles[0].y, v_.particles[0].z = d_
        if tptype == 0 and n - na >= 2:
            vtp1 = sim.add_variation(testparticle=n - 1)
            vtp1b = sim.add_variation(testparticle=n - 1)
            vtp2 = sim.add_variation(order=2, testparticle=n - 1, first_order=vtp1, first_order_2=vtp1b)
            for v_, d_ in ((vtp1, tp1), (vtp1b, tp1b), (vtp2, tpdd)):
                v_.particles[0].m, v_.particles[0].x, v_.particles[0].y, v_.particles[0].z = d_
        clib.reb_simulation_update_acceleration(ctypes.byref(sim))
        acc = lambda q, k: [v for i in range(k) for v in (q[i].ax, q[i].ay, q[i].az)]
        info = dict(case=case, N=n, N_active=na, testparticle_type=tptype, G=G, particles=ps)
        g = d2h(G)
        hdr = [str(na), str(tptype), str(n), g]
        want = acc([sim.particles[i] for i in range(n)], n)
        fs = [sum(abs(G * ps[j][0]) / norm3([ps[i][k] - ps[j][k] for k in (1, 2, 3)]) ** 2 for j in range(n) if j != i) + 1e-300 for i in range(n)]
        push(["forceS"] + hdr + [d2h(0.0)] + gp_tokens(ps),
             lambda out, want=want, fs=fs, info=info: cm["forceS"].add(vals(out), want, fs, info))
        want = acc(va.particles, n)
        sc = [scale1(G, ps, da, i) + 1e-300 for i in range(n)]
        inf = dict(info, var=da)
        toks = hdr + gp_tokens(ps) + gp_tokens(da)
        push(["var1S"] + toks, lambda out, want=want, sc=sc, inf=inf: cm["var1S"].add(vals(out), want, sc, inf))
        push(["ad1S"] + toks, lambda out, want=want, sc=sc, inf=inf: ad["var1S"].add(vals(out), want, sc, inf))
        if tptype == 0:
            want = acc(vab.particles, n)
            sc = [scale2(G, ps, da, db, dd, i) + 1e-300 for i in range(n)]
            inf = dict(info, var_a=da, var_b=db, var_2nd=dd)
            toks2 = gp_tokens(ps) + gp_tokens(da) + gp_tokens(db) + gp_tokens(dd)
            # unpatched code: the loop runs over all real pairs whatever N_active is (model accVar2); with
            # fixes/C16-var-nactive.diff: active outer loop, test particles do not act (model accVar2Split).
            # The compiled code must be bit-identical to one of the two.
            hold = {}
            push(["var2", str(n), g] + toks2, lambda out, hold=hold: hold.__setitem__("all", vals(out)))

            def h2s(out, hold=hold, want=want, sc=sc, inf=inf):
                split = vals(out)
                ha = [d2h(x) for x in hold["all"]]; hs_ = [d2h(x) for x in split]; hw = [d2h(x) for x in want]
                if hw == ha and hw != hs_:
                    variants["var2:all-pairs"] = variants.get("var2:all-pairs", 0) + 1
                    cm["var2S"].add(hold["all"], want, sc, inf)
                elif hw == hs_ and hw != ha:
                    variants["var2:split"] = variants.get("var2:split", 0) + 1
                    cm["var2S"].add(split, want, sc, inf)
                elif hw == ha:
                    variants["var2:indistinguishable"] = variants.get("var2:indistinguishable", 0) + 1
                    cm["var2S"].add(split, want, sc, inf)
                else:
                    cm["var2S"].add(hold["all"], want, sc, dict(inf, note="matches neither the all-pairs nor the N_active-aware model"))
            push(["var2S"] + hdr + toks2, h2s)
            tgt = ad["var2S-massless"] if massless else excl["var2-massive-testparticles"]
            push(["ad2S"] + hdr + toks2, lambda out, want=want, sc=sc, inf=inf, tgt=tgt: tgt.add(vals(out), want, sc, inf))
        # single test-particle variation of the ACTIVE particle ia: the force on it comes from the other active bodies and, for
        # testparticle_type 1, also from the bodies beyond N_active (rule of the force loops; gravity.c first-order branch
        # 'j>=N_active && (i>=N_active || !testparticle_type)', second-order branch: active j only)
        if n >= 3:
            for v_, order_ in ((vtpa1, 1), (vtpa2, 2)):
                if v_ is None:
                    continue
                js = [j for j in range(n) if j != ia and (j < na or (tptype == 1 and order_ == 1))]
                oth = [ps[j] for j in js]
                xyz = [d2h(ps[ia][1]), d2h(ps[ia][2]), d2h(ps[ia][3])]
                z_ = lambda d: [d if j == ia else [0.0] * 4 for j in range(n)]
                if order_ == 1:
                    extra = [d2h(x) for x in tpa1[1:]]
                    sct = [scale1(G, ps, z_(tpa1), ia, others=js) + 1e-300]
                    ops_ = ("var1tp", "ad1tp")
                else:
                    extra = [d2h(x) for x in tpadd[1:] + tpa1[1:] + tpa1b[1:]]
                    sct = [scale2(G, ps, z_(tpa1), z_(tpa1b), z_(tpadd), ia) + 1e-300]
                    ops_ = ("var2tp", "ad2tp")
                want_t = acc(v_.particles, 1)
                inft = dict(info, testparticle=ia, kind="active particle varied, order %d" % order_, others=js)
                toks_ = [g] + xyz + extra + [str(len(oth))] + gp_tokens(oth)
                push([ops_[0]] + toks_, lambda out, want_t=want_t, sct=sct, inft=inft: cm["tp-active"].add(vals(out), want_t, sct, inft))
                push([ops_[1]] + toks_, lambda out, want_t=want_t, sct=sct, inft=inft: ad["tp-active"].add(vals(out), want_t, sct, inft))
                variants["tp-active:type%d:o%d" % (tptype, order_)] = variants.get("tp-active:type%d:o%d" % (tptype, order_), 0) + 1
        if tptype == 0:
            pass
            # single test-particle variations of the last (inactive) particle, other inactive particles present
            if n - na >= 2:
                ti = n - 1
                for v_, dat_, tag_ in ((vtp1, tp1, "var1tp"), (vtp2, tpdd, "var2tp")):
                    want_t = acc(v_.particles, 1)
                    xyz = [d2h(ps[ti][1]), d2h(ps[ti][2]), d2h(ps[ti][3])]
                    allo = [ps[j] for j in range(n) if j != ti]
                    acto = [ps[j] for j in range(na)]
                    if tag_ == "var1tp":
                        extra = [d2h(x) for x in tp1[1:]]
                        sct = [scale1(G, ps, [tp1 if j == ti else [0.0] * 4 for j in range(n)], ti) + 1e-300]
                    else:
                        extra = [d2h(x) for x in tpdd[1:] + tp1[1:] + tp1b[1:]]
                        z_ = lambda d: [d if j == ti else [0.0] * 4 for j in range(n)]
                        sct = [scale2(G, ps, z_(tp1), z_(tp1b), z_(tpdd), ti) + 1e-300]
                    hold2 = {}
                    inft = dict(info, testparticle=ti, kind=tag_)
                    push([tag_, g] + xyz + extra + [str(len(allo))] + gp_tokens(allo), lambda out, hold2=hold2: hold2.__setitem__("all", vals(out)))

                    def htp(out, hold2=hold2, want_t=want_t, sct=sct, inft=inft, tag_=tag_):
                        act_ = vals(out)
                        hw = [d2h(x) for x in want_t]
                        if hw == [d2h(x) for x in hold2["all"]]:
                            variants[tag_ + ":all-real-j"] = variants.get(tag_ + ":all-real-j", 0) + 1
                            cm[tag_].add(hold2["all"], want_t, sct, inft)
                        else:
                            variants[tag_ + ":active-j"] = variants.get(tag_ + ":active-j", 0) + 1
                            cm[tag_].add(act_, want_t, sct, inft)
                    push([tag_, g] + xyz + extra + [str(len(acto))] + gp_tokens(acto), htp)
                    tg2 = ad[tag_] if massless else excl["tp-branch-massive-inactive"]
                    push(["ad" + tag_[3:] if False else ("ad1tp" if tag_ == "var1tp" else "ad2tp"), g] + xyz + extra + [str(len(acto))] + gp_tokens(acto),
                         lambda out, want_t=want_t, sct=sct, inft=inft, tg2=tg2: tg2.add(vals(out), want_t, sct, inft))
        c.count(("accS", n, na, tptype, massless), nontrivial=True, n=3)
    # ---------------------------------------------------------------- gravity_ignore_terms = 1, 2 (what WHFast sets)
    for k in ("forceI", "var1I"):
        cm[k] = Cmp(k, 1e-13)
    ad["var1I"] = Cmp("AD:var1I", 1e-12)
    for case in range(ncases // 3):
        rng = c.rng.fork()
        n = rng.choice([1, 2, 3, 3, 4, 5, 7])
        ign = rng.randint(1, 2)
        G, L, m0, ps = gen_gravity_case(rng, n)
        da = gen_var(rng, n, L, m0)
        sim = rebound.Simulation()
        sim.G = G
        for p in ps:
            sim.add(m=p[0], x=p[1], y=p[2], z=p[3])
        sim.gravity_ignore = ign
        va = sim.add_variation()
        q = va.particles
        for i in range(n):
            q[i].m, q[i].x, q[i].y, q[i].z = da[i]
        clib.reb_simulation_update_acceleration(ctypes.byref(sim))
        info = dict(case=case, N=n, gravity_ignore_terms=ign, G=G, particles=ps, var=da)
        want = [v for i in range(n) for v in (sim.particles[i].ax, sim.particles[i].ay, sim.particles[i].az)]
        fs = [sum(abs(G * ps[j][0]) / norm3([ps[i][k] - ps[j][k] for k in (1, 2, 3)]) ** 2 for j in range(n) if j != i) + 1e-300 for i in range(n)]
        push(["forceI", str(ign), str(n), d2h(G), d2h(0.0)] + gp_tokens(ps),
             lambda out, want=want, fs=fs, info=info: cm["forceI"].add(vals(out), want, fs, info))
        want = [v for i in range(n) for v in (q[i].ax, q[i].ay, q[i].az)]
        sc = [scale1(G, ps, da, i) + 1e-300 for i in range(n)]
        toks = [str(ign), str(n), d2h(G)] + gp_tokens(ps) + gp_tokens(da)
        push(["var1I"] + toks, lambda out, want=want, sc=sc, info=info: cm["var1I"].add(vals(out), want, sc, info))
        push(["ad1I"] + toks, lambda out, want=want, sc=sc, info=info: ad["var1I"].add(vals(out), want, sc, info))
        c.count(("accI", n, ign), nontrivial=n >= 3, n=3)
    # ---------------------------------------------------------------- WHFast interaction step: Jacobi term and its variation
    cm["whjac"] = Cmp("whjac", 1e-13)
    ad["whjac"] = Cmp("AD:whjac", 1e-12)
    P = rebound.Particle
    for case in range(ncases // 3):
        rng = c.rng.fork()
        n = rng.choice([3, 3, 4, 5])
        sim = rebound.Simulation()
        sim.G = rng.choice([1.0, rng.loguniform(1e-2, 1e2)])
        for i in range(n):
            sim.add(m=rng.loguniform(1e-4, 1.0), x=rng.normal(), y=rng.normal(), z=rng.normal())
        sim.integrator = "whfast"
        va = sim.add_variation()
        if clib.reb_integrator_whfast_init(ctypes.byref(sim)) != 0:
            c.corr_break("reb_integrator_whfast_init refused a first-order variation")
            break
        clib.reb_integrator_whfast_from_inertial(ctypes.byref(sim))
        pj = sim.ri_whfast._p_jh
        N = sim.N
        L = rng.loguniform(1e-2, 1e2)
        for k in range(N):
            sim.particles[k].ax = sim.particles[k].ay = sim.particles[k].az = 0.0
            pj[k].x, pj[k].y, pj[k].z = (L * rng.normal() for _ in range(3))
            pj[k].vx = pj[k].vy = pj[k].vz = 0.0
            pj[k].ax = pj[k].ay = pj[k].az = 0.0
            if 0 < k < n:
                pj[k].m = rng.loguniform(1e-4, 1.0)
        dt = rng.uniform(-0.1, 0.1)
        before = [(pj[k].m, pj[k].x, pj[k].y, pj[k].z) for k in range(N)]
        clib.reb_whfast_interaction_step(ctypes.byref(sim), ctypes.c_double(dt))
        eta = sim.particles[0].m
        for i in range(1, n):
            eta = eta + before[i][0]
            if i < 2:
                continue
            x, y, z = before[i][1:]
            dx, dy, dz = before[i + va.index][1:]
            want = [pj[i].vx, pj[i].vy, pj[i].vz, pj[i + va.index].vx, pj[i + va.index].vy, pj[i + va.index].vz]
            r = norm3([x, y, z])
            s0 = abs(dt * sim.G * eta) / r ** 2
            s1 = abs(dt * sim.G * eta) * 4 * norm3([dx, dy, dz]) / r ** 3
            toks = [d2h(v) for v in (sim.G, eta, dt, 0.0, x, y, z, dx, dy, dz)]
            inf = dict(case=case, N=n, i=i, G=sim.G, eta=eta, dt=dt, x=[x, y, z], dx=[dx, dy, dz])
            push(["whjac"] + toks, lambda out, want=want, s0=s0, s1=s1, inf=inf: cm["whjac"].add(vals(out), want, [s0, s1], inf))
            push(["adwhjac"] + toks, lambda out, want=want, s1=s1, inf=inf: ad["whjac"].add(vals(out), want[3:], [s1], inf))
            c.count(("whjac", n, i), nontrivial=True)
    # ---------------------------------------------------------------- kernels TRANSLATED from gravity.c, softening != 0
    for k in ("var1-translated-softened", "var2-translated-softened"):
        cm[k] = Cmp(k, 1e-13)
    ad["var1-softened"] = Cmp("AD:var1-softened", 1e-12)
    ad["var2-softened"] = Cmp("AD:var2-softened", 1e-12)
    for case in range(max(6, ncases // 6)):
        rng = c.rng.fork()
        n = rng.choice([2, 3, 4, 6])
        G, L, m0, ps = gen_gravity_case(rng, n)
        da = gen_var(rng, n, L, m0)
        db = gen_var(rng, n, L, m0, massvar=rng.chance(0.7))
        dd = gen_var(rng, n, L, m0, massvar=rng.chance(0.5))
        sim = rebound.Simulation()
        sim.G = G
        sim.softening = L * rng.uniform(0.05, 1.0) if case else 0.0
        for p in ps:
            sim.add(m=p[0], x=p[1], y=p[2], z=p[3])
        va = sim.add_variation(); vb = sim.add_variation()
        vab = sim.add_variation(order=2, first_order=va, first_order_2=vb)
        for v, dat in ((va, da), (vb, db), (vab, dd)):
            q = v.particles
            for i in range(n):
                q[i].m, q[i].x, q[i].y, q[i].z = dat[i]
        clib.reb_simulation_update_acceleration(ctypes.byref(sim))
        acc = lambda q, k: [v for i in range(k) for v in (q[i].ax, q[i].ay, q[i].az)]
        s2h = d2h(sim.softening * sim.softening)
        inf = dict(case=case, N=n, G=G, softening=sim.softening, particles=ps, var_a=da, var_b=db, var_2nd=dd)
        want = acc(va.particles, n)
        sc = [scale1(G, ps, da, i) + 1e-300 for i in range(n)]
        toks = [str(n), d2h(G), s2h] + gp_tokens(ps) + gp_tokens(da)
        push(["var1g"] + toks, lambda out, want=want, sc=sc, inf=inf: cm["var1-translated-softened"].add(vals(out), want, sc, inf))
        push(["ad1soft"] + toks, lambda out, want=want, sc=sc, inf=inf: ad["var1-softened"].add(vals(out), want, sc, inf))
        want = acc(vab.particles, n)
        sc = [scale2(G, ps, da, db, dd, i) + 1e-300 for i in range(n)]
        toks = [str(n), d2h(G), s2h] + gp_tokens(ps) + gp_tokens(da) + gp_tokens(db) + gp_tokens(dd)
        push(["var2g"] + toks, lambda out, want=want, sc=sc, inf=inf: cm["var2-translated-softened"].add(vals(out), want, sc, inf))
        push(["ad2soft"] + toks, lambda out, want=want, sc=sc, inf=inf: ad["var2-softened"].add(vals(out), want, sc, inf))
        c.count(("acc-translated-softened", n), nontrivial=True, n=4)
    # ---------------------------------------------------------------- excluded points, measured: softening != 0
    for case in range(max(4, ncases // 10)):
        rng = c.rng.fork()
        n = rng.choice([2, 3, 4])
        G, L, m0, ps = gen_gravity_case(rng, n)
        da = gen_var(rng, n, L, m0)
        sim = rebound.Simulation()
        sim.G = G
        sim.softening = L * rng.uniform(0.1, 1.0)
        for p in ps:
            sim.add(m=p[0], x=p[1], y=p[2], z=p[3])
        va = sim.add_variation()
        q = va.particles
        for i in range(n):
            q[i].m, q[i].x, q[i].y, q[i].z = da[i]
        clib.reb_simulation_update_acceleration(ctypes.byref(sim))
        want = [v for i in range(n) for v in (q[i].ax, q[i].ay, q[i].az)]
        sc = [scale1(G, ps, da, i) + 1e-300 for i in range(n)]
        push(["ad1soft", str(n), d2h(G), d2h(sim.softening ** 2)] + gp_tokens(ps) + gp_tokens(da),
             lambda out, want=want, sc=sc, rep=dict(N=n, G=G, softening=sim.softening, particles=ps, var=da): excl["softening"].add(vals(out), want, sc, rep))
        c.count(("excluded-softening", n), nontrivial=True)
    c.log("tie: %d model lines through drv_c16" % len(lines))
    out = run_driver(exe, lines)
    if len(out) != len(lines):
        c.corr_break("driver returned %d lines for %d ops" % (len(out), len(lines)))
        return
    for o, h in zip(out, handlers):
        h(o)
    for k in cm:
        cm[k].report(c, "corr")
    c.cov["excluded_points_measured_discrepancy"] = {k: {"values": v.n, "worst_rel": float("%.3g" % v.worst)} for k, v in excl.items() if v.n}
    c.cov["N_active_code_variant_matched"] = variants
    # the three inconsistencies make C16 false for softened systems / massive inactive particles: findings with signature-specific keys
    for ek, fk, what in (("softening", "F20:var-ignores-softening",
                          "reb_calculate_acceleration_var leaves softening out of r^2 while the force includes it: variational accelerations are not the derivative of the softened force"),
                         ("var2-massive-testparticles", "F21:var2-ignores-N_active",
                          "the second-order variational loop runs over all real pairs whatever N_active is: wrong when inactive particles have mass (testparticle_type 0)"),
                         ("tp-branch-massive-inactive", "F22:var-testparticle-branch-ignores-N_active",
                          "the single test-particle variation branches sum over all real j, the force only over active j: wrong when other inactive particles have mass")):
        v = excl[ek]
        if v.n and v.worst > 1e-9:
            c.violation(fk, "%s (AD oracle: rel %.3g)" % (what, v.worst), v.first or {"rel": v.worst})
    for k in ad:
        bad = ad[k].report(c, "search")
        if bad is not None:
            c.violation("AD:" + k, "hand-derived variational code (%s: %s) is not the derivative of the force "
                        "(forward-mode AD of the Lean force model on Dual Float disagrees, rel %.3g)" %
                        (k, "reb_whfast_interaction_step" if k == "whjac" else "reb_calculate_acceleration_var", bad["rel"]), bad)
    c.cov["tie_N_histogram"] = {str(k): v for k, v in sorted(hist.items())}


# ============================================================================ tie: move_to_com corrections, rescale_var
def tie_com_rescale(c, rebound, exe):
    clib = rebound.clibrebound
    ncases = 200 if c.thorough else 40
    lines, handlers = [], []
    cm = {k: Cmp(k, 1e-13) for k in ("com1", "com2", "rescale")}
    adc = {k: Cmp("AD:" + k, 1e-11) for k in ("com1", "com2")}
    untouched = {"testparticle_sets_moved": 0, "rescale_real_particles_modified": 0}
    branch = {}

    def push(toks, fn):
        lines.append(" ".join(toks))
        handlers.append(fn)

    def fsum(xs):
        s = 0.0
        for x in xs:
            s = s + x
        return s

    # ---------------------------------------------------------------- move_to_com
    for case in range(ncases):
        rng = c.rng.fork()
        n = rng.choice([1, 2, 2, 3, 4, 5, 7])
        m0 = rng.loguniform(1e-3, 1e3)
        L = rng.loguniform(1e-2, 1e2)
        off = L * rng.normal() * rng.choice([0, 1, 10])
        real = [[m0 * (1.0 if i == 0 else 10 ** (-rng.uniform(0, 6)))] + [off + L * rng.normal() for _ in range(6)] for i in range(n)]

        def rv(mass=True):
            s = rng.loguniform(1e-3, 1e3)
            return [[(m0 * rng.normal() * rng.choice([0.0, 1.0, 1e-3])) if mass else 0.0] + [s * rng.normal() for _ in range(6)] for _ in range(n)]
        da, db, dd = rv(), rv(rng.chance(0.7)), rv(rng.chance(0.5))
        sim = rebound.Simulation()
        for p in real:
            sim.add(m=p[0], x=p[1], y=p[2], z=p[3], vx=p[4], vy=p[5], vz=p[6])
        va = sim.add_variation(); vb = sim.add_variation()
        vab = sim.add_variation(order=2, first_order=va, first_order_2=vb)
        vt = sim.add_variation(testparticle=rng.randint(0, n - 1))
        for v, dat in ((va, da), (vb, db), (vab, dd)):
            q = v.particles
            for i in range(n):
                q[i].m, q[i].x, q[i].y, q[i].z, q[i].vx, q[i].vy, q[i].vz = dat[i]
        tdat = [rng.normal() for _ in range(7)]
        q = vt.particles
        q[0].m, q[0].x, q[0].y, q[0].z, q[0].vx, q[0].vy, q[0].vz = tdat
        sim.move_to_com()
        M = fsum(p[0] for p in real)
        if [q[0].m, q[0].x, q[0].y, q[0].z, q[0].vx, q[0].vy, q[0].vz] != tdat:
            untouched["testparticle_sets_moved"] += 1
        for k, comp in enumerate(CART, start=1):
            # first order, both sets
            for v, dat, tag in ((va, da, "a"), (vb, db, "b")):
                new = [getattr(v.particles[i], comp) for i in range(n)]
                toks = [str(n)] + [d2h(t) for i in range(n) for t in (real[i][0], real[i][k], dat[i][0], dat[i][k])]
                sc = (sum(abs(real[i][0] * dat[i][k]) + abs(real[i][k] * dat[i][0]) for i in range(n)) / abs(M)
                      + sum(abs(real[i][0] * real[i][k]) for i in range(n)) * abs(fsum(d[0] for d in dat)) / M ** 2)
                inf = dict(case=case, N=n, comp=comp, set=tag, real=real, var=dat)

                def h1(out, new=new, dat=dat, k=k, sc=sc, inf=inf, n=n):
                    sh = h2d(out.split()[0])
                    cm["com1"].add([dat[i][k] - sh for i in range(n)], new, [max(sc, abs(dat[i][k])) for i in range(n)], inf, per=1)

                def h1ad(out, new=new, dat=dat, k=k, sc=sc, inf=inf):
                    sh = h2d(out.split()[0])
                    adc["com1"].add([sh], [dat[0][k] - new[0]], [max(sc, abs(dat[0][k]))], inf, per=1)
                push(["com1", d2h(M)] + toks, h1)
                push(["adcom1"] + toks, h1ad)
            new = [getattr(vab.particles[i], comp) for i in range(n)]
            toks = [str(n)] + [d2h(t) for i in range(n) for t in (real[i][0], real[i][k], da[i][0], da[i][k], db[i][0], db[i][k], dd[i][0], dd[i][k])]
            dma, dmb, ddm = (abs(fsum(d[0] for d in dat)) for dat in (da, db, dd))
            sc = (sum(abs(real[i][0] * dd[i][k]) + abs(da[i][0] * db[i][k]) + abs(db[i][0] * da[i][k]) + abs(dd[i][0] * real[i][k]) for i in range(n)) / abs(M)
                  + sum(abs(real[i][0] * da[i][k]) + abs(da[i][0] * real[i][k]) for i in range(n)) * dmb / M ** 2
                  + sum(abs(real[i][0] * db[i][k]) + abs(db[i][0] * real[i][k]) for i in range(n)) * dma / M ** 2
                  + sum(abs(real[i][0] * real[i][k]) for i in range(n)) * (ddm / M ** 2 + 2 * dma * dmb / abs(M) ** 3))
            inf = dict(case=case, N=n, comp=comp, real=real, var_a=da, var_b=db, var_2nd=dd)

            def h2(out, new=new, k=k, sc=sc, inf=inf, dd=dd, n=n):
                sh = h2d(out.split()[0])
                cm["com2"].add([dd[i][k] - sh for i in range(n)], new, [max(sc, abs(dd[i][k])) for i in range(n)], inf, per=1)

            def h2ad(out, new=new, k=k, sc=sc, inf=inf, dd=dd):
                sh = h2d(out.split()[0])
                adc["com2"].add([sh], [dd[0][k] - new[0]], [max(sc, abs(dd[0][k]))], inf, per=1)
            push(["com2", d2h(M)] + toks, h2)
            push(["adcom2"] + toks, h2ad)
        c.count(("com", n, case % 8), nontrivial=n >= 2, n=3)
    # ---------------------------------------------------------------- rescale_var called directly
    whchk = {"cases": 0, "flag_expected_1": 0, "flag_wrong": 0, "p_jh_checked": 0, "p_jh_modified": 0, "first": None}
    # which shape of the WHFast branch does this source tree have (model follows the source; unknown shape = no rule)
    import extract_c16
    try:
        wh_variant = extract_c16.whfast_rescale_branch(REPO)
    except Exception as ex:
        wh_variant = None
        c.corr_break("reb_simulation_rescale_var: the WHFast branch has neither of the two shapes the tie has a rule for "
                     "(flag set iff rescaled [and safe_mode==0]; nothing else touched): %s" % str(ex)[:300])
    whchk["variant"] = wh_variant
    whchk["flag_expected_1_safe_mode_1"] = 0
    for case in range(ncases * 2):
        rng = c.rng.fork()
        n = rng.choice([1, 2, 3, 4])
        sim = rebound.Simulation()
        for i in range(n):
            sim.add(m=rng.uniform(0.1, 1), x=rng.normal() * 1e100 * rng.choice([1, 1e-100]), y=rng.normal(), z=rng.normal(),
                    vx=rng.normal(), vy=rng.normal(), vz=rng.normal())
        cfgs = []
        firsts = []
        ncfg = rng.randint(1, 5)
        force_wh = (case % 6 == 0)      # deterministic share of cases in the WHFast safe_mode=0 branch with allocated Jacobi coordinates
        for v in range(ncfg):
            tp = rng.randint(0, n - 1) if (rng.chance(0.3) and not force_wh) else -1
            if firsts and rng.chance(0.3) and not force_wh:
                cand = [f for f in firsts if (f[1] >= 0) == (tp >= 0)]
                if cand:
                    fa, fb = rng.choice(cand), rng.choice(cand)
                    vc = sim.add_variation(order=2, first_order=fa[0], first_order_2=fb[0], testparticle=tp)
                    cfgs.append((vc, 2, tp))
                    continue
            vc = sim.add_variation(testparticle=tp)
            firsts.append((vc, tp))
            cfgs.append((vc, 1, tp))
        big = rng.choice([1e100, 1e100, 1e101, 1e99, 1e150, 1.0]) if not force_wh else 1e101
        for vc, order, tp in cfgs:
            q = vc.particles
            mag = big * rng.choice([0.05, 0.5, 0.999, 1.001, 2.0, 30.0])
            for i in range(len(q)):
                for comp in CART:
                    setattr(q[i], comp, mag * rng.normal() * rng.choice([1.0, 1.0, 1e-30]))
                if rng.chance(0.03):
                    setattr(q[i], rng.choice(CART), rng.choice([float("inf"), float("nan"), -float("inf")]))
            lr = rng.choice([0.0, 0.0, 0.0, -1.0, 230.25850929940458, rng.uniform(-2, 500)]) if not force_wh else 0.0
            vc.lrescale = lr
        integ = rng.choice(["ias15", "whfast", "whfast", "leapfrog", "eos"]) if not force_wh else "whfast"
        sim.integrator = integ
        unsync = rng.chance(0.4) and not force_wh
        if integ == "whfast":
            sim.ri_whfast.is_synchronized = 0 if unsync else 1
        if integ == "eos":
            sim.ri_eos.is_synchronized = 0 if unsync else 1
        sync = not (integ in ("whfast", "eos") and unsync)
        N = sim.N
        nreal = N - sim.N_var
        wh_safe = None
        pj_before = None
        if integ == "whfast":
            wh_safe = rng.randint(0, 1) if not force_wh else (case // 6) % 2 if wh_variant == "any-mode" else 0
            sim.ri_whfast.safe_mode = wh_safe
            if all(o == 1 and tp_ < 0 for _, o, tp_ in cfgs) and (rng.chance(0.7) or force_wh):
                # allocate and fill the cached Jacobi coordinates (only possible when WHFast accepts all sets)
                if clib.reb_integrator_whfast_init(ctypes.byref(sim)) == 0:
                    clib.reb_integrator_whfast_from_inertial(ctypes.byref(sim))
                    sim.ri_whfast.is_synchronized = 0 if unsync else 1
                    pj = sim.ri_whfast._p_jh
                    pj_before = [d2h(getattr(pj[k], comp)) for k in range(N) for comp in CART]
            sim.ri_whfast.recalculate_coordinates_this_timestep = 0
        before = [[getattr(sim.particles[k], comp) for comp in CART] for k in range(N)]
        lrs = [sim.var_config[v]._lrescale for v in range(ncfg)]
        toks = ["rescale", d2h(1e100), str(nreal), "1" if sync else "0", str(ncfg)]
        for v, (vc, order, tp) in enumerate(cfgs):
            toks += [str(order), str(vc.index), "1" if tp >= 0 else "0", d2h(lrs[v])]
        toks += [str(N)] + [d2h(x) for row in before for x in row]
        clib.reb_simulation_rescale_var(ctypes.byref(sim))
        after = [[getattr(sim.particles[k], comp) for comp in CART] for k in range(N)]
        lrs2 = [sim.var_config[v]._lrescale for v in range(ncfg)]
        warn = sim._var_rescale_warning
        if [[d2h(x) for x in r] for r in after[:nreal]] != [[d2h(x) for x in r] for r in before[:nreal]]:
            untouched["rescale_real_particles_modified"] += 1
        changed = sum(1 for a, b in zip(lrs, lrs2) if d2h(a) != d2h(b))
        if integ == "whfast":
            # WHFast branch of rescale_var: with safe_mode 0 the cached Jacobi coordinates are stale after a rescale -> the
            # routine must request their recalculation and must not touch them itself
            flag = sim.ri_whfast.recalculate_coordinates_this_timestep
            # pinned shape: only with safe_mode 0; repaired shape (a9d135c): in any mode (safe_mode may be switched off before the next step)
            want_flag = 1 if (changed > 0 and (wh_safe == 0 or wh_variant == "any-mode")) else 0
            whchk["cases"] += 1
            whchk["flag_expected_1"] += want_flag
            whchk["flag_expected_1_safe_mode_1"] += 1 if (want_flag and wh_safe == 1) else 0
            if flag != want_flag:
                whchk["flag_wrong"] += 1
                whchk["first"] = whchk["first"] or dict(case=case, safe_mode=wh_safe, rescaled_sets=changed, flag=flag, expected=want_flag)
            if pj_before is not None:
                pj = sim.ri_whfast._p_jh
                whchk["p_jh_checked"] += 1
                if [d2h(getattr(pj[k], comp)) for k in range(N) for comp in CART] != pj_before:
                    whchk["p_jh_modified"] += 1
                    whchk["first"] = whchk["first"] or dict(case=case, safe_mode=wh_safe, rescaled_sets=changed, note="rescale_var modified the cached Jacobi coordinates p_jh")
        bk = "rescaled=%d warn=%d" % (min(changed, 2), warn & 3)
        branch[bk] = branch.get(bk, 0) + 1
        inf = dict(case=case, N_real=nreal, integrator=integ, synchronized=sync, configs=[(o, vc.index, tp) for vc, o, tp in cfgs], lrescale=lrs)

        def hr(out, lrs2=lrs2, warn=warn, after=after, ncfg=ncfg, inf=inf):
            t = out.split()
            got_lr = [h2d(x) for x in t[:ncfg]]
            w = (1 if t[ncfg] == "1" else 0) | (2 if t[ncfg + 1] == "1" else 0)
            mem = [h2d(x) for x in t[ncfg + 2:]]
            flat = [x for r in after for x in r]
            # bitwise: the routine only divides and takes one log
            cm["rescale"].add(got_lr + [float(w)] + mem, lrs2 + [float(warn & 3)] + flat, [0.0] * (len(flat) + ncfg + 4), inf, per=1)
        push(toks, hr)
        c.count(("rescale", ncfg, bk), nontrivial=changed > 0 or (warn & 3) != 0)
    c.log("tie: %d com/rescale model lines through drv_c16" % len(lines))
    out = run_driver(exe, lines)
    if len(out) != len(lines):
        c.corr_break("driver returned %d lines for %d com/rescale ops" % (len(out), len(lines)))
        return
    for o, h in zip(out, handlers):
        h(o)
    for k in cm:
        cm[k].report(c, "corr")
    for k in adc:
        bad = adc[k].report(c, "search")
        if bad is not None:
            c.violation("AD:" + k, "move_to_com variational correction (%s) is not the derivative of the centre-of-mass shift (rel %.3g)" % (k, bad["rel"]), bad)
    c.cov["rescale_whfast_branch"] = {k: v for k, v in whchk.items() if k != "first"}
    if whchk["flag_wrong"] or whchk["p_jh_modified"]:
        c.corr_break("reb_simulation_rescale_var, WHFast branch: recalculate_coordinates_this_timestep wrong in %d cases, cached Jacobi "
                     "coordinates modified in %d cases" % (whchk["flag_wrong"], whchk["p_jh_modified"]), whchk["first"])
    if whchk["flag_expected_1"] == 0 or whchk["p_jh_checked"] == 0:
        c.corr_break("rescale tie never reached the WHFast safe_mode=0 branch with a rescale (%s)" % whchk)
    if wh_variant == "any-mode" and whchk["flag_expected_1_safe_mode_1"] == 0:
        c.corr_break("rescale tie never reached the WHFast branch in safe mode with a rescale (%s)" % whchk)
    c.cov["rescale_branches"] = branch
    c.cov["untouched_checks"] = untouched
    if untouched["testparticle_sets_moved"]:
        c.violation("com:testparticle-set-moved", "move_to_com changed a single test-particle variation", {})
    if untouched["rescale_real_particles_modified"]:
        c.violation("rescale:real-particle-modified", "reb_simulation_rescale_var modified a real particle", {})


# ============================================================================ tie: corrector schedule replayed through the exported primitives
def tie_corrector_schedule(c, rebound, exe):
    """reb_whfast_apply_corrector (static helper reb_whfast_corrector_Z) vs the Lean schedule `correctorPair`
    replayed op by op through the exported primitives, with variational particles present: bit for bit."""
    clib = rebound.clibrebound
    P = rebound.Particle
    cd, cu = ctypes.c_double, ctypes.c_uint
    src = open(os.path.join(REPO, "src", "integrator_whfast.c")).read()
    A = {int(k): float(v) for k, v in re.findall(r"reb_whfast_corrector_a_(\d+)\s*=\s*([-+0-9.eE]+)\s*;", src)}
    B = {k: float(v) for k, v in re.findall(r"reb_whfast_corrector_b_(\d+)\s*=\s*([-+0-9.eE]+)\s*;", src)}
    stages = {3: 1, 5: 2, 7: 3, 11: 5, 17: 8}
    c.cov["corrector_constants_extracted"] = {"a": len(A), "b": len(B)}
    if sorted(A) != list(range(1, 9)) or len(B) != sum(stages.values()):
        c.corr_break("integrator_whfast.c: expected 8 corrector a-constants and 19 b-constants, found %d and %d" % (len(A), len(B)))
        return
    ncmp = nbad = 0
    first = None
    lines, metas = [], []
    for order, n in stages.items():
        for inv in (1.0, -1.0):
            rng = c.rng.fork()
            dt = rng.uniform(0.01, 0.2) * rng.choice([1, -1])
            bs = [B["%d%d" % (order, k)] for k in range(1, n + 1)]
            lines.append(" ".join(["corrsched", str(order), d2h(inv), d2h(dt), "8"] + [d2h(A[k]) for k in range(1, 9)] +
                                  [str(n)] + [d2h(b) for b in bs]))
            metas.append((order, inv, dt, rng))
    out = run_driver(exe, lines)
    if len(out) != len(lines):
        c.corr_break("driver returned %d lines for %d corrector schedules" % (len(out), len(lines)))
        return
    for sched, (order, inv, dt, rng) in zip(out, metas):
        nreal = rng.choice([3, 4])
        nsets = rng.choice([1, 2])
        seed = rng.next()

        def make():
            rr = SplitMix(seed)
            sim = rebound.Simulation()
            sim.add(m=1.0)
            for i in range(1, nreal):
                sim.add(m=rr.loguniform(1e-5, 1e-2), a=1.0 + 0.9 * i + rr.uniform(0, 0.3), e=rr.uniform(0, 0.3), inc=rr.uniform(0, 0.3),
                        Omega=rr.uniform(0, 6), omega=rr.uniform(0, 6), f=rr.uniform(0, 6))
            sim.integrator = "whfast"
            sim.dt = dt
            vs = [sim.add_variation() for _ in range(nsets)]
            for v in vs:
                q = v.particles
                for i in range(nreal):
                    for comp in CART:
                        setattr(q[i], comp, rr.normal())
            if clib.reb_integrator_whfast_init(ctypes.byref(sim)) != 0:
                raise Infra("reb_integrator_whfast_init failed in corrector tie")
            clib.reb_integrator_whfast_from_inertial(ctypes.byref(sim))
            return sim, vs
        simA, _ = make()
        simB, vsB = make()
        clib.reb_whfast_apply_corrector(ctypes.byref(simA), cd(inv), ctypes.c_int(order))
        base = ctypes.addressof(simB._particles.contents)
        pjb = ctypes.addressof(simB.ri_whfast._p_jh.contents)
        PP = ctypes.POINTER(P)
        at = lambda b_, k: ctypes.cast(b_ + k * ctypes.sizeof(P), PP)
        for tok in sched.split(" ; "):
            t = tok.split()
            if t[0] == "K":
                clib.reb_whfast_kepler_step(ctypes.byref(simB), cd(h2d(t[1])))
            elif t[0] == "RR":
                clib.reb_particles_transform_jacobi_to_inertial_pos(at(base, 0), at(pjb, 0), at(base, 0), cu(nreal), cu(nreal))
            elif t[0] == "RV":
                for v in vsB:
                    clib.reb_particles_transform_jacobi_to_inertial_pos(at(base, v.index), at(pjb, v.index), at(base, 0), cu(nreal), cu(nreal))
            elif t[0] == "A":
                clib.reb_simulation_update_acceleration(ctypes.byref(simB))
            elif t[0] == "I":
                clib.reb_whfast_interaction_step(ctypes.byref(simB), cd(h2d(t[1])))
            else:
                c.corr_break("unknown op in corrector schedule: " + tok)
                return
        N = simA.N
        pa, pb = simA.ri_whfast._p_jh, simB.ri_whfast._p_jh
        for k in range(N):
            for comp in CART:
                for (x, y, where) in ((getattr(pa[k], comp), getattr(pb[k], comp), "p_jh"),
                                      (getattr(simA.particles[k], comp) if k < nreal else 0.0,
                                       getattr(simB.particles[k], comp) if k < nreal else 0.0, "particles")):
                    ncmp += 1
                    if d2h(x) != d2h(y):
                        nbad += 1
                        if first is None:
                            first = dict(order=order, inv=inv, dt=dt, N_real=nreal, var_sets=nsets, index=k, variational=k >= nreal, component=comp,
                                         array=where, real_apply_corrector=x, replayed_schedule=y)
        c.count(("corrector-schedule", order, inv), nontrivial=True)
    c.cov.setdefault("comparisons", {})["corrector_schedule_replay"] = {"values": ncmp, "not_bitwise": nbad}
    if nbad:
        c.corr_break("reb_whfast_apply_corrector differs from the Lean schedule replayed through the exported primitives "
                     "(%d of %d values; first: order %d, %s particle %d)" % (nbad, ncmp, first["order"], "variational" if first["variational"] else "real", first["index"]), first)


# ============================================================================ translator: derivatives.c -> RV/Gen/C16Deriv.lean, and its tie
def regenerate_derivs(c):
    import extract_c16
    try:
        text, fams, total = extract_c16.generate(REPO)
    except Exception as ex:
        c.corr_break("translator rv/extract_c16.py cannot translate derivatives.c: %s" % str(ex)[:300])
        return None
    write_if_changed(os.path.join(LEAN, "RV", "Gen", "C16Deriv.lean"), text)
    try:
        dtext, dinfo = extract_c16.generate_dispatch(REPO)
        write_if_changed(os.path.join(LEAN, "RV", "Gen", "C16Dispatch.lean"), dtext)
        c.cov["dispatch_table"] = dinfo
        if dinfo["types"] < 12 or dinfo["c_functions"] < 65 or len(dinfo["documented"]) < 2:
            c.corr_break("dispatch extraction found less than expected: %s" % dinfo)
    except Exception as ex:
        c.corr_break("translator cannot extract the vary() dispatch table from particle.py: %s" % str(ex)[:200])
    try:
        vtext, vinfo = extract_c16.generate_varloops(REPO)
        write_if_changed(os.path.join(LEAN, "RV", "Gen", "C16VarLoops.lean"), vtext)
        c.cov["varloops_translated"] = vinfo
        if vinfo["loops"] != 5 or vinfo["statements"] < 140:
            c.corr_break("var-loop translation found %d loops / %d statements (5 / >=140 expected)" % (vinfo["loops"], vinfo["statements"]))
    except Exception as ex:
        c.corr_break("translator cannot translate the loops of reb_calculate_acceleration_var: %s" % str(ex)[:300])
    try:
        rtext, rinfo = extract_c16.generate_rescale(REPO)
        write_if_changed(os.path.join(LEAN, "RV", "Gen", "C16Rescale.lean"), rtext)
        c.cov["rescale_ias15_table"] = rinfo
        if rinfo["members"] < 13:
            c.corr_break("rescale extraction found only %d per-particle IAS15 arrays in rebound.h (13 expected)" % rinfo["members"])
    except Exception as ex:
        c.corr_break("translator cannot extract the IAS15 array list of reb_simulation_rescale_var: %s" % str(ex)[:200])
    src = open(os.path.join(REPO, "src", "derivatives.c")).read()
    nsrc = len(re.findall(r"^struct reb_particle reb_particle_derivative_\w+\s*\(", src, flags=re.M))
    c.cov["translator"] = {"functions_in_source": nsrc, "functions_translated": len(fams), "statements_translated": total,
                           "pal_family": sum(1 for v in fams.values() if v == "pal"), "orbit_family": sum(1 for v in fams.values() if v == "orb")}
    if nsrc != len(fams) or len(fams) != 65 or total < 1000:
        c.corr_break("translator found %d of %d derivative functions (%d statements); expected 65 / >1000" % (len(fams), nsrc, total))
    return fams


def tie_generated_derivatives(c, rebound, exe, fams):
    """the generated Lean functions on Float vs the compiled reb_particle_derivative_* (bitwise), and
    palMap / orbMap vs reb_particle_from_pal / reb_particle_from_orbit"""
    if not fams:
        return
    clib = rebound.clibrebound
    P = rebound.Particle
    cd = ctypes.c_double
    clib.reb_particle_from_orbit.restype = P
    clib.reb_particle_from_pal.restype = P
    clib.reb_orbit_from_particle.restype = rebound.Orbit
    out0 = run_driver(exe, ["derivcount"])
    if out0[0].split() != [str(len(fams)), str(c.cov["translator"]["statements_translated"])]:
        c.corr_break("driver was built from a different generated file: %s" % out0[0])
    ncases = 120 if c.thorough else 25
    lines, wants, metas = [], [], []
    for case in range(ncases):
        rng = c.rng.fork()
        G = rng.choice([1.0, 39.47841760435743, rng.loguniform(1e-2, 1e2)])
        M = rng.loguniform(0.1, 10)
        m = M * rng.loguniform(1e-7, 0.3)
        prim = P(m=M)     # at rest at the origin: the maps are relative to the primary
        a = rng.loguniform(0.3, 30)
        e = rng.choice([rng.uniform(0.0, 0.3), rng.uniform(0.3, 0.9)])
        po = clib.reb_particle_from_orbit(cd(G), prim, cd(m), cd(a), cd(e), cd(rng.uniform(0.01, 2.8)), cd(rng.uniform(0, 6.28)),
                                          cd(rng.uniform(0, 6.28)), cd(rng.uniform(0, 6.28)))
        pa, pl, pk, ph, pix, piy, pp, pq = (cd() for _ in range(8))
        clib.reb_tools_particle_to_pal(cd(G), po, prim, *[ctypes.byref(x) for x in (pa, pl, pk, ph, pix, piy)])
        clib.reb_tools_solve_kepler_pal(ph, pk, pl, ctypes.byref(pp), ctypes.byref(pq))
        o = clib.reb_orbit_from_particle(cd(G), po, prim)
        palargs = [G, m, M, pa.value, pl.value, pk.value, ph.value, pix.value, piy.value, pp.value, pq.value]
        orbargs = [G, m, M, o.a, o.e, o.inc, o.Omega, o.omega, o.f]
        for name, fam in fams.items():
            fn = getattr(clib, "reb_particle_derivative_" + name)
            fn.restype = P
            q = fn(cd(G), prim, po)
            lines.append(" ".join(["deriv", name] + [d2h(v) for v in (palargs if fam == "pal" else orbargs)]))
            wants.append([q.m, q.x, q.y, q.z, q.vx, q.vy, q.vz])
            metas.append(("reb_particle_derivative_" + name, case))
            c.count(("gen-deriv", name), nontrivial=True)
        # constructors
        q = clib.reb_particle_from_pal(cd(G), prim, cd(m), pa, pl, pk, ph, pix, piy)
        lines.append(" ".join(["palmap"] + [d2h(v) for v in palargs]))
        wants.append([q.m, q.x, q.y, q.z, q.vx, q.vy, q.vz]); metas.append(("reb_particle_from_pal", case))
        q = clib.reb_particle_from_orbit(cd(G), prim, cd(m), *[cd(v) for v in orbargs[3:]])
        lines.append(" ".join(["orbmap"] + [d2h(v) for v in orbargs]))
        wants.append([q.m, q.x, q.y, q.z, q.vx, q.vy, q.vz]); metas.append(("reb_particle_from_orbit", case))
        c.count(("gen-map", case % 4), nontrivial=True, n=2)
    out = run_driver(exe, lines)
    nv = nb = 0
    first = None
    worst = 0.0
    for l, o_, w, mt in zip(lines, out, wants, metas):
        if o_ == "bad-op":
            nb += 7
            first = first or dict(function=mt[0], line=l[:200], error="driver does not know this function")
            continue
        g = vals(o_)
        for k in range(7):
            nv += 1
            if d2h(g[k]) != d2h(w[k]):
                nb += 1
                sc = max(abs(x) for x in w[1:4]) if 1 <= k <= 3 else (max(abs(x) for x in w[4:]) if k >= 4 else 1.0)
                e = abs(g[k] - w[k]) / max(sc, 1e-300)
                worst = max(worst, e)
                if not e <= 1e-13 and first is None:
                    first = dict(function=mt[0], case=mt[1], component=k, generated_lean=g, compiled_c=w, rel=e, op_line=l[:400])
    c.cov.setdefault("comparisons", {})["generated_derivatives"] = {"values": nv, "not_bitwise": nb, "worst_rel": float("%.3g" % worst),
                                                                    "functions": len(fams), "tol": 1e-13}
    if first is not None:
        c.corr_break("generated Lean translation of %s differs from the compiled function" % first["function"], first)


def tie_dispatch(c, rebound, exe):
    """the Lean dispatch model (on the generated table) vs the real Particle(variation=, variation2=): for every pair of
    names incl. shortcuts and an unknown name, same C function / same kind of exception"""
    clib = rebound.clibrebound
    P = rebound.Particle
    cd = ctypes.c_double
    sim = rebound.Simulation()
    sim.add(m=1.0)
    sim.add(m=1e-3, a=1.0, e=0.1, inc=0.2, Omega=0.3, omega=0.4, f=0.5)
    names = VARIATIONTYPES + ["l", "i", "x", "E"]
    lines = ["dispatch1 " + v for v in names] + ["dispatch2 %s %s" % (u, v) for u in names for v in names]
    out = run_driver(exe, lines)
    nbad, first = 0, None
    for l, want in zip(lines, out):
        t = l.split()
        kw = dict(variation=t[1]) if t[0] == "dispatch1" else dict(variation=t[1], variation2=t[2])
        try:
            pv = P(simulation=sim, particle=sim.particles[1], **kw)
            got = "ok"
        except ValueError:
            got = "ValueError"
        except AttributeError:
            got = "AttributeError"
        except Exception as ex:
            got = type(ex).__name__
        fn = getattr(clib, "reb_particle_derivative_" + want, None) if want != "ValueError" else None
        if want == "ValueError":
            ok = got == "ValueError"
        elif fn is None:
            ok = got == "AttributeError"
        else:
            fn.restype = P
            pw = fn(cd(sim.G), sim.particles[0], sim.particles[1])
            ok = got == "ok" and [pv.x, pv.y, pv.z, pv.vx, pv.vy, pv.vz, pv.m] == [pw.x, pw.y, pw.z, pw.vx, pw.vy, pw.vz, pw.m]
        c.count(("dispatch", l), nontrivial=True)
        if not ok:
            nbad += 1
            first = first or dict(call=l, model_says=want, python_layer=got)
    c.cov.setdefault("comparisons", {})["vary_dispatch"] = {"calls": len(lines), "disagreements": nbad}
    if nbad:
        c.corr_break("Particle(variation=...) dispatch differs from the Lean model on the generated table (%d of %d calls)" % (nbad, len(lines)), first)
        c.violation("python:vary-dispatch", "Particle(variation=%s) does not reach reb_particle_derivative_%s (%s)" %
                    (first["call"].split()[1:], first["model_says"], first["python_layer"]), first)


def tie_megno_bookkeeping(c, rebound, exe):
    """reb_tools_megno_update / reb_simulation_megno / reb_simulation_lyapunov vs the Lean Float model, bit for bit"""
    clib = rebound.clibrebound
    cd = ctypes.c_double
    clib.reb_simulation_megno.restype = cd
    clib.reb_simulation_lyapunov.restype = cd
    ncases = 200 if c.thorough else 40
    lines, wants = [], []
    for case in range(ncases):
        rng = c.rng.fork()
        n = rng.choice([1, 1, 2, 3, 5, 10, 40])
        sgn = rng.choice([1.0, 1.0, -1.0])
        t = 0.0 if rng.chance(0.05) else sgn * rng.loguniform(1e-3, 10)
        sim = rebound.Simulation()
        toks = ["megno"]
        for k in range(n):
            dt = sgn * rng.loguniform(1e-3, 1.0)
            if k > 0 or t != 0.0:
                t = t + dt
            dY = rng.normal() * rng.choice([1.0, 1e-6, 1e3])
            sim.t = t
            clib.reb_tools_megno_update(ctypes.byref(sim), cd(dY), cd(dt))
            toks += [d2h(t), d2h(dY), d2h(dt)]
        lines.append(" ".join(toks))
        wants.append([sim._megno_Ys, sim._megno_Yss, sim._megno_cov_Yt, sim._megno_var_t, sim._megno_mean_Y, sim._megno_mean_t,
                      clib.reb_simulation_megno(ctypes.byref(sim)), clib.reb_simulation_lyapunov(ctypes.byref(sim)), float(sim._megno_n)])
        c.count(("megno-update", n), nontrivial=n >= 2)
    out = run_driver(exe, lines)
    nv = nb = 0
    first = None
    for l, o_, w in zip(lines, out, wants):
        t_ = o_.split()
        g = [h2d(x) for x in t_[:8]] + [float(t_[8])]
        for k in range(9):
            nv += 1
            if d2h(g[k]) != d2h(w[k]):
                nb += 1
                first = first or dict(field=["Ys", "Yss", "cov_Yt", "var_t", "mean_Y", "mean_t", "megno()", "lyapunov()", "n"][k],
                                      model=g[k], impl=w[k], updates=(len(l.split()) - 1) // 3, op_line=l[:300])
    c.cov.setdefault("comparisons", {})["megno_bookkeeping"] = {"values": nv, "not_bitwise": nb}
    if nb:
        c.corr_break("reb_tools_megno_update differs from the Lean Float model (%d of %d values; first: %s)" % (nb, nv, first["field"]), first)


# ============================================================================ public entry points (extracted) are all exercised
def tie_entry_points(c, rebound, exe):
    """every DLLEXPORT function of rebound.h and every public Python method/property that reaches the variational machinery is
    extracted from the sources and exercised here (smoke + oracle where one applies); the other phases use them heavily, this
    phase makes 'each one at least once per run' an explicit obligation"""
    clib = rebound.clibrebound
    P = rebound.Particle
    cd = ctypes.c_double
    hdr = open(os.path.join(REPO, "src", "rebound.h")).read()
    cfun = sorted(set(re.findall(r"DLLEXPORT[^;\n(]*?\b(reb_\w*(?:variation|megno|lyapunov|rescale_var|particle_derivative)\w*)\s*\(", hdr)))
    pys = open(os.path.join(REPO, "rebound", "simulation.py")).read()
    pyv = open(os.path.join(REPO, "rebound", "variation.py")).read()
    pym = ["Simulation." + n for n in sorted(set(re.findall(r"^    def (\w*(?:variation|megno|lyapunov)\w*)\s*\(", pys, flags=re.M)))]
    pym += ["Variation." + n for n in sorted(set(re.findall(r"^    def ((?!_)\w+)\s*\(", pyv, flags=re.M)))]
    pym.append("Particle(variation=, variation2=, primary=)")
    done = set()
    bad = []

    def chk(name, ok, detail=None):
        done.add(name)
        if not ok:
            bad.append((name, detail))

    def mk():
        sim = rebound.Simulation()
        sim.add(m=1.0)
        sim.add(m=1e-3, a=1.0, e=0.1, inc=0.1, Omega=0.3, omega=0.4, f=0.5)
        sim.add(m=5e-4, a=2.1, e=0.05, inc=0.2, Omega=1.3, omega=2.4, f=1.5)
        return sim
    # C: add_variation_1st_order / 2nd_order vs the Python method
    sa, sb = mk(), mk()
    ia = clib.reb_simulation_add_variation_1st_order(ctypes.byref(sa), ctypes.c_int(-1))
    va = sb.add_variation()
    chk("reb_simulation_add_variation_1st_order", ia == va.index == 3 and sa.N == sb.N == 6 and sa.N_var == 3)
    chk("Simulation.add_variation", va.order == 1 and va.testparticle == -1)
    ib = clib.reb_simulation_add_variation_1st_order(ctypes.byref(sa), ctypes.c_int(2))
    i2 = clib.reb_simulation_add_variation_2nd_order(ctypes.byref(sa), ctypes.c_int(-1), ctypes.c_int(ia), ctypes.c_int(ia))
    vb = sb.add_variation(testparticle=2)
    v2 = sb.add_variation(order=2, first_order=va)
    chk("reb_simulation_add_variation_2nd_order", ib == vb.index == 6 and i2 == v2.index == 7 and sa.N == sb.N == 10 and sa.N_var_config == 3
        and sa.var_config[2].index_1st_order_a == ia and sb.var_config[2].index_1st_order_b == va.index)
    # Variation.particles / vary / lrescale
    va.vary(1, "a")
    fn = clib.reb_particle_derivative_a; fn.restype = P
    w = fn(cd(sb.G), sb.particles[0], sb.particles[1])
    q = va.particles[1]
    chk("Variation.vary", [q.x, q.y, q.z, q.vx, q.vy, q.vz] == [w.x, w.y, w.z, w.vx, w.vy, w.vz])
    chk("Variation.particles", len(va.particles) == 3 and len(vb.particles) == 1 and ctypes.addressof(va.particles[1]) == ctypes.addressof(sb.particles[va.index + 1]))
    com = sb.com()
    va.vary(2, "e", primary=com)
    fn = clib.reb_particle_derivative_e; fn.restype = P
    w = fn(cd(sb.G), com, sb.particles[2])
    q = va.particles[2]
    pv = P(simulation=sb, particle=sb.particles[2], variation="e", variation2="f", primary=com)
    fn2 = clib.reb_particle_derivative_e_f; fn2.restype = P
    w2 = fn2(cd(sb.G), com, sb.particles[2])
    chk("Particle(variation=, variation2=, primary=)", [q.x, q.vy] == [w.x, w.vy] and [pv.x, pv.y, pv.vz] == [w2.x, w2.y, w2.vz])
    va.lrescale = 3.5
    chk("Variation.lrescale", va.lrescale == 3.5 and sb.var_config[0]._lrescale == 3.5)
    # rescale_var direct (oracle: the Float model ties it bitwise in tie-com-rescale); here: smoke on the C entry point
    for comp in CART:
        setattr(va.particles[0], comp, 2e100)
    lr0 = va.lrescale
    clib.reb_simulation_rescale_var(ctypes.byref(sb))
    chk("reb_simulation_rescale_var", abs(va.lrescale - (lr0 + math.log(2e100))) < 1e-12 and va.particles[0].x == 1.0)
    # MEGNO entry points
    s1, s2, s3 = mk(), mk(), mk()
    clib.reb_simulation_init_megno_seed(ctypes.byref(s1), ctypes.c_uint(7))
    s2.init_megno(seed=7)
    s3.init_megno()
    n1 = sum(getattr(s1.particles[k], comp) ** 2 for k in range(3, 6) for comp in CART) / 3
    same = all(d2h(getattr(s1.particles[k], comp)) == d2h(getattr(s2.particles[k], comp)) for k in range(3, 6) for comp in CART)
    chk("reb_simulation_init_megno_seed", same and abs(n1 - 1) < 1e-12 and s1._calculate_megno == 3)
    chk("Simulation.init_megno", same and s3.N_var == 3 and s3._calculate_megno == 3)
    s4 = mk()
    clib.reb_simulation_init_megno(ctypes.byref(s4))
    chk("reb_simulation_init_megno", s4.N_var == 3 and s4._calculate_megno == 3 and s4._megno_n == 0)
    clib.reb_simulation_megno.restype = cd
    clib.reb_simulation_lyapunov.restype = cd
    for s_ in (s1, s2):
        s_.integrator = "whfast"; s_.dt = 0.05
        s_.integrate(50.0)
    chk("reb_simulation_megno", d2h(clib.reb_simulation_megno(ctypes.byref(s1))) == d2h(s2.megno()) and abs(s2.megno() - 2) < 0.5)
    chk("Simulation.megno", s2.megno() == s2._megno_Yss / s2.t)
    chk("reb_simulation_lyapunov", d2h(clib.reb_simulation_lyapunov(ctypes.byref(s1))) == d2h(s2.lyapunov()))
    chk("Simulation.lyapunov", s2.lyapunov() == s2._megno_cov_Yt / s2._megno_var_t)
    nder = sum(1 for f in cfun if f.startswith("reb_particle_derivative_"))
    gd = c.cov.get("comparisons", {}).get("generated_derivatives", {})
    for f in cfun:
        if f.startswith("reb_particle_derivative_"):
            # all of them are called and compared bitwise with their generated Lean translation in tie-generated-derivatives
            if gd.get("functions") == nder and gd.get("not_bitwise", 1) == 0:
                done.add(f)
    missing = [f for f in cfun + pym if f not in done]
    c.cov["entry_points"] = {"c_functions_extracted": len(cfun), "python_extracted": pym, "exercised": len(done), "missing": missing,
                             "failed": [b[0] for b in bad]}
    c.count(("entry-points",), nontrivial=True, n=len(done))
    if len(cfun) < 7 + 65 or len(pym) < 8:
        c.corr_break("entry-point extraction found too little: %d C functions, %d Python names" % (len(cfun), len(pym)))
    if missing:
        c.corr_break("public entry points of the variational machinery not exercised in this run: " + ", ".join(missing[:8]))
    for name, _ in bad:
        c.violation("entry-point:" + name, "public entry point %s does not do what its counterpart / documentation says" % name, {"entry_point": name})


# ============================================================================ search: the 65 derivative constructors
def kepler_pal_residual(h, k, lam, p, q):
    f0 = q * math.cos(p) + p * math.sin(p) - (k * math.cos(lam) + h * math.sin(lam))
    f1 = -q * math.sin(p) + p * math.cos(p) - (k * math.sin(lam) - h * math.cos(lam))
    return math.hypot(f0, f1)


def search_derivatives(c, rebound):
    clib = rebound.clibrebound
    P = rebound.Particle
    cd = ctypes.c_double
    clib.reb_particle_from_orbit.restype = P
    clib.reb_particle_from_pal.restype = P
    # every reb_particle_derivative_* defined in the source must be exercised
    src = open(os.path.join(REPO, "src", "derivatives.c")).read()
    defined = sorted(set(re.findall(r"^struct reb_particle reb_particle_derivative_(\w+)\s*\(", src, flags=re.M)))
    want = set()
    for fam in (ORB, PAL):
        for i, p in enumerate(fam):
            want.add(cname(p))
            for q in fam[i:]:
                want.add(cname(p, q))
    c.cov["derivative_functions_in_source"] = len(defined)
    c.cov["derivative_functions_exercised"] = len(want & set(defined))
    if set(defined) != want:
        c.corr_break("derivatives.c defines %d reb_particle_derivative_* functions but the oracle covers %d: %s" %
                     (len(defined), len(want), sorted(set(defined) ^ want)[:6]))
    ncases = 400 if c.thorough else 40
    cases = []
    for i in range(ncases):
        rng = c.rng.fork()
        G = rng.choice([1.0, 1.0, 39.47841760435743, rng.loguniform(1e-2, 1e2)])
        prim = [rng.loguniform(0.1, 10)] + [rng.normal() * rng.choice([0, 1]) for _ in range(6)]
        a = rng.loguniform(0.3, 30)
        e = rng.choice([rng.uniform(0.02, 0.19), rng.uniform(0.2, 0.2999), rng.uniform(0.3, 0.85)])
        inc = rng.choice([rng.uniform(0.03, 1.0), rng.uniform(1.0, 2.8)])
        Om, pom, ang = rng.uniform(0, 2 * math.pi), rng.uniform(0, 2 * math.pi), rng.uniform(0, 2 * math.pi)
        if i % 2 == 0:
            kind, el = "orb", [a, e, inc, Om, pom - Om, ang]
        else:
            if rng.chance(0.15):
                e = rng.choice([0.0, 1e-9, 1e-4])
            if rng.chance(0.15):
                inc = rng.choice([0.0, 1e-9, 1e-4])
            kind = "pal"
            el = [a, ang, e * math.sin(pom), e * math.cos(pom), 2 * math.sin(inc / 2) * math.cos(Om), 2 * math.sin(inc / 2) * math.sin(Om)]
        cases.append(dict(G=G, prim=prim, m=prim[0] * rng.loguniform(1e-7, 3e-1), kind=kind, el=el, e=e))
    # the known bad region of the Pal Kepler solver, hit deliberately (F18)
    cases.append(dict(G=1.0, prim=[1.0, 0, 0, 0, 0, 0, 0], m=1e-3, kind="pal", e=0.29954,
                      el=[1.0, -1.3951939681592602, -0.073914473183605, 0.2902846752009857, 0.1, 0.05]))
    pr = subprocess.run([VT, os.path.join(ROOT, "ref", "C16_mp.py")], input=json.dumps({"cases": cases}),
                        capture_output=True, text=True, timeout=900)
    if pr.returncode != 0:
        raise Infra("mpmath reference failed: " + pr.stderr[-1500:])
    ref = json.loads(pr.stdout)
    worst = {}
    worst_ctor = {"orb": 0.0, "pal": 0.0}
    fails, f18 = [], []
    tested = set()
    for ci, (cs, r) in enumerate(zip(cases, ref)):
        G = cs["G"]
        prim = P(m=cs["prim"][0], x=cs["prim"][1], y=cs["prim"][2], z=cs["prim"][3], vx=cs["prim"][4], vy=cs["prim"][5], vz=cs["prim"][6])
        if cs["kind"] == "orb":
            po = clib.reb_particle_from_orbit(cd(G), prim, cd(cs["m"]), *[cd(v) for v in cs["el"]])
        else:
            a, lam, h, k, ix, iy = cs["el"]
            po = clib.reb_particle_from_pal(cd(G), prim, cd(cs["m"]), cd(a), cd(lam), cd(k), cd(h), cd(ix), cd(iy))
        rel = [r["cart"][j] - cs["prim"][1 + j] for j in range(6)]
        sp = max(abs(v) for v in rel[:3]); sv = max(abs(v) for v in rel[3:])
        got = [po.x, po.y, po.z, po.vx, po.vy, po.vz]
        ector = max(max(abs(got[j] - r["cart"][j]) for j in range(3)) / sp, max(abs(got[j] - r["cart"][j]) for j in range(3, 6)) / sv)
        # is this case inside the non-converged region of reb_tools_solve_kepler_pal?  (measured, not assumed)
        pm = P(m=cs["m"], x=r["cart"][0], y=r["cart"][1], z=r["cart"][2], vx=r["cart"][3], vy=r["cart"][4], vz=r["cart"][5])
        pa, pl, pk, ph, pix, piy = (cd() for _ in range(6))
        clib.reb_tools_particle_to_pal(cd(G), pm, prim, *[ctypes.byref(x) for x in (pa, pl, pk, ph, pix, piy)])
        pp, pq = cd(0), cd(0)
        clib.reb_tools_solve_kepler_pal(ph, pk, pl, ctypes.byref(pp), ctypes.byref(pq))
        unconv = kepler_pal_residual(ph.value, pk.value, pl.value, pp.value, pq.value) > 1e-13
        worst_ctor[cs["kind"]] = max(worst_ctor[cs["kind"]], 0.0 if unconv else ector)
        if not ector <= 1e-9:
            rep = dict(case=cs, constructor=got, reference=r["cart"], rel=ector, pal_solver_unconverged=unconv)
            (f18 if (unconv and cs["kind"] == "pal") else fails).append(("ctor:" + cs["kind"], rep))
        for name, w in list(r["d1"].items()) + list(r["d2"].items()):
            cn = cname(*name.split("_"))
            fn = getattr(clib, "reb_particle_derivative_" + cn, None)
            if fn is None:
                fails.append(("deriv:" + cn, dict(error="symbol missing")))
                continue
            fn.restype = P
            q = fn(cd(G), prim, pm)
            got = [q.x, q.y, q.z, q.vx, q.vy, q.vz]
            wm = (1.0 if name == "m" else 0.0)
            # scale: size of the derivative of the position / velocity vector, floored by value/parameter scale
            dsp = max(max(abs(v) for v in w[:3]), 1e-6 * sp)
            dsv = max(max(abs(v) for v in w[3:]), 1e-6 * sv)
            e = max(max(abs(got[j] - w[j]) for j in range(3)) / dsp, max(abs(got[j] - w[j]) for j in range(3, 6)) / dsv)
            if q.m != wm:
                e = float("inf")
            tested.add(cn)
            c.count(("deriv", cs["kind"], cn), nontrivial=True)
            key = cs["kind"] + ":" + cn
            pal_based = cs["kind"] == "pal" or cn in ("m", "a", "m_m", "m_a", "a_a")
            if unconv and pal_based:
                if not e <= 1e-9:
                    f18.append(("deriv:" + cn, dict(case=cs, function=cn, got=got, reference=w, rel=e)))
                continue
            worst[key] = max(worst.get(key, 0.0), e)
            if not e <= 1e-9:
                fails.append(("deriv:" + cn, dict(case=cs, function="reb_particle_derivative_" + cn, got=got + [q.m], reference=w + [wm], rel=e)))
    c.cov["derivative_functions_tested"] = len(tested)
    c.cov["derivatives_worst_rel"] = {k: float("%.3g" % v) for k, v in sorted(worst.items(), key=lambda kv: -kv[1])[:12]}
    c.cov["constructor_vs_mpmath_worst_rel"] = {k: float("%.3g" % v) for k, v in worst_ctor.items()}
    c.cov["F18_mismatches_in_unconverged_region"] = len(f18)
    if f18:
        k, rep = max(f18, key=lambda kr: kr[1].get("rel", 0))
        c.violation("F18:pal-kepler-lowe-unconverged",
                    "reb_tools_solve_kepler_pal not converged (transposed Jacobian): %s off by rel %.3g" % (k, rep.get("rel", 0)), rep)
    seen = set()
    for k, rep in fails:
        if k not in seen:
            seen.add(k)
            c.violation(k, "%s does not match the 60-digit finite difference of the element->Cartesian map (rel %.3g)" % (k, rep.get("rel", float("nan"))), rep)
    if c.thorough or True:
        # python layer: vary() dispatch for a few supported and unsupported pairs
        sim = rebound.Simulation()
        sim.add(m=1.0)
        sim.add(m=1e-3, a=1.0, e=0.1, inc=0.2, Omega=0.3, omega=0.4, f=0.5)
        nbad = 0
        for fam in (ORB, PAL):
            for i, p in enumerate(fam):
                for q in fam[i:]:
                    for (u, v) in ((p, q), (q, p)):
                        try:
                            pv = rebound.Particle(simulation=sim, particle=sim.particles[1], variation=u, variation2=v)
                            fn = getattr(clib, "reb_particle_derivative_" + cname(u, v)); fn.restype = P
                            pw = fn(cd(sim.G), sim.particles[0], sim.particles[1])
                            if [pv.x, pv.y, pv.z, pv.vx, pv.vy, pv.vz, pv.m] != [pw.x, pw.y, pw.z, pw.vx, pw.vy, pw.vz, pw.m]:
                                nbad += 1
                        except Exception as ex:
                            nbad += 1
                        c.count(("vary-dispatch", u, v), nontrivial=True)
        if nbad:
            c.violation("python:vary-dispatch", "Particle(variation=, variation2=) does not dispatch to the matching C derivative for %d pairs" % nbad, {})


# ============================================================================ search: shadow simulations
def orb2pal(el):
    a, e, inc, Om, om, f = el
    pom = Om + om
    E = 2 * math.atan2(math.sqrt(1 - e) * math.sin(f / 2), math.sqrt(1 + e) * math.cos(f / 2))
    return [a, E - e * math.sin(E) + pom, e * math.sin(pom), e * math.cos(pom),
            2 * math.sin(inc / 2) * math.cos(Om), 2 * math.sin(inc / 2) * math.sin(Om)]


class System:
    """star + bodies given by heliocentric elements (classical or Pal); shifts are applied to the
    elements / masses before the body is constructed, Cartesian shifts afterwards"""

    def __init__(self, rebound, G, m0, bodies, nactive=None):
        self.rb, self.G, self.m0, self.bodies, self.nactive = rebound, G, m0, bodies, nactive
        self.clib = rebound.clibrebound
        self.clib.reb_particle_from_orbit.restype = rebound.Particle
        self.clib.reb_particle_from_pal.restype = rebound.Particle

    def with_kind(self, idx, kind):
        b = list(self.bodies)
        m, k0, el = b[idx - 1]
        if k0 != kind:
            assert k0 == "orb"
            b[idx - 1] = (m, "pal", orb2pal(el))
        return System(self.rb, self.G, self.m0, b, self.nactive)

    def build(self, integ, shifts=None, opts=None):
        cd = ctypes.c_double
        shifts = shifts or {}
        opts = opts or {}
        sim = self.rb.Simulation()
        sim.G = self.G
        sim.add(m=self.m0)
        for i, (m, kind, el) in enumerate(self.bodies, start=1):
            names = ORB if kind == "orb" else PAL
            v = [m] + list(el)
            for j, nm in enumerate(names):
                v[j] += shifts.get((i, nm), 0.0)
            prim = sim.particles[0]
            if kind == "orb":
                p = self.clib.reb_particle_from_orbit(cd(self.G), prim, cd(v[0]), *[cd(x) for x in v[1:]])
            else:
                a, lam, h, k, ix, iy = v[1:]
                p = self.clib.reb_particle_from_pal(cd(self.G), prim, cd(v[0]), cd(a), cd(lam), cd(k), cd(h), cd(ix), cd(iy))
            sim.add(p)
        for (i, par), dl in shifts.items():
            if par in CART:
                setattr(sim.particles[i], par, getattr(sim.particles[i], par) + dl)
            elif par == "m_cart":
                sim.particles[i].m = sim.particles[i].m + dl
        if self.nactive is not None:
            sim.N_active = self.nactive
        sim.integrator = integ
        if integ in ("whfast", "leapfrog"):
            sim.dt = opts.get("dt", 0.01)
        if "dt0" in opts:
            sim.dt = opts["dt0"]        # initial step of the adaptive integrators (far too large: forces rejected steps)
        if "setup" in opts:
            opts["setup"](sim)          # cross-cutting dimensions: options / callbacks applied to the base run and to every shadow
        if integ == "whfast":
            for k in ("corrector", "corrector2", "safe_mode", "kernel", "keep_unsynchronized"):
                if k in opts:
                    setattr(sim.ri_whfast, k, opts[k])
        if integ == "bs":
            sim.ri_bs.eps_rel = 1e-12
            sim.ri_bs.eps_abs = 1e-12
        return sim


def is_element(par):
    return par not in CART and par != "m_cart"


def init_first(v, slot, idx, par):
    if par in CART:
        setattr(v.particles[slot], par, 1.0)
    elif par == "m_cart":
        v.particles[slot].m = 1.0
    else:
        v.vary(idx, par)


def family_ok(p1, p2):
    """pairs for which a second-order constructor exists"""
    return (p1 in ORB and p2 in ORB) or (p1 in PAL and p2 in PAL)


def step_for(par, order):
    if par in ("m", "m_cart"):
        return 1e-4 if order == 1 else 2e-4
    return 1e-4 if order == 1 else 1e-3


def state_of(sim, idxs):
    out = []
    for i in idxs:
        p = sim.particles[i]
        out += [p.x, p.y, p.z, p.vx, p.vy, p.vz]
    return out


def var_state(v, slots):
    out = []
    for i in slots:
        p = v.particles[i]
        out += [p.x, p.y, p.z, p.vx, p.vy, p.vz]
    return out


def rel_err(var, fd):
    n = len(fd) // 6
    sp = max(max(abs(fd[6 * i + k]) for i in range(n) for k in range(3)), 1e-300)
    sv = max(max(abs(fd[6 * i + k]) for i in range(n) for k in range(3, 6)), 1e-300)
    e = 0.0
    for i in range(n):
        for k in range(6):
            x = abs(var[6 * i + k] - fd[6 * i + k]) / (sp if k < 3 else sv)
            if not x <= e:
                e = x if x == x else float("inf")
    return e


def shadow_case(sy, integ, T, keys, com, tp, opts):
    """returns (relative error, oracle uncertainty, var, fd).  keys: [(idx,par)] (1st order) or two of them
    (2nd order).  tp: index of a single test-particle variation or None.  The finite-difference oracle
    is a two-level Richardson (Romberg) extrapolation of central differences with steps h/2, h, 2h;
    its own uncertainty is the difference of the two first-level extrapolations."""
    nreal = 1 + len(sy.bodies)
    idxs = [tp] if tp is not None else list(range(nreal))
    slots = [0] if tp is not None else idxs
    slot = (lambda i: 0) if tp is not None else (lambda i: i)
    tparg = tp if tp is not None else -1
    shrink = opts.get("shrink", min(1.0, (10.0 / abs(T)) ** 0.45))

    def finish(sim):
        if com:
            sim.move_to_com()
        if "history" in opts:
            return opts["history"](sim, T)      # may return another Simulation object (copy / restored)
        sim.integrate(T, exact_finish_time=opts.get("exact_finish_time", 1))
        return sim

    def run(sh):
        sim = sy.build(integ, sh, opts)
        return state_of(finish(sim), idxs)

    def read_var(ret, index):
        out = []
        for i_ in slots:
            p = ret.particles[index + i_]
            out += [p.x, p.y, p.z, p.vx, p.vy, p.vz]
        return out
    sim = sy.build(integ, None, opts)
    if len(keys) == 1:
        (i, par), = keys
        v = sim.add_variation(testparticle=tparg)
        init_first(v, slot(i), i, par)
        ret_ = finish(sim)
        var = read_var(ret_, v.index)
        if "var_logscale" in opts:          # events that rescale the stored variation (rescale_var, user factor): undo in log space
            lf = opts["var_logscale"](ret_, v.index)
            try:
                f_ = math.exp(lf / 2)
                var = [x * f_ * f_ for x in var]
            except OverflowError:
                var = [float("inf")] * len(var)
        h = step_for(par, 1) * shrink

        def D(f):
            a, b = run({(i, par): f * h}), run({(i, par): -f * h})
            return [(x - y) / (2 * f * h) for x, y in zip(a, b)]
    else:
        (i, p1), (j, p2) = keys
        va = sim.add_variation(testparticle=tparg)
        vb = sim.add_variation(testparticle=tparg)
        vab = sim.add_variation(order=2, first_order=va, first_order_2=vb, testparticle=tparg)
        init_first(va, slot(i), i, p1)
        init_first(vb, slot(j), j, p2)
        if i == j and is_element(p1) and is_element(p2):
            vab.vary(i, p1, p2)
        var = read_var(finish(sim), vab.index)
        h1, h2 = step_for(p1, 2) * shrink, step_for(p2, 2) * shrink
        zero = run({}) if (i, p1) == (j, p2) else None

        def D(f):
            a1, a2 = f * h1, f * h2
            if (i, p1) == (j, p2):
                p, m = run({(i, p1): a1}), run({(i, p1): -a1})
                return [(x - 2 * y + w) / (a1 * a1) for x, y, w in zip(p, zero, m)]
            pp = run({(i, p1): a1, (j, p2): a2}); pm = run({(i, p1): a1, (j, p2): -a2})
            mp_ = run({(i, p1): -a1, (j, p2): a2}); mm = run({(i, p1): -a1, (j, p2): -a2})
            return [(x - y - z + w) / (4 * a1 * a2) for x, y, z, w in zip(pp, pm, mp_, mm)]
    Dh2, Dh, D2h = D(0.5), D(1.0), D(2.0)
    R1 = [(4 * x - y) / 3 for x, y in zip(Dh, D2h)]
    R2 = [(4 * x - y) / 3 for x, y in zip(Dh2, Dh)]
    fd = [(16 * x - y) / 15 for x, y in zip(R2, R1)]
    return rel_err(var, fd), rel_err(R1, R2), var, fd


def gen_system(rebound, rng, testparticle=False):
    a2 = rng.uniform(1.65, 2.6)
    bodies = []
    for a in (rng.uniform(0.9, 1.1), a2):
        bodies.append((rng.uniform(5e-4, 3e-3), "orb",
                       [a, rng.uniform(0.02, 0.17), rng.uniform(0.02, 0.5), rng.uniform(0, 6.28), rng.uniform(0, 6.28), rng.uniform(0, 6.28)]))
    nactive = None
    if testparticle:
        bodies.append((0.0, "orb", [rng.uniform(3.2, 4.0), rng.uniform(0.02, 0.17), rng.uniform(0.02, 0.5),
                                    rng.uniform(0, 6.28), rng.uniform(0, 6.28), rng.uniform(0, 6.28)]))
        nactive = 3
    return System(rebound, 1.0, rng.uniform(0.8, 1.2), bodies, nactive)


def search_shadow(c, rebound):
    THR = 1e-3
    worst = {}
    worst_unc = {}
    inconclusive = {}
    ncfg = {}
    fails = []
    nsys = 8 if c.thorough else 1
    T1 = 10.0
    first_params = CART + ["m_cart"] + ORB + PAL[2:]

    def record(tag, integ, order, keys, err, unc, rep):
        k = "%s/%s/o%d" % (tag, integ, order)
        ncfg[k] = ncfg.get(k, 0) + 1
        label = "+".join("%d:%s" % kk for kk in keys)
        f16 = integ == "whfast" and keys[0][1] in ("m", "m_cart")
        if unc > THR / 4 and not f16:
            # the finite-difference oracle itself is not good to the threshold: inconclusive, never an alarm
            inconclusive[k] = inconclusive.get(k, 0) + 1
            return
        if not f16:
            if err > worst.get(k, (0.0, ""))[0]:
                worst[k] = (err, label)
            if unc > worst_unc.get(k, 0.0):
                worst_unc[k] = unc
        c.count((tag, integ, order, tuple(keys)), nontrivial=True)
        if not err <= THR + 4 * unc:
            fails.append((integ, order, keys, err, rep, tag))

    def do(sy, tag, integ, T, keys, com, tp):
        sy2 = sy
        for (i, par) in keys:
            if par in PAL[2:]:
                sy2 = sy2.with_kind(i, "pal")
        opts = {"dt": 0.01}
        try:
            err, unc, var, fd = shadow_case(sy2, integ, T, keys, com, tp, opts)
        except Exception as ex:
            err, unc, var, fd = float("inf"), 0.0, [], [repr(ex)]
        rep = dict(integrator=integ, T=T, keys=keys, move_to_com=com, testparticle=tp, G=sy2.G, m0=sy2.m0, bodies=sy2.bodies,
                   N_active=sy2.nactive, rel_err=err, oracle_uncertainty=unc, variational=var[:12], finite_difference=fd[:12])
        record(tag, integ, len(keys), keys, err, unc, rep)

    for s in range(nsys):
        rng = c.rng.fork()
        sy = gen_system(rebound, rng)
        T = T1 if s == 0 else rng.uniform(20.0, 60.0)
        com = (s % 2 == 0)
        integs1 = ["ias15", "bs", "whfast"] + (["leapfrog"] if c.thorough else [])
        # ---- first order, every parameter, every particle
        for integ in integs1:
            for idx in (0, 1, 2):
                for par in first_params:
                    if idx == 0 and is_element(par):
                        continue
                    do(sy, "full", integ, T, [(idx, par)], com, None)
        # ---- second order, every supported pair (same particle) + Cartesian pairs + cross-particle pairs
        integs2 = ["ias15", "bs"] + (["leapfrog"] if c.thorough else [])
        for integ in integs2:
            pairs = []
            for fam in (ORB, PAL):
                for a_ in range(len(fam)):
                    for b_ in range(a_, len(fam)):
                        if fam is PAL and fam[a_] in ("m", "a") and fam[b_] in ("m", "a"):
                            continue  # already in ORB family list
                        pairs.append((fam[a_], fam[b_]))
            for (p1, p2) in pairs:
                idx = 1 + (len(p1) + len(p2) + s) % 2 if not c.thorough else None
                for i in ((1, 2) if idx is None else (idx,)):
                    do(sy, "full", integ, T, [(i, p1), (i, p2)], com, None)
            cart_pairs = [("x", "x"), ("x", "vy"), ("y", "z"), ("vx", "vx"), ("z", "vz"), ("m_cart", "x"), ("m_cart", "m_cart"), ("m_cart", "vy")]
            for (p1, p2) in cart_pairs:
                do(sy, "full", integ, T, [(rng.randint(0, 2), p1), (rng.randint(0, 2), p2)], com, None)
            cross = [("a", "e"), ("m", "a"), ("lambda", "h"), ("x", "a"), ("m_cart", "e"), ("inc", "ix"), ("f", "k"), ("m", "m")]
            for (p1, p2) in cross:
                do(sy, "full", integ, T, [(1, p1), (2, p2)], com, None)
                if c.thorough:
                    do(sy, "full", integ, T, [(2, p1), (1, p2)], com, None)
    # ---- systems with a test particle: full sets (exercises the N_active<N loops) and single test-particle variations
    for s in range(nsys):
        rng = c.rng.fork()
        sy = gen_system(rebound, rng, testparticle=True)
        T = T1
        for integ in ["ias15", "bs", "whfast"]:
            pars = first_params if (c.thorough or integ == "ias15") else ["x", "vy", "a", "e", "lambda", "ix"]
            for par in pars:
                if par in ("m", "m_cart") or integ == "whfast":
                    continue   # a test particle has no mass to vary; WHFast rejects single test-particle variations (checked below)
                do(sy, "tp-single", integ, T, [(3, par)], False, 3)
            for idx, par in ((1, "a"), (2, "e"), (1, "m"), (0, "m_cart"), (2, "x"), (1, "k"), (3, "a"), (3, "vy")):
                if integ == "whfast" and par == "m":
                    continue   # F16 is demonstrated on the systems above
                do(sy, "tp-full", integ, T, [(idx, par)], False, None)
        for integ in ["ias15", "bs"]:
            for (p1, p2) in [("a", "a"), ("a", "e"), ("e", "f"), ("inc", "Omega"), ("lambda", "h"), ("k", "ix"), ("x", "vy"), ("z", "z")]:
                do(sy, "tp-single", integ, T, [(3, p1), (3, p2)], False, 3)
            for keys in ([(1, "a"), (2, "e")], [(1, "m"), (1, "a")], [(1, "a"), (3, "a")], [(3, "e"), (3, "e")]):
                do(sy, "tp-full", integ, T, keys, False, None)
    # WHFast must refuse what it does not implement (single test-particle variations, second order)
    rej = {}
    for what in ("testparticle", "order2"):
        sim = sy.build("whfast", None, {"dt": 0.01})
        if what == "testparticle":
            v = sim.add_variation(testparticle=3)
            v.particles[0].x = 1.0
        else:
            va = sim.add_variation()
            vab = sim.add_variation(order=2, first_order=va)
            va.particles[1].x = 1.0
        try:
            sim.integrate(1.0)
            rej[what] = "accepted"
        except Exception as ex:
            rej[what] = "rejected: " + str(ex)[:80]
        c.count(("whfast-reject", what), nontrivial=True)
        if rej[what] == "accepted":
            c.violation("whfast:accepts-" + what, "WHFast silently integrates a %s variation it does not implement" % what, {"what": what})
    c.cov["whfast_unsupported"] = rej
    c.cov["shadow_worst_rel"] = {k: [float("%.3g" % v[0]), v[1]] for k, v in sorted(worst.items())}
    c.cov["shadow_configurations"] = ncfg
    c.cov["shadow_oracle_uncertainty_worst"] = {k: float("%.3g" % v) for k, v in sorted(worst_unc.items())}
    c.cov["shadow_inconclusive"] = inconclusive
    ninc, ntot = sum(inconclusive.values()), sum(ncfg.values())
    if ninc > 0.05 * ntot:
        c.corr_break("finite-difference oracle inconclusive for %d of %d shadow configurations" % (ninc, ntot), inconclusive)
    c.cov["shadow_threshold"] = THR
    seen = set()
    for integ, order, keys, err, rep, tag in fails:
        pars = [p for _, p in keys]
        if integ == "whfast" and order == 1 and pars[0] in ("m", "m_cart") and tag in ("full", "tp-full"):
            key = "F16:whfast-mass-variation"
        else:
            key = "shadow:%s:o%d:%s" % (integ, order, "+".join(pars))
        if key in seen:
            continue
        seen.add(key)
        c.violation(key, "%s order-%d variation %s differs from the Richardson-extrapolated finite difference of shadow "
                    "simulations by %.3g (threshold %.0e, T=%.0f)" % (integ, order, "+".join("%d:%s" % kk for kk in keys), err, THR, rep["T"]), rep)


# ============================================================================ search: rescaling, MEGNO
def search_rescale_megno(c, rebound):
    ln10 = math.log(10.0)
    worst = 0.0
    res = {}
    nsys = 4 if c.thorough else 2
    for s in range(nsys):
        rng = c.rng.fork()
        sy = gen_system(rebound, rng)
        for integ in ("ias15", "whfast", "whfast/safe_mode=0", "whfast/safe_mode=0/corrector=11", "bs"):
            sims = []
            wopts = {"dt": 0.02}
            if "safe_mode=0" in integ:
                wopts["safe_mode"] = 0
            if "corrector=11" in integ:
                wopts["corrector"] = 11
            label, integ = integ, integ.split("/")[0]
            for big in (9e99, 1e-10):
                sim = sy.build(integ, None, wopts)
                v = sim.add_variation()
                v2a = sim.add_variation()            # a first-order set with lrescale<0: must never be rescaled
                v2a.lrescale = -1.0
                rr = SplitMix(1234 + s)
                for i in range(3):
                    for comp in CART:
                        val = rr.normal()
                        setattr(v.particles[i], comp, val * big)
                        setattr(v2a.particles[i], comp, val * 9e99)
                sims.append((sim, v, v2a))
            T = rng.uniform(30, 80)
            for sim, v, v2a in sims:
                sim.integrate(T, exact_finish_time=1)
            (sb, vb, nb), (ss, vs, ns) = sims
            lr = vb.lrescale
            realsame = all(d2h(a) == d2h(b) for a, b in zip(state_of(sb, range(3)), state_of(ss, range(3))))
            # exp(lrescale)*delta_big must equal (9e99/1e-10)*delta_small component by component
            A, B = var_state(vb, range(3)), var_state(vs, range(3))
            sc = max(abs(x) for x in B)
            lfac = (lr - vs.lrescale) - math.log(9e99 / 1e-10)      # log of exp(lr_big)/exp(lr_small)/ratio
            e = 0.0
            for a, b in zip(A, B):
                if not (a == a and b == b) or abs(a) == float("inf"):
                    e = float("inf")
                    continue
                # a*exp(lfac) without overflow: split the exponent
                try:
                    av = a * math.exp(lfac / 2) * math.exp(lfac / 2)
                except OverflowError:
                    av = float("inf")
                e = max(e, abs(av - b) / sc)
            worst = max(worst, e)
            nmax = max(abs(x) for x in var_state(nb, range(3)))
            res["%d/%s" % (s, label)] = {"lrescale": lr, "rel": float("%.3g" % e), "max_component_after": max(abs(x) for x in A),
                                          "real_particles_bitwise_equal": realsame, "skipped_set_max": nmax, "skipped_set_lrescale": nb.lrescale}
            c.count(("rescale-run", s, label), nontrivial=lr > 0)
            rep = dict(integrator=label, T=T, G=sy.G, m0=sy.m0, bodies=sy.bodies, lrescale=lr, rel=e)
            if not (lr > 0 and max(abs(x) for x in A) <= 1e100):
                c.violation("rescale:not-rescaled:" + integ, "a first-order set growing past 1e100 was not rescaled", rep)
            if not e <= 1e-6:
                c.violation("F19:ias15-rescale-stale-state" if integ == "ias15" else "rescale:discontinuous:" + label, "exp(lrescale)*delta is not continuous across rescaling (rel %.3g)" % e, rep)
            if not realsame and integ != "bs" and "safe_mode=0" not in label:   # BS's step control looks at the variational particles too; with
                                                                               # safe_mode=0 a rescale makes WHFast rebuild its Jacobi coordinates (roundoff)
                c.violation("rescale:real-changed:" + integ, "real particles differ between a rescaled and a never-rescaled run", rep)
            if nb.lrescale != -1.0 or not nmax > 1e100:
                c.violation("rescale:lrescale-negative:" + integ, "a set with lrescale<0 was rescaled", rep)
    c.cov["rescale_runs"] = res
    # ---- MEGNO -> 2, Lyapunov -> 0 on regular two-planet systems; >> 2 on a packed (chaotic) one
    meg = {}
    for s in range(6 if c.thorough else 3):
        rng = c.rng.fork()
        bodies = [(rng.loguniform(1e-5, 3e-4), "orb", [1.0, rng.uniform(0, 0.08), rng.uniform(0, 0.08), rng.uniform(0, 6.28), rng.uniform(0, 6.28), rng.uniform(0, 6.28)]),
                  (rng.loguniform(1e-5, 3e-4), "orb", [rng.choice([1.75, 1.9, 2.25, 2.4, 2.6]) + rng.uniform(-0.03, 0.03), rng.uniform(0, 0.08), rng.uniform(0, 0.08),
                                                      rng.uniform(0, 6.28), rng.uniform(0, 6.28), rng.uniform(0, 6.28)])]
        sy = System(rebound, 1.0, 1.0, bodies)
        for integ, norb, tolY in (("whfast", 2000, 0.05), ("ias15", 300, 0.1)):
            if integ == "ias15" and s >= 2 and not c.thorough:
                continue
            T = 2 * math.pi * norb
            sim = sy.build(integ, None, {"dt": 2 * math.pi / 40})
            sim.move_to_com()
            sim.init_megno(seed=s + 1)
            sim.integrate(T)
            Y, ly = sim.megno(), sim.lyapunov()
            meg["%d/%s" % (s, integ)] = {"megno": float("%.5g" % Y), "lyapunov*T": float("%.3g" % (ly * T))}
            c.count(("megno", s, integ), nontrivial=True)
            rep = dict(integrator=integ, T=T, bodies=bodies, megno=Y, lyapunov=ly)
            if not abs(Y - 2.0) <= tolY:
                c.violation("megno:%s" % integ, "MEGNO = %.4f on a regular two-planet system after %d orbits (expected 2 +- %.2f)" % (Y, norb, tolY), rep)
            if not abs(ly * T) <= 1.0:
                c.violation("lyapunov:%s" % integ, "Lyapunov estimate %.3g is not ~0 (|lyap*T| = %.3g > 1) on a regular system" % (ly, abs(ly * T)), rep)
    # a packed system must NOT give 2 (shows the indicator is not vacuous)
    sy = System(rebound, 1.0, 1.0, [(1e-3, "orb", [1.0, 0.05, 0.01, 0, 0, 0]), (1e-3, "orb", [1.13, 0.05, 0.01, 0, 0, 2.0]), (1e-3, "orb", [1.27, 0.05, 0.01, 0, 0, 4.0])])
    sim = sy.build("whfast", None, {"dt": 2 * math.pi / 40})
    sim.move_to_com()
    sim.init_megno(seed=1)
    try:
        sim.integrate(2 * math.pi * 1000)
    except Exception:
        pass
    Yc = sim.megno()
    meg["chaotic/whfast"] = {"megno": float("%.5g" % Yc) if Yc == Yc else "nan"}
    c.cov["megno"] = meg


def run_phase(c, name, fn, timeout):
    """run one phase of the check in a forked child under a watchdog: a seeded bug can make the real
    code hang (e.g. IAS15's step-rejection loop on NaN) and the check must still terminate and say so.
    The child's view of the check context (coverage, violations, ...) replaces the parent's."""
    r, w = os.pipe()
    sys.stdout.flush()
    pid = os.fork()
    if pid == 0:
        os.close(r)
        try:
            try:
                fn()
                msg = ("ok", (c.cov, c._distinct, c.violations, c.known_hit, c.broken, getattr(c, "_corr_detail", None)))
            except Infra as ex:
                msg = ("infra", str(ex))
            except BaseException:
                msg = ("exc", traceback.format_exc())
            with os.fdopen(w, "wb") as f:
                f.write(pickle.dumps(msg))
            sys.stdout.flush()
        finally:
            os._exit(0)
    os.close(w)
    buf = b""
    t0 = time.time()
    hung = False
    while True:
        left = timeout - (time.time() - t0)
        if left <= 0:
            hung = True
            break
        rd, _, _ = select.select([r], [], [], min(left, 5.0))
        if rd:
            chunk = os.read(r, 1 << 20)
            if not chunk:
                break
            buf += chunk
    os.close(r)
    if hung:
        os.kill(pid, signal.SIGKILL)
    os.waitpid(pid, 0)
    if hung:
        c.cov.setdefault("phases_timed_out", []).append(name)
        c.violation("hang:" + name, "the real code did not return within %d s in phase '%s' (watchdog)" % (timeout, name),
                    {"phase": name, "timeout_s": timeout, "note": "re-run the check with the same VERIF_SEED to reproduce"})
        return
    try:
        kind, val = pickle.loads(buf)
    except Exception:
        kind, val = "exc", "phase '%s' died without a result (crash of the real code?)" % name
    if kind == "ok":
        c.cov, c._distinct, c.violations, c.known_hit, c.broken, cd_ = val
        if cd_ is not None:
            c._corr_detail = cd_
    elif kind == "infra":
        raise Infra(val)
    else:
        c.corr_break("phase '%s' of the check crashed" % name, val[-1500:])
        c.violation("crash:" + name, "phase '%s' crashed (python exception or abort of the real code)" % name, {"traceback": val[-3000:]})


# ============================================================================ search: WHFast tangent map over its regime
def halving_passes(z):
    """port of the argument-reduction loop of stumpff_cs (integrator_whfast.c:79-84): number of z -> z/4 passes"""
    n = 0
    z = abs(z)
    while z > 0.1:
        z = z / 4.0
        n += 1
    return n


def delta_anomaly(e, E0, dM):
    """increment of the eccentric (e<1) or hyperbolic (e>1) anomaly for a mean-anomaly increment dM.
    For a Kepler step beta*X^2 = dE^2 (elliptic) or -dH^2 (hyperbolic)."""
    if e < 1:
        M1 = E0 - e * math.sin(E0) + dM
        E = E0 + dM
        for _ in range(200):
            d = (E - e * math.sin(E) - M1) / (1 - e * math.cos(E))
            E -= d
            if abs(d) < 1e-15:
                break
        return E - E0
    N1 = e * math.sinh(E0) - E0 + dM
    H = E0 + dM / max(e * math.cosh(E0) - 1, 1e-3)
    for _ in range(300):
        d = (e * math.sinh(H) - H - N1) / (e * math.cosh(H) - 1)
        d = max(-1.0, min(1.0, d))
        H -= d
        if abs(d) < 1e-15:
            break
    return H - E0


def romberg(D, h):
    Dh2, Dh, D2h = D(h / 2), D(h), D(2 * h)
    R1 = [(4 * x - y) / 3 for x, y in zip(Dh, D2h)]
    R2 = [(4 * x - y) / 3 for x, y in zip(Dh2, Dh)]
    return [(16 * x - y) / 15 for x, y in zip(R2, R1)], R1, R2


def search_whfast_tangent(c, rebound):
    """The WHFast tangent map is the exact derivative of the discrete WHFast map, so finite differences of
    WHFast itself AT THE SAME dt are a sharp oracle.  The helpers of the tangent map (stumpff_cs: argument
    reduction by repeated z->z/4 and the duplication loop that undoes it) have branches that only large
    eccentric-anomaly increments reach: the regime (e up to 0.95, |dt|/P from 1/100 to 1/2, both signs,
    hyperbolic orbits) is scanned and the number of halving passes reached is recorded; the tangent map is
    only called covered if >=2-pass cases were hit."""
    clib = rebound.clibrebound
    P = rebound.Particle
    cd = ctypes.c_double
    clib.reb_particle_from_orbit.restype = P
    # ---------------------------------------------------------------- (A) reb_whfast_kepler_solver called directly
    sim0 = rebound.Simulation()
    sim0.add(m=1.0)
    sim0.add(m=1e-3, a=1.0)
    sim0.integrator = "whfast"
    v0 = sim0.add_variation()
    idx, N0 = v0.index, sim0.N

    def solve(state, var, M, dt):
        arr = (P * N0)()
        arr[1].x, arr[1].y, arr[1].z, arr[1].vx, arr[1].vy, arr[1].vz = state
        q = arr[1 + idx]
        q.x, q.y, q.z, q.vx, q.vy, q.vz = var
        clib.reb_whfast_kepler_solver(ctypes.byref(sim0), arr, cd(M), ctypes.c_uint(1), cd(dt))
        return [arr[1].x, arr[1].y, arr[1].z, arr[1].vx, arr[1].vy, arr[1].vz], [q.x, q.y, q.z, q.vx, q.vy, q.vz]
    ncases = 20000 if c.thorough else 2500
    hist, worst = {}, {}
    fails = []
    ninc = 0
    for case in range(ncases):
        rng = c.rng.fork()
        M = rng.loguniform(0.1, 10)
        hyper = rng.chance(0.15)
        if hyper:
            e = rng.uniform(1.05, 3.0)
            a = -rng.loguniform(0.3, 3)
            fmax = math.acos(-1 / e) * 0.7
            f = rng.uniform(-fmax, fmax)
            tscale = math.sqrt(abs(a) ** 3 / M)
            dt = tscale * rng.loguniform(0.02, 3.0) * rng.choice([-1, 1])
            E0 = 2 * math.atanh(math.sqrt((e - 1) / (e + 1)) * math.tan(f / 2))
            dA = delta_anomaly(e, E0, dt / tscale)
        else:
            e = rng.choice([rng.uniform(0, 0.3), rng.uniform(0.3, 0.95)])
            a = rng.loguniform(0.3, 3)
            f = rng.uniform(0, 2 * math.pi)
            Pp = 2 * math.pi * math.sqrt(a ** 3 / M)
            dt = Pp * rng.loguniform(0.01, 0.5) * rng.choice([-1, 1])
            E0 = 2 * math.atan2(math.sqrt(1 - e) * math.sin(f / 2), math.sqrt(1 + e) * math.cos(f / 2))
            dA = delta_anomaly(e, E0, 2 * math.pi * dt / Pp)
        npass = halving_passes(dA * dA)
        po = clib.reb_particle_from_orbit(cd(1.0), P(m=M), cd(0.0), cd(a), cd(e), cd(rng.uniform(0, 1.0)), cd(rng.uniform(0, 6)),
                                          cd(rng.uniform(0, 6)), cd(f))
        st = [po.x, po.y, po.z, po.vx, po.vy, po.vz]
        rr = norm3(st[:3]); vv = norm3(st[3:])
        dlt = [rng.normal() * rr for _ in range(3)] + [rng.normal() * vv for _ in range(3)]
        out, var = solve(st, dlt, M, dt)

        def D(h, st=st, dlt=dlt, M=M, dt=dt):
            p_, _ = solve([s_ + h * x for s_, x in zip(st, dlt)], [0.0] * 6, M, dt)
            m_, _ = solve([s_ - h * x for s_, x in zip(st, dlt)], [0.0] * 6, M, dt)
            return [(x - y) / (2 * h) for x, y in zip(p_, m_)]
        fd, R1, R2 = romberg(D, 1e-5)
        err, unc = rel_err(var, fd), rel_err(R1, R2)
        key = ("hyp" if hyper else "ell", min(npass, 5))
        hist[key] = hist.get(key, 0) + 1
        c.count(("kepler-tangent", key), nontrivial=True)
        if unc > 2.5e-5:
            ninc += 1
            continue
        if err > worst.get(key, 0.0):
            worst[key] = err
        if not err <= 1e-6 + 4 * unc:
            fails.append(dict(M=M, a=a, e=e, f=f, dt=dt, state=st, variation=dlt, halving_passes=npass, tangent_map=var,
                              finite_difference=fd, rel_err=err, oracle_uncertainty=unc))
    c.cov["whfast_kepler_tangent"] = {"cases": ncases, "inconclusive": ninc,
                                      "halving_passes_histogram": {"%s/%d" % k: v for k, v in sorted(hist.items())},
                                      "worst_rel_by_passes": {"%s/%d" % k: float("%.3g" % v) for k, v in sorted(worst.items())},
                                      "threshold": 1e-6}
    if fails:
        bad = max(fails, key=lambda r: r["rel_err"])
        c.violation("whfast-tangent:kepler-solver", "tangent map of reb_whfast_kepler_solver differs from the finite difference of the solver "
                    "at the same dt by %.3g (%d of %d cases; worst at %d argument-halving passes of stumpff_cs, e=%.2f)" %
                    (bad["rel_err"], len(fails), ncases, bad["halving_passes"], bad["e"]), bad)
    deep = sum(v for (k, n), v in hist.items() if n >= 2)
    if deep == 0 or ninc > 0.05 * ncases:
        c.corr_break("WHFast tangent map NOT covered: %d cases reached >=2 halving passes of stumpff_cs, %d inconclusive" % (deep, ninc))
    # ---------------------------------------------------------------- (B) full WHFast runs, wide regime, FD at the same dt
    nsys = 12 if c.thorough else 3
    fracs = [1 / 100, 1 / 30, 1 / 12, 1 / 6, 1 / 4]
    hist2, worst2, ninc2, ntot2 = {}, {}, 0, 0
    fails2 = []
    for s_ in range(nsys):
        rng = c.rng.fork()
        e1 = [0.9, 0.75, 0.55, 0.12, 0.85, 0.65][s_ % 6] + rng.uniform(-0.04, 0.04)   # (0.18,0.31) avoided: F18 blurs vary()
        bodies = [(rng.loguniform(1e-4, 1e-3), "orb", [1.0, e1, rng.uniform(0.02, 0.4), rng.uniform(0, 6.28), rng.uniform(0, 6.28), rng.uniform(0, 6.28)]),
                  (rng.loguniform(1e-4, 1e-3), "orb", [rng.uniform(4.5, 6.0), rng.uniform(0.0, 0.4), rng.uniform(0.02, 0.4), rng.uniform(0, 6.28),
                                                        rng.uniform(0, 6.28), rng.uniform(0, 6.28)])]
        sy = System(rebound, 1.0, 1.0, bodies)
        for frac in (fracs if (c.thorough or s_ == 0) else [fracs[(s_ + k) % 5] for k in (1, 3)]):
            for sgn in (1, -1):
                dt = sgn * 2 * math.pi * frac
                T = sgn * 10.0
                # histogram of halving passes actually reached along the base run (estimated from the osculating orbits)
                sim = sy.build("whfast", None, {"dt": dt})
                for k in range(int(abs(T / dt)) + 1):
                    for i in (1, 2):
                        o = sim.particles[i].orbit(primary=sim.particles[0])
                        if not 0 <= o.e < 1:
                            continue
                        E0 = 2 * math.atan2(math.sqrt(1 - o.e) * math.sin(o.f / 2), math.sqrt(1 + o.e) * math.cos(o.f / 2))
                        npass = halving_passes(delta_anomaly(o.e, E0, o.n * dt) ** 2)
                        hist2[min(npass, 5)] = hist2.get(min(npass, 5), 0) + 1
                    sim.step()
                pars = [(1, "x"), (1, "vy"), (1, "a"), (1, "e"), (1, "f"), (1, "lambda"), (1, "h"), (2, "x"), (2, "e"), (0, "vx")]
                if not c.thorough:
                    pars = [pars[(s_ + 3 * k) % len(pars)] for k in range(4)]
                for (i, par) in pars:
                    sy2 = sy.with_kind(i, "pal") if par in PAL[2:] else sy
                    try:
                        err, unc, var, fd = shadow_case(sy2, "whfast", T, [(i, par)], s_ % 2 == 0, None, {"dt": dt})
                    except Exception as ex:
                        err, unc, var, fd = float("inf"), 0.0, [], [repr(ex)]
                    ntot2 += 1
                    c.count(("whfast-regime", round(e1, 1), frac, sgn, par), nontrivial=True)
                    if unc > 2.5e-4:
                        ninc2 += 1
                        continue
                    k = "e~%.1f dt=P/%d" % (e1, round(1 / frac))
                    if err > worst2.get(k, 0.0):
                        worst2[k] = err
                    if not err <= 1e-4 + 4 * unc:
                        fails2.append(dict(G=1.0, m0=1.0, bodies=sy2.bodies, dt=dt, T=T, key=[i, par], rel_err=err, oracle_uncertainty=unc,
                                           variational=var[:12], finite_difference=fd[:12]))
    c.cov["whfast_regime_runs"] = {"configurations": ntot2, "inconclusive": ninc2,
                                   "halving_passes_per_kepler_step_histogram": {str(k): v for k, v in sorted(hist2.items())},
                                   "worst_rel": {k: float("%.3g" % v) for k, v in sorted(worst2.items())}, "threshold": 1e-4}
    if fails2:
        bad = max(fails2, key=lambda r: r["rel_err"] if r["rel_err"] == r["rel_err"] else 0)
        c.violation("whfast-tangent:regime", "WHFast first-order variation %s differs from the finite difference of WHFast runs at the same dt=%.3g "
                    "by %.3g (%d of %d configurations)" % (bad["key"], bad["dt"], bad["rel_err"], len(fails2), ntot2), bad)
    if sum(v for k, v in hist2.items() if k >= 2) == 0:
        c.corr_break("WHFast regime runs never reached >=2 halving passes of stumpff_cs")
    # WHFast must refuse variations in the coordinate systems whose tangent map does not exist
    rej = {}
    for coord in ("democraticheliocentric", "whds", "barycentric"):
        sim = sy.build("whfast", None, {"dt": 0.01})
        sim.ri_whfast.coordinates = coord
        v = sim.add_variation()
        v.particles[1].x = 1.0
        try:
            sim.integrate(0.1)
            rej[coord] = "accepted"
            c.violation("whfast:accepts-variation-" + coord, "WHFast silently integrates variations in %s coordinates" % coord, {"coordinates": coord})
        except Exception as ex:
            rej[coord] = "rejected: " + str(ex)[:70]
    for kern in ("modifiedkick", "composition", "lazy"):
        sim = sy.build("whfast", None, {"dt": 0.01, "kernel": kern})
        v = sim.add_variation()
        v.particles[1].x = 1.0
        try:
            sim.integrate(0.1)
            rej["kernel=" + kern] = "accepted"
            c.violation("whfast:accepts-variation-kernel-" + kern, "WHFast silently integrates variations with kernel %s" % kern, {"kernel": kern})
        except Exception as ex:
            rej["kernel=" + kern] = "rejected: " + str(ex)[:70]
    c.cov["whfast_variation_coordinates"] = dict(rej, jacobi="supported (all runs above)")
    # ---------------------------------------------------------------- (D) the WHFast option lattice that accepts variations
    # symplectic correctors 0/3/5/7/11/17 x corrector2 0/1 x safe_mode 1/0 (integrate() synchronises before we read), default kernel,
    # Jacobi coordinates; same-dt finite differences (Romberg), threshold 1e-7: a stale variational position inside one corrector
    # stage shows up at 1e-6..1e-4
    lat_worst, lat_fail, nlat, nlat_inc = {}, [], 0, 0
    for s_ in range(3 if c.thorough else 1):
        rng = c.rng.fork()
        sy = gen_system(rebound, rng)
        dtl = rng.uniform(0.03, 0.08) * (1 if s_ % 2 == 0 else -1)
        T = (62.8 if c.thorough else 31.4) * (1 if dtl > 0 else -1)
        allkeys = [(1, "x"), (2, "vy"), (1, "a"), (0, "x"), (2, "e"), (1, "lambda"), (2, "z"), (1, "f")]
        for corr in (0, 3, 5, 7, 11, 17):
            for c2 in (0, 1):
                for sm in (1, 0):
                    keys = allkeys if c.thorough else [allkeys[(corr + 3 * c2 + sm + k * 5) % len(allkeys)] for k in range(2)]
                    for key in keys:
                        sy2 = sy.with_kind(key[0], "pal") if key[1] in PAL[2:] else sy
                        opts = {"dt": dtl, "corrector": corr, "corrector2": c2, "safe_mode": sm}
                        try:
                            err, unc, var, fd = shadow_case(sy2, "whfast", T, [key], s_ % 2 == 0, None, opts)
                        except Exception as ex:
                            err, unc, var, fd = float("inf"), 0.0, [], [repr(ex)]
                        nlat += 1
                        c.count(("whfast-lattice", corr, c2, sm, key), nontrivial=corr != 0 or c2 != 0 or sm == 0)
                        if unc > 1e-7:
                            nlat_inc += 1
                            continue
                        k = "corrector=%d corrector2=%d safe_mode=%d" % (corr, c2, sm)
                        lat_worst[k] = max(lat_worst.get(k, 0.0), err)
                        if not err <= 1e-6 + 4 * unc:
                            lat_fail.append(dict(opts, T=T, key=list(key), G=sy2.G, m0=sy2.m0, bodies=sy2.bodies, rel_err=err, oracle_uncertainty=unc,
                                                 variational=var[:12], finite_difference=fd[:12]))
    c.cov["whfast_option_lattice"] = {"configurations": nlat, "inconclusive": nlat_inc, "threshold": 1e-6,
                                      "worst_rel": {k: float("%.3g" % v) for k, v in sorted(lat_worst.items())}}
    if lat_fail:
        bad = max(lat_fail, key=lambda r_: r_["rel_err"])
        c.violation("whfast-tangent:options:corrector=%d:corrector2=%d" % (bad["corrector"], bad["corrector2"]),
                    "WHFast (corrector=%d, corrector2=%d, safe_mode=%d) first-order variation %s differs from the finite difference of the same "
                    "WHFast configuration at the same dt by %.3g (%d of %d lattice configurations fail)" %
                    (bad["corrector"], bad["corrector2"], bad["safe_mode"], bad["key"], bad["rel_err"], len(lat_fail), nlat), bad)
    if nlat_inc > 0.1 * nlat:
        c.corr_break("WHFast option lattice: finite-difference oracle inconclusive for %d of %d configurations" % (nlat_inc, nlat))
    # ---------------------------------------------------------------- (C) MEGNO with WHFast, eccentric orbits, both dt signs
    # the MEGNO time integral is a one-point rule per step (integrator_whfast.c:1237): it needs the pericentre passage resolved
    # (dt <= T_peri/16); at coarser steps MEGNO of an exact two-body orbit is far from 2 (measured below, not alarmed)
    meg = {}
    for e in ((0.3, 0.6, 0.8, 0.9) if c.thorough else (0.6, 0.9)):
        tperi = 2 * math.pi * math.sqrt((1 - e) ** 3 / (1 + e))
        for n3 in (False, True):
            bodies = [(1e-4, "orb", [1.0, e, 0.1, 0.3, 0.4, 0.5])] + ([(1e-4, "orb", [5.0, 0.3, 0.2, 1.3, 2.4, 1.5])] if n3 else [])
            sy = System(rebound, 1.0, 1.0, bodies)
            for sgn in (1, -1):
                norb = 1000 if (c.thorough or e < 0.85) else 400
                sim = sy.build("whfast", None, {"dt": sgn * tperi / 16})
                sim.move_to_com()
                sim.init_megno(seed=3)
                sim.integrate(sgn * 2 * math.pi * norb)
                Y, ly = sim.megno(), sim.lyapunov() * 2 * math.pi * norb
                meg["e=%.1f N=%d dt%s" % (e, 3 if n3 else 2, "+" if sgn > 0 else "-")] = [float("%.5g" % Y), float("%.3g" % ly)]
                c.count(("megno-ecc", e, n3, sgn), nontrivial=True)
                if not (abs(Y - 2) <= 0.05 and abs(ly) <= 1.0):
                    c.violation("megno:whfast-eccentric", "MEGNO = %.4f (lyap*T = %.3g) for e=%.1f, dt = %sT_peri/16 after %d orbits" %
                                (Y, ly, e, "+" if sgn > 0 else "-", norb), dict(bodies=bodies, dt=sgn * tperi / 16, megno=Y))
    sy = System(rebound, 1.0, 1.0, [(1e-4, "orb", [1.0, 0.6, 0.1, 0.3, 0.4, 0.5])])
    sim = sy.build("whfast", None, {"dt": 2 * math.pi / 20})
    sim.init_megno(seed=3)
    sim.integrate(2 * math.pi * 1000)
    meg["excluded: e=0.6 two-body, dt=P/20 (=T_peri/4), unresolved quadrature"] = [float("%.5g" % sim.megno())]
    c.cov["megno_whfast_eccentric"] = meg


# ============================================================================ search: adaptive integrators with REJECTED steps
def count_rejected_steps(sy, integ, T, opts):
    """steps of the base run whose first attempt was rejected.  IAS15 retries inside the step (dt_last_done < dt proposed
    before the step); BS returns without advancing t."""
    sim = sy.build(integ, None, opts)
    nrej = nst = 0
    while sim.t < T and nst < 200000:
        dtb, tb = sim.dt, sim.t
        sim.step()
        nst += 1
        if integ == "ias15":
            if abs(sim.dt_last_done) < abs(dtb) * (1 - 1e-12):
                nrej += 1
        elif sim.t == tb:
            nrej += 1
    return nrej, nst


def search_rejected_steps(c, rebound):
    """IAS15 and BS restore the state after a rejected step and retry: the variational particles must be restored too.
    On regular systems with the default dt no step is ever rejected, so rejections are forced: initial dt of 0.05 / 0.5 / 2.5
    inner periods with an eccentric inner planet started at pericentre, and a mild close encounter.  The number of rejected
    steps of every base run is recorded; an integrator / order with zero rejections in total is reported as not covered."""
    THR = 1e-3
    P1 = 2 * math.pi
    runs, worst, fails = {}, {}, []
    total = {}
    ninc = ntot = 0
    nsys = 3 if c.thorough else 1
    for s_ in range(nsys):
        rng = c.rng.fork()
        ecc = System(rebound, 1.0, 1.0, [(rng.uniform(5e-4, 2e-3), "orb", [1.0, rng.uniform(0.55, 0.8), rng.uniform(0.02, 0.3), rng.uniform(0, 6.28), rng.uniform(0, 6.28), 0.0]),
                                         (rng.uniform(2e-4, 1e-3), "orb", [rng.uniform(2.8, 3.5), rng.uniform(0.0, 0.15), rng.uniform(0.02, 0.3), rng.uniform(0, 6.28), rng.uniform(0, 6.28), rng.uniform(0, 6.28)])])
        # mild close encounter: conjunction at ~3.5 Hill radii around t = 4
        m_ = 2e-4
        a2 = 1.0 + 3.5 * (2 * m_ / 3) ** (1 / 3.0) * 1.0
        n1, n2 = 1.0, a2 ** -1.5
        enc = System(rebound, 1.0, 1.0, [(m_, "orb", [1.0, 0.01, 0.01, 0.0, 0.0, 0.0]),
                                         (m_, "orb", [a2, 0.01, 0.02, 0.0, 0.0, 4.0 * (n1 - n2)])])
        cfgs = [("ecc-pericentre dt0=%.2gP" % f_, ecc, f_ * P1) for f_ in (0.05, 0.5, 2.5)] + [("close-encounter dt0=0.5P", enc, 0.5 * P1)]
        for integ in ("ias15", "bs"):
            for tag, sy, dt0 in cfgs:
                T = 10.0
                opts = {"dt0": dt0}
                nrej, nst = count_rejected_steps(sy, integ, T, opts)
                runs["%d/%s/%s" % (s_, integ, tag)] = {"rejected_steps": nrej, "steps": nst}
                k1 = [(1, "x"), (1, "a"), (2, "vy"), (1, "e"), (0, "x"), (2, "lambda")]
                k2 = [[(1, "a"), (1, "e")], [(1, "x"), (2, "vy")], [(2, "a"), (2, "a")]]
                if not c.thorough:
                    k1 = [k1[(s_ + i_) % len(k1)] for i_ in (0, 1, 3)]
                    k2 = k2[:2] if tag.startswith("ecc-pericentre dt0=2.5") else k2[:1]
                for keys in [[k] for k in k1] + k2:
                    order = len(keys)
                    sy2 = sy
                    for (i, par) in keys:
                        if par in PAL[2:]:
                            sy2 = sy2.with_kind(i, "pal")
                    try:
                        err, unc, var, fd = shadow_case(sy2, integ, T, keys, True, None, opts)
                    except Exception as ex:
                        err, unc, var, fd = float("inf"), 0.0, [], [repr(ex)]
                    ntot += 1
                    total[(integ, order)] = total.get((integ, order), 0) + nrej
                    c.count(("rejected", integ, order, tag, tuple(keys)), nontrivial=nrej > 0)
                    if unc > THR / 4:
                        ninc += 1
                        continue
                    kk = "%s/o%d" % (integ, order)
                    worst[kk] = max(worst.get(kk, 0.0), err)
                    if not err <= THR + 4 * unc:
                        fails.append(dict(integrator=integ, order=order, keys=keys, config=tag, dt0=dt0, T=T, rejected_steps=nrej, G=1.0, m0=1.0,
                                          bodies=sy2.bodies, rel_err=err, oracle_uncertainty=unc, variational=var[:12], finite_difference=fd[:12]))
    c.cov["rejected_step_runs"] = {"runs": runs, "configurations": ntot, "inconclusive": ninc, "threshold": THR,
                                   "worst_rel": {k: float("%.3g" % v) for k, v in sorted(worst.items())},
                                   "rejected_steps_total": {"%s/o%d" % k: v for k, v in sorted(total.items())}}
    for (integ, order), nr in total.items():
        if nr == 0:
            c.corr_break("step-rejection path of %s (order %d variations) NOT covered: no base run had a rejected step" % (integ, order))
    if ninc > 0.2 * ntot:
        c.corr_break("rejected-step runs: finite-difference oracle inconclusive for %d of %d configurations" % (ninc, ntot))
    seen = set()
    for f in sorted(fails, key=lambda r_: -r_["rel_err"] if r_["rel_err"] == r_["rel_err"] else 0):
        key = "rejected-step:%s:o%d" % (f["integrator"], f["order"])
        if key in seen:
            continue
        seen.add(key)
        c.violation(key, "%s order-%d variation %s differs from the finite difference of shadow runs by %.3g in a run with %d rejected steps (%s)" %
                    (f["integrator"], f["order"], f["keys"], f["rel_err"], f["rejected_steps"], f["config"]), f)


# ============================================================================ search: cross-cutting dimensions
def dim(c, name, n=1):
    d_ = c.cov.setdefault("dimensions", {})
    d_[name] = d_.get(name, 0) + n


APPLICABLE_DIMENSIONS = [
    "roles: N_active<N, type 0, massless test particle", "roles: N_active<N, type 0, massive inactive particle",
    "roles: N_active<N, type 1, massive test particle", "roles: zero-mass active body", "roles: single active body",
    "roles: testparticle= variation, order 1", "roles: testparticle= variation, order 2", "roles: varied particle index 0",
    "roles: varied particle index >= 2",
    "options: G != 1", "options: total mass != 1", "options: softening != 0", "options: whfast safe_mode=0",
    "options: whfast keep_unsynchronized=1", "options: whfast correctors", "options: ias15 non-default", "options: bs non-default",
    "time: dt < 0", "time: integrate() split in several calls", "time: direction reversal between calls",
    "time: exact_finish_time=0 (fixed step)",
    "callbacks: additional_forces with variational counterpart", "callbacks: velocity-dependent additional_forces with counterpart",
    "callbacks: post_timestep_modifications (no-op)", "callbacks: heartbeat",
    "history: copy mid-run", "history: save/restore mid-run", "history: integrator switched mid-run", "history: rescale event",
    "history: rejected steps", "history: restore after rescale (lrescale persisted)",
    "history: rescale event immediately followed by a rejected step",
    "frame: move_to_com mid-run", "frame: move_to_hel mid-run", "frame: rotate mid-run", "frame: convert_particle_units mid-run",
    "geometry: centre of mass offset and moving", "geometry: hyperbolic body",
    "megno: whfast", "megno: ias15", "megno: eos", "megno: after restore", "megno: other variational sets before/after the MEGNO set",
    "scale: more than 128 particles (allocation boundary)", "python: shortcut names",
]


def search_dimensions(c, rebound):
    """cross the finite-difference oracle (variation = derivative of equally treated shadow runs) with the configuration
    dimensions that hid seeded bugs: roles, options, time, callbacks, histories, frame operations, geometry."""
    THR = 1e-3
    worst, fails = {}, []
    ninc = ntot = 0
    measured = {}
    full = c.thorough
    rng0 = c.rng.fork()
    tmpdir = os.environ.get("VERIF_TMP", "/tmp")

    def base_system(rng, G=1.0, m0=1.0, extra=None, nactive=None, masses=None):
        sy = gen_system(rebound, rng)
        b = list(sy.bodies)
        if masses:
            b = [(masses[i] if i < len(masses) and masses[i] is not None else m, k, el) for i, (m, k, el) in enumerate(b)]
        if extra:
            b += extra
        return System(rebound, G, m0, b, nactive)

    def go(name, sy, integ, keys, T=10.0, opts=None, com=True, tp=None, expect_fail=False, dims=()):
        nonlocal ninc, ntot
        opts = dict(opts or {})
        opts.setdefault("dt", 0.01 if T > 0 else -0.01)
        sy2 = sy
        for (i, par) in keys:
            if par in PAL[2:]:
                sy2 = sy2.with_kind(i, "pal")
        try:
            err, unc, var, fd = shadow_case(sy2, integ, T, keys, com, tp, opts)
        except Exception as ex:
            err, unc, var, fd = float("inf"), 0.0, [], [repr(ex)[:300]]
        ntot += 1
        c.count(("dim", name, integ, tuple(keys)), nontrivial=True)
        if expect_fail:
            measured[name + "/" + integ] = float("%.3g" % err)
            return err
        if unc > THR / 4:
            ninc += 1
            return err
        for d_ in (name,) + tuple(dims):
            dim(c, d_)          # evaluated with a conclusive oracle (pass or fail)
        kk = name
        worst[kk] = max(worst.get(kk, 0.0), err)
        if not err <= THR + 4 * unc:
            fails.append(dict(dimension=name, integrator=integ, keys=keys, T=T, G=sy2.G, m0=sy2.m0, bodies=sy2.bodies, N_active=sy2.nactive,
                              options={k: v for k, v in opts.items() if not callable(v)}, testparticle=tp, rel_err=err, oracle_uncertainty=unc,
                              variational=var[:12], finite_difference=fd[:12]))
        return err

    ALL = ["ias15", "bs", "whfast", "leapfrog"]
    pick = lambda k, lst=ALL: lst if full else [lst[k % len(lst)], lst[(k + 2) % len(lst)]]
    k1 = lambda k: ([(1, "x"), (2, "vy"), (1, "a"), (2, "e"), (1, "lambda")] if full else [[(1, "a")], [(2, "vy")], [(1, "x")], [(2, "e")]][k % 4])
    keysets = lambda k: ([[kk_] for kk_ in k1(k)] if full else [k1(k)])
    tpextra = lambda rng, m: [(m, "orb", [rng.uniform(3.3, 4.0), rng.uniform(0.02, 0.15), rng.uniform(0.02, 0.4), rng.uniform(0, 6.28), rng.uniform(0, 6.28), rng.uniform(0, 6.28)])]
    cnt = 0
    # ------------------------------------------------------------------ roles
    for name, mtest, tpt in (("roles: N_active<N, type 0, massless test particle", 0.0, 0), ("roles: N_active<N, type 0, massive inactive particle", 1e-3, 0),
                             ("roles: N_active<N, type 1, massive test particle", 1e-3, 1)):
        rng = rng0.fork()
        sy = base_system(rng, extra=tpextra(rng, mtest), nactive=3)
        st = lambda sim, tpt=tpt: setattr(sim, "testparticle_type", tpt)
        for integ in pick(cnt):
            cnt += 1
            for keys in [[(1, "a")], [(3, "x")], [(2, "e")]] if full else [[(1, "a")], [(3, "x")]]:
                go(name, sy, integ, keys, opts={"setup": st}, com=False)
        if tpt == 0:
            for integ in (["ias15", "bs"] if full else ["ias15"]):
                go(name, sy, integ, [(1, "a"), (3, "x")], opts={"setup": st}, com=False)
                go("roles: testparticle= variation, order 1", sy, integ, [(3, "a")], opts={"setup": st}, com=False, tp=3)
                go("roles: testparticle= variation, order 2", sy, integ, [(3, "a"), (3, "e")], opts={"setup": st}, com=False, tp=3)
    rng = rng0.fork()
    sy = base_system(rng, masses=[0.0, None])          # an active planet with zero mass
    for integ in pick(cnt):
        cnt += 1
        go("roles: zero-mass active body", sy, integ, [(1, "x")])
        go("roles: zero-mass active body", sy, integ, [(2, "a")])
    sy = base_system(rng0.fork(), nactive=1)            # only the star is active
    for integ in (ALL if full else ["whfast", "ias15"]):
        go("roles: single active body", sy, integ, [(1, "a")], com=False)
        go("roles: single active body", sy, integ, [(2, "x")], com=False)
    sy = base_system(rng0.fork())
    for integ in pick(cnt):
        cnt += 1
        go("roles: varied particle index 0", sy, integ, [(0, "x")])
        go("roles: varied particle index 0", sy, integ, [(0, "m_cart")] if integ != "whfast" else [(0, "vy")])
        go("roles: varied particle index >= 2", sy, integ, [(2, "a")])
    # ------------------------------------------------------------------ options
    sy = base_system(rng0.fork(), G=rng0.uniform(2.0, 6.0))
    for integ in pick(cnt):
        cnt += 1
        for keys in keysets(cnt):
            go("options: G != 1", sy, integ, keys)
        if integ in ("ias15", "bs"):
            go("options: G != 1", sy, integ, [(1, "m")])
            go("options: G != 1", sy, integ, [(1, "a"), (1, "m")])
    sy = base_system(rng0.fork(), m0=rng0.uniform(2.2, 3.5))
    for integ in pick(cnt):
        cnt += 1
        for keys in keysets(cnt):
            go("options: total mass != 1", sy, integ, keys)
        if integ in ("ias15", "bs"):
            go("options: total mass != 1", sy, integ, [(1, "m")])
            go("options: total mass != 1", sy, integ, [(2, "m_cart"), (1, "x")])
    sy = base_system(rng0.fork())
    soft = lambda sim: setattr(sim, "softening", 0.15)
    for integ in pick(cnt):
        cnt += 1
        for keys in keysets(cnt):
            go("options: softening != 0", sy, integ, keys, opts={"setup": soft})
        if integ in ("ias15", "bs"):
            go("options: softening != 0", sy, integ, [(1, "a"), (2, "x")], opts={"setup": soft})
    for corr in ((3, 5, 7, 11, 17) if full else (5, 17)):
        go("options: whfast correctors", sy, "whfast", [(1, "a")], opts={"corrector": corr})
    go("options: whfast safe_mode=0", sy, "whfast", [(1, "a")], opts={"safe_mode": 0})
    go("options: whfast safe_mode=0", sy, "whfast", [(2, "vy")], opts={"safe_mode": 0, "corrector": 11})

    def hist_unsync(sim, T):
        # intermediate outputs with keep_unsynchronized=1: particles are synchronized for the user, the integration continues
        # from the unsynchronized state
        for f_ in (0.3, 0.6, 1.0):
            sim.integrate(f_ * T, exact_finish_time=0)
        sim.ri_whfast.keep_unsynchronized = 0
        sim.synchronize()
        return sim
    for corr in (0, 7):
        go("options: whfast keep_unsynchronized=1", sy, "whfast", [(1, "a")], opts={"safe_mode": 0, "keep_unsynchronized": 1, "corrector": corr, "history": hist_unsync},
           dims=("time: exact_finish_time=0 (fixed step)",))
    ias_opts = [lambda sim: setattr(sim.ri_ias15, "epsilon", 1e-7), lambda sim: setattr(sim.ri_ias15, "adaptive_mode", 0),
                lambda sim: setattr(sim.ri_ias15, "adaptive_mode", 1), lambda sim: (setattr(sim.ri_ias15, "epsilon", 0.0), setattr(sim, "dt", 0.02)),
                lambda sim: setattr(sim.ri_ias15, "min_dt", 0.05)]
    def guarded(fn, timeout):
        """run fn() in a forked child; returns its (picklable) result, or None if it does not return in time"""
        r_, w_ = os.pipe()
        pid = os.fork()
        if pid == 0:
            os.close(r_)
            try:
                res = fn()
                with os.fdopen(w_, "wb") as f_:
                    f_.write(pickle.dumps(res))
            finally:
                os._exit(0)
        os.close(w_)
        buf, t0 = b"", time.time()
        while time.time() - t0 < timeout:
            rd, _, _ = select.select([r_], [], [], 1.0)
            if rd:
                ch = os.read(r_, 1 << 20)
                if not ch:
                    break
                buf += ch
        else:
            os.kill(pid, signal.SIGKILL)
            os.waitpid(pid, 0)
            os.close(r_)
            return None
        os.close(r_)
        os.waitpid(pid, 0)
        try:
            return pickle.loads(buf)
        except Exception:
            return None
    for k, st in enumerate(ias_opts if full else [ias_opts[0], ias_opts[3]]):
        go("options: ias15 non-default", sy, "ias15", [(1, "a")], opts={"setup": st})
        if st is ias_opts[1]:
            # adaptive_mode 0: its timestep criterion looks at the variational particles too; with a second-order set (zero at t=0)
            # the step can collapse to 1e-17 and integrate() never returns -> run under a watchdog
            res = guarded(lambda: shadow_case(sy, "ias15", 10.0, [(2, "x"), (1, "e")], True, None, {"setup": st})[:2], 25)
            ntot += 1
            c.count(("dim", "ias15-adaptive0-second-order"), nontrivial=True)
            dim(c, "options: ias15 non-default")
            if res is None:
                c.violation("F25:ias15-adaptive-mode0-includes-variational",
                            "IAS15 adaptive_mode=0 with a second-order variational set does not return within 25 s (T=10: the step collapses)",
                            dict(G=sy.G, m0=sy.m0, bodies=sy.bodies, keys=[(2, "x"), (1, "e")], T=10.0))
            elif not res[0] <= THR + 4 * res[1]:
                fails.append(dict(dimension="options: ias15 non-default", integrator="ias15", keys=[(2, "x"), (1, "e")], rel_err=res[0], oracle_uncertainty=res[1],
                                  bodies=sy.bodies, note="adaptive_mode=0"))
        else:
            go("options: ias15 non-default", sy, "ias15", [(2, "x"), (1, "e")], opts={"setup": st})
    bs_opts = [lambda sim: setattr(sim.ri_bs, "max_dt", 0.2), lambda sim: setattr(sim.ri_bs, "min_dt", 1e-3),
               lambda sim: (setattr(sim.ri_bs, "eps_rel", 1e-13), setattr(sim.ri_bs, "eps_abs", 1e-13))]
    for st in (bs_opts if full else bs_opts[:1]):
        go("options: bs non-default", sy, "bs", [(1, "a")], opts={"setup": st})
        go("options: bs non-default", sy, "bs", [(2, "x"), (1, "e")], opts={"setup": st})
    # ------------------------------------------------------------------ time
    sy = base_system(rng0.fork())
    for integ in ALL:
        go("time: dt < 0", sy, integ, [(1, "a")], T=-10.0)
        if integ in ("ias15", "bs"):
            go("time: dt < 0", sy, integ, [(1, "a"), (2, "e")], T=-10.0)

    def hist_split(sim, T):
        for f_ in (0.31, 0.62, 1.0):
            sim.integrate(f_ * T, exact_finish_time=1)
        return sim

    def hist_reverse(sim, T):
        for f_ in (0.7, 0.35, 1.0):
            sim.integrate(f_ * T, exact_finish_time=1)
        return sim
    for integ in pick(cnt, ALL):
        cnt += 1
        go("time: integrate() split in several calls", sy, integ, [(1, "a")], opts={"history": hist_split})
        go("time: direction reversal between calls", sy, integ, [(2, "vy")], opts={"history": hist_reverse})
    for integ in ("whfast", "leapfrog"):
        go("time: exact_finish_time=0 (fixed step)", sy, integ, [(1, "a")], opts={"exact_finish_time": 0})
    # ------------------------------------------------------------------ callbacks
    kf, gam = 0.05, 0.02

    def with_forces(counterpart, veldep):
        def setup(sim):
            def af(simp):
                s_ = simp.contents
                ps = s_.particles
                n_ = s_.N if counterpart else s_.N - s_.N_var
                for i_ in range(n_):
                    p_ = ps[i_]
                    if veldep:
                        p_.ax -= gam * p_.vx; p_.ay -= gam * p_.vy; p_.az -= gam * p_.vz
                    else:
                        p_.ax -= kf * p_.x; p_.ay -= kf * p_.y; p_.az -= kf * p_.z
            sim.additional_forces = af
            sim.force_is_velocity_dependent = 1 if veldep else 0
            sim._keep_af = af
        return setup
    for integ in (["ias15", "bs", "leapfrog", "whfast"] if full else ["ias15", "whfast"]):
        go("callbacks: additional_forces with variational counterpart", sy, integ, [(1, "a")], opts={"setup": with_forces(True, False), "dt": 0.02}, T=6.0)
    for integ in (["ias15", "bs"] if full else ["ias15"]):
        go("callbacks: velocity-dependent additional_forces with counterpart", sy, integ, [(1, "a")], opts={"setup": with_forces(True, True)}, T=6.0)
    # the user has to supply the derivative of an additional force for the variational particles; without it the variation is NOT
    # the derivative (outside the property: measured, never alarmed)
    go("excluded: additional_forces WITHOUT variational counterpart", sy, "ias15", [(1, "a")], opts={"setup": with_forces(False, False)}, T=6.0, expect_fail=True)

    def noop_ptm(sim):
        def f_(simp):
            pass
        sim.post_timestep_modifications = f_
        sim._keep_ptm = f_

    def noop_hb(sim):
        def f_(simp):
            pass
        sim.heartbeat = f_
        sim._keep_hb = f_
    for integ in (["whfast", "ias15", "leapfrog"] if full else ["whfast", "ias15"]):
        go("callbacks: post_timestep_modifications (no-op)", sy, integ, [(1, "a")], opts={"setup": noop_ptm, "dt": 0.02}, T=6.0)
    for integ in (["whfast", "ias15", "bs"] if full else ["whfast"]):
        go("callbacks: heartbeat", sy, integ, [(2, "vy")], opts={"setup": noop_hb, "dt": 0.02}, T=6.0)
    # ------------------------------------------------------------------ histories
    def hist_copy(sim, T):
        sim.integrate(0.5 * T, exact_finish_time=1)
        s2 = sim.copy()
        s2.integrate(T, exact_finish_time=1)
        return s2

    def hist_save(sim, T):
        sim.integrate(0.5 * T, exact_finish_time=1)
        fn = os.path.join(tmpdir, "c16_%d_%d.bin" % (os.getpid(), id(sim) % 100000))
        sim.save_to_file(fn, delete_file=True)
        s2 = rebound.Simulation(fn)
        os.remove(fn)
        s2.integrate(T, exact_finish_time=1)
        return s2

    def hist_switch(to):
        def h(sim, T):
            sim.integrate(0.5 * T, exact_finish_time=1)
            sim.integrator = to
            if to in ("whfast", "leapfrog"):
                sim.dt = 0.01 if T > 0 else -0.01
            sim.integrate(T, exact_finish_time=1)
            return sim
        return h
    for integ in pick(cnt, ALL):
        cnt += 1
        go("history: copy mid-run", sy, integ, [(1, "a")], opts={"history": hist_copy})
        go("history: save/restore mid-run", sy, integ, [(2, "e")], opts={"history": hist_save})
    for integ in (["ias15", "bs"] if full else ["ias15"]):
        go("history: save/restore mid-run", sy, integ, [(1, "a"), (2, "x")], opts={"history": hist_save})
    for a_, b_ in ((("ias15", "whfast"), ("whfast", "ias15"), ("bs", "leapfrog"), ("leapfrog", "bs")) if full else (("ias15", "whfast"), ("whfast", "ias15"))):
        go("history: integrator switched mid-run", sy, a_, [(1, "a")], opts={"history": hist_switch(b_)})
    # ------------------------------------------------------------------ frame operations mid-run (C20's operations)
    def hist_op(op):
        def h(sim, T):
            sim.integrate(0.5 * T, exact_finish_time=1)
            op(sim)
            sim.integrate(T, exact_finish_time=1)
            return sim
        return h
    rot = rebound.Rotation(angle=0.7, axis=[0.3, -0.5, 0.8])

    for integ in pick(cnt, ALL):
        cnt += 1
        go("frame: move_to_com mid-run", sy, integ, [(1, "m_cart")] if integ in ("ias15", "bs") else [(1, "a")], opts={"history": hist_op(lambda sim: sim.move_to_com())}, com=False)
        go("frame: rotate mid-run", sy, integ, [(2, "vy")], opts={"history": hist_op(lambda sim: sim.rotate(rot))})
        go("frame: move_to_hel mid-run", sy, integ, [(1, "a")], opts={"history": hist_op(lambda sim: sim.move_to_hel())}, expect_fail=False)
    # units: the run is set up in (yr, AU, Msun) so that convert_particle_units has a defined starting point
    syu = System(rebound, 39.476926421373, 1.0, sy.bodies)
    for integ in (["ias15", "whfast"] if full else ["ias15"]):
        def setup_units(sim):
            sim.update_units(("au", "yr", "msun"))      # declare what the numbers mean (G = 39.4769... is already set accordingly)

        def hist_units(sim, T):
            sim.integrate(0.5 * T, exact_finish_time=1)
            sim.convert_particle_units("day", "km", "kg")
            sim.dt = sim.dt * 365.25 if integ == "whfast" else sim.dt
            sim.integrate(0.5 * T + 0.5 * T * 365.25, exact_finish_time=1)
            return sim
        go("frame: convert_particle_units mid-run", syu, integ, [(1, "x")], T=1.6, opts={"setup": setup_units, "history": hist_units, "dt": 0.002})
    # ------------------------------------------------------------------ geometry
    def boost(sim):
        for i_ in range(sim.N):
            p_ = sim.particles[i_]
            p_.x += 40.0; p_.y -= 25.0; p_.z += 3.0
            p_.vx += 0.7; p_.vy += 1.3; p_.vz -= 0.4
    for integ in pick(cnt, ALL):
        cnt += 1
        go("geometry: centre of mass offset and moving", sy, integ, [(1, "a")], opts={"setup": boost}, com=False)
    rngh = rng0.fork()
    syh = System(rebound, 1.0, 1.0, list(sy.bodies[:1]) + [(1e-3, "orb", [-2.0, 1.6, 0.3, 1.0, 0.5, -1.2])])
    for integ in (["ias15", "bs", "whfast"] if full else ["ias15", "whfast"]):
        go("geometry: hyperbolic body", syh, integ, [(2, "x")], T=6.0)
        go("geometry: hyperbolic body", syh, integ, [(2, "vy")], T=6.0)
    # ------------------------------------------------------------------ rescale + restore: lrescale persisted, continuity across save/load
    for integ in (["whfast", "ias15", "bs"] if full else ["whfast", "ias15"]):
        sims = []
        for big in (9e99, 1e-10):
            sim = sy.build(integ, None, {"dt": 0.02})
            v = sim.add_variation()
            rr = SplitMix(99)
            for i_ in range(3):
                for comp in CART:
                    setattr(v.particles[i_], comp, rr.normal() * big)
            sim.integrate(20.0, exact_finish_time=1)
            if big > 1:
                lr_before = v.lrescale
                fn = os.path.join(tmpdir, "c16r_%d.bin" % os.getpid())
                sim.save_to_file(fn, delete_file=True)
                sim = rebound.Simulation(fn)
                os.remove(fn)
                lr_after = sim.var_config[0]._lrescale
            sim.integrate(40.0, exact_finish_time=1)
            idx = sim.var_config[0].index
            sims.append((sim, [getattr(sim.particles[idx + i_], comp) for i_ in range(3) for comp in CART], sim.var_config[0]._lrescale))
        (sb, A, lrb), (ss, B, lrs) = sims
        lfac = (lrb - lrs) - math.log(9e99 / 1e-10)
        sc = max(abs(x) for x in B)
        e = max(abs(a * math.exp(lfac / 2) * math.exp(lfac / 2) - b) for a, b in zip(A, B)) / sc
        ntot += 1
        c.count(("dim", "restore-after-rescale", integ), nontrivial=True)
        worst["history: restore after rescale (lrescale persisted)"] = max(worst.get("history: restore after rescale (lrescale persisted)", 0.0), e)
        if lr_before > 0 and d2h(lr_before) == d2h(lr_after) and e <= 1e-6:
            dim(c, "history: restore after rescale (lrescale persisted)")
        else:
            fails.append(dict(dimension="history: restore after rescale (lrescale persisted)", integrator=integ, keys=[], lrescale_before_save=lr_before,
                              lrescale_after_load=lr_after, rel_err=e, oracle_uncertainty=0.0))
    # ------------------------------------------------------------------ MEGNO with every integrator that computes it, and after a restore
    meg = {}
    sym = System(rebound, 1.0, 1.0, [(1e-4, "orb", [1.0, 0.05, 0.03, 0.3, 0.4, 0.5]), (1e-4, "orb", [2.2, 0.04, 0.05, 1.3, 2.4, 1.5])])
    simb = sym.build("bs", None, {})
    simb.init_megno(seed=5)
    try:
        simb.integrate(1.0)
        meg["bs"] = "accepted"
        c.violation("megno:bs-accepted", "BS integrates with init_megno() although it does not compute MEGNO", {})
    except Exception as ex:
        meg["bs"] = "rejected: " + str(ex)[:70]
    for integ, norb, tol in (("whfast", 1000, 0.05), ("ias15", 300, 0.1), ("eos", 1000, 0.05)):
        T = 2 * math.pi * norb
        sim = sym.build(integ, None, {})
        sim.dt = 2 * math.pi / 40
        if integ == "bs":
            sim.ri_bs.eps_rel = 1e-10; sim.ri_bs.eps_abs = 1e-10
        sim.move_to_com()
        sim.init_megno(seed=5)
        try:
            sim.integrate(T)
            Y, ly = sim.megno(), sim.lyapunov() * T
        except Exception as ex:
            Y, ly = float("nan"), float("nan")
            meg[integ + " error"] = repr(ex)[:120]
        meg[integ] = [float("%.5g" % Y), float("%.3g" % ly)]
        ntot += 1
        c.count(("dim", "megno", integ), nontrivial=True)
        if abs(Y - 2) <= tol and abs(ly) <= 1.0:
            dim(c, "megno: " + integ)
        else:
            fails.append(dict(dimension="megno: " + integ, integrator=integ, keys=[], megno=Y, lyapunov_T=ly, rel_err=abs(Y - 2), oracle_uncertainty=0.0, bodies=sym.bodies))
    # MEGNO must not depend on where the MEGNO set sits among the variational configurations
    for integ in ("whfast", "ias15", "eos"):
        T = 2 * math.pi * (150 if integ != "ias15" else 60)
        ys = {}
        for order_ in ("only", "first", "last"):
            sim = sym.build(integ, None, {})
            sim.dt = 2 * math.pi / 40
            sim.move_to_com()
            if order_ == "last":
                v_ = sim.add_variation(); v_.particles[1].x = 1.0
            sim.init_megno(seed=5)
            if order_ == "first":
                v_ = sim.add_variation(); v_.particles[1].x = 1.0
            try:
                sim.integrate(T)
                ys[order_] = sim.megno()
            except Exception as ex:
                ys[order_] = float("nan")
        dY = max(abs(ys["first"] - ys["only"]), abs(ys["last"] - ys["only"]))
        meg["config order " + integ] = {k_: float("%.8g" % v_) for k_, v_ in ys.items()}
        ntot += 1
        c.count(("dim", "megno-config-order", integ), nontrivial=True)
        dim(c, "megno: other variational sets before/after the MEGNO set")
        if not dY <= 1e-9:
            c.violation("F27:whfast-megno-depends-on-config-order" if integ == "whfast" else "megno:config-order:" + integ,
                        "%s: MEGNO depends on the position of the MEGNO set among the variational configurations: only=%.8f first=%.8f last=%.8f" %
                        (integ, ys["only"], ys["first"], ys["last"]), dict(integrator=integ, megno=ys, bodies=sym.bodies, T=T))
    for integ in (["whfast", "ias15"] if full else ["whfast"]):
        T = 2 * math.pi * 300
        res = []
        for restore in (False, True):
            sim = sym.build(integ, None, {})
            sim.dt = 2 * math.pi / 40
            sim.move_to_com()
            sim.init_megno(seed=5)
            sim.integrate(T / 2, exact_finish_time=0)
            if restore:
                fn = os.path.join(tmpdir, "c16m_%d.bin" % os.getpid())
                sim.save_to_file(fn, delete_file=True)
                sim = rebound.Simulation(fn)
                os.remove(fn)
            sim.integrate(T, exact_finish_time=0)
            res.append((sim.megno(), sim.lyapunov()))
        dY = abs(res[0][0] - res[1][0])
        meg["after restore " + integ] = [float("%.6g" % res[1][0]), float("%.3g" % dY)]
        ntot += 1
        c.count(("dim", "megno-restore", integ), nontrivial=True)
        if dY <= 1e-6 and abs(res[1][0] - 2) < 0.1:
            dim(c, "megno: after restore")
        else:
            fails.append(dict(dimension="megno: after restore", integrator=integ, keys=[], uninterrupted=res[0], restored=res[1], rel_err=dY, oracle_uncertainty=0.0))
    c.cov["dimension_runs"] = {"configurations": ntot, "inconclusive": ninc, "threshold": THR,
                               "worst_rel": {k: float("%.3g" % v) for k, v in sorted(worst.items())},
                               "outside_the_property_measured": measured, "megno": meg}
    seen = set()
    for f in sorted(fails, key=lambda r_: -(r_["rel_err"] if r_["rel_err"] == r_["rel_err"] else 1e300)):
        if f["dimension"] == "frame: move_to_hel mid-run":
            key = "F23:move_to_hel-ignores-variational"
        elif f["dimension"] == "roles: single active body" and f["integrator"] == "whfast" and f.get("keys") and f["keys"][0][0] == 1:
            key = "F24:var-testparticle-loop-ignores-starti"
        else:
            key = "dimension:" + f["dimension"].split(":")[0] + ":" + f["dimension"].split(": ", 1)[-1].replace(" ", "-")[:40] + ":" + f["integrator"]
        if key in seen:
            continue
        seen.add(key)
        c.violation(key, "[%s] %s variation %s differs from the finite difference of equally treated shadow runs by %.3g" %
                    (f["dimension"], f["integrator"], f.get("keys"), f["rel_err"]), f)


def finalize_dimensions(c):
    """dimensions covered by the other phases are counted here from their evidence; a zero count is a broken obligation"""
    cov = c.cov
    comp = cov.get("comparisons", {})
    rr = cov.get("rejected_step_runs", {}).get("rejected_steps_total", {})
    if sum(rr.values()) > 0:
        dim(c, "history: rejected steps", sum(rr.values()))
    n_res = sum(1 for v in cov.get("rescale_runs", {}).values() if v.get("lrescale", 0) > 0)
    if n_res:
        dim(c, "history: rescale event", n_res)
    if comp.get("vary_dispatch", {}).get("calls", 0) and not comp["vary_dispatch"].get("disagreements"):
        dim(c, "python: shortcut names", 2 * 18)
    nbig = cov.get("tie_big_N_cases", 0)
    if nbig:
        dim(c, "scale: more than 128 particles (allocation boundary)", nbig)
    d_ = cov.setdefault("dimensions", {})
    missing = [n for n in APPLICABLE_DIMENSIONS if d_.get(n, 0) == 0]
    for n in APPLICABLE_DIMENSIONS:
        d_.setdefault(n, 0)
    if missing:
        c.corr_break("dimension(s) not covered: " + "; ".join(missing))


# ============================================================================ search: rescale event x rejected step right after
def search_rescale_then_reject(c, rebound):
    """IAS15 keeps backup predictor coefficients (br, er) that are only read when a step attempt is rejected.  A rescale at the end
    of step s followed by a rejected attempt in step s+1 is forced deterministically: a pilot run finds the step with the rescale
    event, the user then raises sim.dt by a large factor so that the next attempt is rejected.  Oracle: the same run with
    lrescale = -1 (never rescaled) represents the same variation: exp(lrescale)*delta must agree to rounding."""
    worst = 0.0
    runs = {}
    nconj = 0
    ncases = 6 if c.thorough else 3
    for case in range(ncases):
        rng = c.rng.fork()
        sy = gen_system(rebound, rng)
        s_edit = [0, 2, 5, 9, 1, 3][case]            # number of ordinary steps before the variation is made large
        factor = [8.0, 25.0, 4.0, 60.0, 12.0, 2.5][case]     # new sim.dt (time units; inner period 2 pi): far beyond what IAS15 accepts
        seedv = rng.next()
        twins = []
        for lr0 in (0.0, -1.0):
            sim = sy.build("ias15", None, {})
            v = sim.add_variation()
            v.lrescale = lr0
            rr = SplitMix(seedv)
            for i_ in range(3):
                for comp in CART:
                    setattr(v.particles[i_], comp, rr.normal())
            twins.append((sim, v))
        (sa, va), (sb, vb) = twins
        for _ in range(s_edit):
            sa.step(); sb.step()
        big = 3e100
        for sim, v in twins:                           # the user works with a large un-normalised variation from now on
            for i_ in range(3):
                for comp in CART:
                    setattr(v.particles[i_], comp, getattr(v.particles[i_], comp) * big)
        # pilot: step until the automatic twin rescales
        rescaled_at = None
        for k in range(50):
            lr_before = va.lrescale
            sa.step(); sb.step()
            if va.lrescale != lr_before:
                rescaled_at = s_edit + k + 1
                break
        info = {"rescale_at_step": rescaled_at, "dt_raised_to": factor}
        if rescaled_at is None:
            runs[str(case)] = info
            continue
        # raise dt right after the rescale: the next attempt is far too long and gets rejected
        nrej = 0
        for sim in (sa, sb):
            sim.dt = factor
        dtb = sa.dt
        sa.step(); sb.step()
        if abs(sa.dt_last_done) < abs(dtb) * (1 - 1e-12):
            nrej += 1
        for _ in range(30):
            sa.step(); sb.step()
        A, B = var_state(va, range(3)), var_state(vb, range(3))
        lr = va.lrescale
        sc = max(abs(x) for x in B) or 1.0
        e = 0.0
        for a_, b_ in zip(A, B):
            try:
                av = a_ * math.exp(lr / 2) * math.exp(lr / 2)
            except OverflowError:
                av = float("inf")
            d_ = abs(av - b_) / sc
            e = d_ if not d_ <= e else e
        realsame = all(d2h(x) == d2h(y) for x, y in zip(state_of(sa, range(3)), state_of(sb, range(3))))
        info.update({"rejected_attempt_in_next_step": bool(nrej), "rel": float("%.3g" % e), "lrescale": lr, "real_particles_bitwise_equal": realsame})
        runs[str(case)] = info
        c.count(("rescale-then-reject", case), nontrivial=bool(nrej))
        if nrej:
            nconj += 1
            dim(c, "history: rescale event immediately followed by a rejected step")
            worst = max(worst, e) if e == e else float("inf")
            if not e <= 1e-9:
                c.violation("rescale:then-rejected-step:ias15", "IAS15: a rescale event followed by a rejected step attempt corrupts the variational particles: "
                            "exp(lrescale)*delta differs from the never-rescaled twin (lrescale=-1) by %.3g" % e,
                            dict(G=sy.G, m0=sy.m0, bodies=sy.bodies, steps_before_large_variation=s_edit, rescale_at_step=rescaled_at, dt_raised_by=factor,
                                 lrescale=lr, rel=e, variation_seed=seedv))
    c.cov["rescale_then_reject"] = {"runs": runs, "conjunctions": nconj, "worst_rel": float("%.3g" % worst), "threshold": 1e-9}


# ============================================================================ search: pairwise covering array of explicit factors
PW_FACTORS = {
    "integ":   ["ias15", "bs", "whfast", "leapfrog"],
    "order":   [1, 2],
    "role":    ["all-active", "nactive-type0-massless", "nactive-type0-massive", "nactive-type1-massive", "testparticle-var",
                "testparticle-var-active-type0", "testparticle-var-active-type1"],   # testparticle= variation of a massless ACTIVE body, massive inactive body present
    "whopt":   ["default", "safe_mode=0", "corrector=7", "safe_mode=0+corrector=11"],   # ri_whfast options (matter for WHFast and after a switch to it)
    "param":   ["cart", "mass", "orb", "pal"],
    "sign":    [1, -1],
    "pattern": ["single", "split", "reversal"],
    "option":  ["default", "softening", "G-and-mass", "noop-callbacks", "forces-with-counterpart"],
    "evA":     ["none", "rescale", "dt-raise", "switch", "restore", "copy", "frame-op", "synchronize"],   # event in step s
    "evB":     ["none", "rescale", "dt-raise", "switch", "restore", "copy", "frame-op", "synchronize"],   # event in step s+1
}
PW_ORDER = ["integ", "order", "role", "param", "sign", "pattern", "option", "whopt", "evA", "evB"]


def pw_valid(a):
    """constraints = combinations the code rejects (or a recorded finding); listed explicitly"""
    if a["integ"] == "whfast" and a["order"] == 2:
        return False        # "WHFast/MEGNO only supports first order variational equations."
    if a["integ"] == "whfast" and a["role"].startswith("testparticle-var"):
        return False        # "Test particle variations not supported with WHFast."
    if a["integ"] == "whfast" and a["param"] == "mass":
        return False        # F16 (known finding): WHFast tangent map has no mass terms
    if a["role"] in ("nactive-type1-massive", "testparticle-var-active-type1") and a["order"] == 2:
        return False        # "testparticletype=1 not implemented for second order variational equations."
    if a["role"].startswith("testparticle-var") and a["param"] == "mass":
        return False        # a test particle has no mass to vary
    if a["order"] == 2 and "rescale" in (a["evA"], a["evB"]):
        return False        # second-order sets are never rescaled (warning + return)
    return True


def pw_array(seed=20260930):
    """greedy all-pairs covering array: repeat 'pick the candidate covering most uncovered pairs' from 300 random valid candidates"""
    rng = SplitMix(seed)
    names = PW_ORDER
    # feasible pairs: enumerate the constrained sub-space once
    feasible = set()
    con = ["integ", "order", "role", "param", "evA", "evB"]
    free = [n for n in names if n not in con]

    def rec(i, a):
        if i == len(con):
            if pw_valid(dict(a, sign=1, pattern="single", option="default", whopt="default")):
                items = list(a.items())
                for x in range(len(items)):
                    for y in range(x + 1, len(items)):
                        feasible.add((items[x][0], items[x][1], items[y][0], items[y][1]))
            return
        for v in PW_FACTORS[con[i]]:
            a[con[i]] = v
            rec(i + 1, a)
        del a[con[i]]
    rec(0, {})
    allpairs, excluded = set(), 0
    for x in range(len(names)):
        for y in range(x + 1, len(names)):
            for va in PW_FACTORS[names[x]]:
                for vb in PW_FACTORS[names[y]]:
                    pr = (names[x], va, names[y], vb)
                    if names[x] in free or names[y] in free or pr in feasible:
                        allpairs.add(pr)
                    else:
                        excluded += 1

    def pairs_of(a):
        return {(names[x], a[names[x]], names[y], a[names[y]]) for x in range(len(names)) for y in range(x + 1, len(names))}
    uncovered = set(allpairs)
    cases = []
    while uncovered and len(cases) < 400:
        best, bestn = None, -1
        seedpair = sorted(uncovered, key=str)[rng.next() % len(uncovered)]
        for _ in range(300):
            a = {n: rng.choice(PW_FACTORS[n]) for n in names}
            a[seedpair[0]] = seedpair[1]; a[seedpair[2]] = seedpair[3]
            if not pw_valid(a):
                continue
            n_ = len(pairs_of(a) & uncovered)
            if n_ > bestn:
                best, bestn = a, n_
        if best is None:
            uncovered.discard(seedpair)
            continue
        cases.append(best)
        uncovered -= pairs_of(best)
    return cases, allpairs, excluded, pairs_of


def pw_run_case(c, rebound, a, rng, tmpdir):
    """one case of the covering array -> (err, unc) with the Romberg finite-difference oracle on equally treated shadows"""
    integ, order, role, param, sgn = a["integ"], a["order"], a["role"], a["param"], a["sign"]
    G, m0 = (2.7, 1.8) if a["option"] == "G-and-mass" else (1.0, 1.0)
    base = gen_system(rebound, rng)
    bodies = list(base.bodies)
    if G != 1.0:        # keep the periods: scale the semi-major axes so that n stays ~1
        sc_ = (G * m0) ** (1 / 3.0)
        bodies = [(m, k, [el[0] * sc_] + list(el[1:])) for m, k, el in bodies]
    nactive = None
    tptype = 0
    if role.startswith("testparticle-var-active"):
        bodies[0] = (0.0, bodies[0][1], bodies[0][2])       # the varied body: massless but inside the active set
    if role != "all-active":
        mt = {"nactive-type0-massless": 0.0, "nactive-type0-massive": 8e-4, "nactive-type1-massive": 8e-4, "testparticle-var": 0.0,
              "testparticle-var-active-type0": 8e-4, "testparticle-var-active-type1": 8e-4}[role]
        a3 = (3.3 + rng.uniform(0, 0.6)) * (bodies[1][2][0] / base.bodies[1][2][0])
        bodies.append((mt, "orb", [a3, rng.uniform(0.02, 0.15), rng.uniform(0.02, 0.4), rng.uniform(0, 6.28), rng.uniform(0, 6.28), rng.uniform(0, 6.28)]))
        nactive = 3
        tptype = 1 if role in ("nactive-type1-massive", "testparticle-var-active-type1") else 0
    sy = System(rebound, G, m0, bodies, nactive)
    tp = 3 if role == "testparticle-var" else (1 if role.startswith("testparticle-var-active") else None)
    if tp == 1:
        i = 1
    else:
        i = 3 if (role == "testparticle-var" or (role != "all-active" and param != "mass" and rng.chance(0.5))) else rng.choice([1, 2])
    j = i if (tp is not None or rng.chance(0.6)) else (1 if i != 1 else 2)
    if order == 1:
        keys = [(i, {"cart": "x", "mass": "m_cart", "orb": "a", "pal": "lambda"}[param])]
    else:
        keys = {"cart": [(i, "x"), (j, "vy")], "mass": [(i if tp is None else 1, "m_cart"), (j, "x")], "orb": [(i, "a"), (i, "e")], "pal": [(i, "lambda"), (i, "h")]}[param]
    T = 6.0 * sgn
    dtf = 0.01 * sgn
    kf = 0.05

    def setup(sim):
        sim.testparticle_type = tptype
        if "safe_mode=0" in a["whopt"]:
            sim.ri_whfast.safe_mode = 0
        if "corrector=" in a["whopt"]:
            sim.ri_whfast.corrector = int(a["whopt"].split("corrector=")[1])
        if a["option"] == "softening":
            sim.softening = 0.12
        if a["option"] == "noop-callbacks":
            def f1(simp):
                pass

            def f2(simp):
                pass
            sim.post_timestep_modifications = f1
            sim.heartbeat = f2
            sim._keep_cb = (f1, f2)
        if a["option"] == "forces-with-counterpart":
            def af(simp):
                s_ = simp.contents
                ps = s_.particles
                for i_ in range(s_.N):          # real AND variational particles: the force is linear
                    p_ = ps[i_]
                    p_.ax -= kf * p_.x; p_.ay -= kf * p_.y; p_.az -= kf * p_.z
            sim.additional_forces = af
            sim._keep_af = af
    nmul = [0]
    BIG = 3e100
    allowed = [x for x in ("ias15", "bs", "leapfrog", "whfast") if x != "whfast" or (order == 1 and tp is None and param != "mass")]
    state = {"integ": integ}
    rot = rebound.Rotation(angle=0.9, axis=[0.2, 0.7, -0.4])

    def event(ev, sim, k):
        if ev in ("rescale", "frame-op", "switch", "dt-raise"):
            sim.synchronize()                   # with safe_mode=0 the user has to synchronize before editing particles, changing dt or
                                                # switching the integrator ...
        if ev in ("rescale", "frame-op"):
            sim.ri_whfast.recalculate_coordinates_this_timestep = 1     # ... and tell WHFast that the particles changed
        if ev == "rescale":
            if sim.N_var_config > 0:            # the user makes the stored variation huge: rescale_var fires at the end of the next step
                vc = sim.var_config[0]
                nv = 1 if vc.testparticle >= 0 else sim.N - sim.N_var
                for i_ in range(nv):
                    p_ = sim.particles[vc.index + i_]
                    for comp in CART + ["m"]:       # the whole variational state (incl. a variational mass) is linear: scale all of it
                        setattr(p_, comp, getattr(p_, comp) * BIG)
                nmul[0] += 1
        elif ev == "dt-raise":
            sim.dt = 3.0 * sgn if state["integ"] in ("ias15", "bs") else sim.dt * 2    # adaptive: far too long -> rejected attempt
        elif ev == "switch":
            nxt = allowed[(allowed.index(state["integ"]) + 1 + k) % len(allowed)]
            if nxt == state["integ"]:
                nxt = allowed[(allowed.index(nxt) + 1) % len(allowed)]
            sim.integrator = nxt
            state["integ"] = nxt
            if nxt in ("whfast", "leapfrog"):
                sim.dt = dtf
            if nxt == "bs":
                sim.ri_bs.eps_rel = 1e-12; sim.ri_bs.eps_abs = 1e-12
        elif ev == "restore":
            fn = os.path.join(tmpdir, "c16pw_%d_%d.bin" % (os.getpid(), id(sim) % 1000003))
            sim.save_to_file(fn, delete_file=True)
            s2 = rebound.Simulation(fn)
            os.remove(fn)
            setup(s2)                           # callbacks are not persisted: the user installs them again
            return s2
        elif ev == "copy":
            s2 = sim.copy()
            setup(s2)
            return s2
        elif ev == "frame-op":
            if k == 0:
                sim.move_to_com()
            else:
                sim.rotate(rot)
        elif ev == "synchronize":
            sim.synchronize()
        return sim

    def history(sim, T_):
        state["integ"] = integ
        nmul[0] = 0
        h_ = 0.5 * T_
        if a["pattern"] == "single":
            sim.integrate(h_, exact_finish_time=1)
        elif a["pattern"] == "split":
            sim.integrate(0.2 * T_, exact_finish_time=1); sim.integrate(0.35 * T_, exact_finish_time=1); sim.integrate(h_, exact_finish_time=1)
        else:
            sim.integrate(0.6 * T_, exact_finish_time=1); sim.integrate(0.3 * T_, exact_finish_time=1); sim.integrate(h_, exact_finish_time=1)
        sim = event(a["evA"], sim, 0)
        sim.step()                              # step s
        sim = event(a["evB"], sim, 1)
        sim.step()                              # step s+1
        tgt = T_ if abs(sim.t) < abs(T_) else sim.t + 0.5 * T_
        sim.integrate(tgt, exact_finish_time=1)
        return sim

    def logscale(ret, vindex):
        lr = 0.0
        for k_ in range(ret.N_var_config):
            if ret.var_config[k_].index == vindex:
                lr = ret.var_config[k_]._lrescale
        return lr - nmul[0] * math.log(BIG)
    opts = {"dt": dtf, "setup": setup, "history": history, "var_logscale": logscale}
    sy2 = sy
    for (ii, par) in keys:
        if par in PAL[2:]:
            sy2 = sy2.with_kind(ii, "pal")
    # the final time must be identical for base run and shadows: adaptive dt-raise can overshoot T/2+..., integrate() handles it
    err, unc, var, fd = shadow_case(sy2, integ, T, keys, role == "all-active" and a["evA"] != "frame-op" and a["evB"] != "frame-op", tp, opts)
    return err, unc, dict(keys=keys, G=G, m0=m0, bodies=sy2.bodies, N_active=nactive, testparticle_type=tptype, variational=var[:12], finite_difference=fd[:12])


def search_pairwise(c, rebound):
    THR = 1e-3
    tmpdir = os.environ.get("VERIF_TMP", "/tmp")
    cases, allpairs, excluded, pairs_of = pw_array()
    if c.thorough:
        todo = list(range(len(cases)))
    else:                                        # seed-rotated slice: every case (hence every pair) is run within three seeds
        todo = [k for k in range(len(cases)) if k % 3 == c.seed % 3]
    covered = set()
    worst, fails, ninc, nerr = 0.0, [], 0, []
    for k in todo:
        a = cases[k]
        rng = SplitMix(977 * (k + 1) + 31 * c.seed)
        try:
            err, unc, rep = pw_run_case(c, rebound, a, rng, tmpdir)
        except Exception as ex:
            if a["param"] == "mass" and "rescale" in (a["evA"], a["evB"]):
                # F26: the un-rescaled variational mass drives the set to inf/nan, an adaptive integrator then refuses to go on
                err, unc, rep = float("inf"), 0.0, dict(exception=repr(ex)[:200])
            else:
                nerr.append(dict(case=a, error=repr(ex)[:200]))
                continue
        c.count(("pairwise", k), nontrivial=True)
        if unc > THR / 4:
            ninc += 1
            continue
        covered |= pairs_of(a)
        if err == err:
            worst = max(worst, err)
        if not err <= THR + 4 * unc:
            fails.append(dict(rep, factors=a, rel_err=err, oracle_uncertainty=unc))
    # 3-way for the factors closest to the mechanism: integrator x event in step s x event in step s+1 (thorough)
    n3 = n3cov = 0
    if c.thorough:
        for integ in PW_FACTORS["integ"]:
            for ea in PW_FACTORS["evA"]:
                for eb in PW_FACTORS["evB"]:
                    a = dict(integ=integ, order=1, role="all-active", param=["cart", "orb", "pal"][(n3) % 3], sign=1 if n3 % 2 == 0 else -1,
                             pattern="single", option="default", whopt=["default", "safe_mode=0", "safe_mode=0+corrector=11", "corrector=7"][n3 % 4], evA=ea, evB=eb)
                    if not pw_valid(a):
                        continue
                    n3 += 1
                    try:
                        err, unc, rep = pw_run_case(c, rebound, a, SplitMix(5000 + n3), tmpdir)
                    except Exception as ex:
                        nerr.append(dict(case=a, error=repr(ex)[:200]))
                        continue
                    c.count(("threeway", integ, ea, eb), nontrivial=True)
                    if unc > THR / 4:
                        continue
                    n3cov += 1
                    if not err <= THR + 4 * unc:
                        fails.append(dict(rep, factors=a, rel_err=err, oracle_uncertainty=unc))
    total = len(allpairs)
    c.cov["pairs"] = {"covered": len(covered & allpairs), "total": total, "excluded": excluded, "array_size": len(cases), "cases_run": len(todo),
                      "inconclusive": ninc, "errors": nerr[:5], "worst_rel": float("%.3g" % worst), "threshold": THR,
                      "factors": {k_: len(v) for k_, v in PW_FACTORS.items()},
                      "threeway_integ_evA_evB": {"run": n3, "conclusive": n3cov},
                      "missing": [list(p_) for p_ in sorted(allpairs - covered, key=str)[:15]] if c.thorough else "quick tier runs a third of the array (rotated by VERIF_SEED)"}
    if nerr:
        c.corr_break("pairwise phase: %d cases raised an exception (first: %s)" % (len(nerr), nerr[0]["error"]), nerr[0])
    if c.thorough and len(covered & allpairs) < total:
        c.corr_break("pairwise coverage incomplete: %d of %d applicable pairs" % (len(covered & allpairs), total))
    if c.thorough and n3cov < n3:
        c.corr_break("3-way coverage integ x evA x evB incomplete: %d of %d" % (n3cov, n3))
    seen = set()
    for f in sorted(fails, key=lambda r_: -(r_["rel_err"] if r_["rel_err"] == r_["rel_err"] else 1e300)):
        fa = f["factors"]
        if fa["param"] == "mass" and "rescale" in (fa["evA"], fa["evB"]):
            key = "F26:rescale_var-ignores-variational-mass"
        else:
            key = "pairwise:%s:o%d:%s>%s" % (fa["integ"], fa["order"], fa["evA"], fa["evB"])
        if key in seen:
            continue
        seen.add(key)
        c.violation(key, "variation differs from the finite difference of equally treated shadows by %.3g for the factor combination %s" %
                    (f["rel_err"], json.dumps(fa, sort_keys=True)), f)


def run(c):
    if "--replay" in sys.argv:
        # runs are reproducible from (seed, tier): a replay re-runs the check exactly as it ran when the file was written
        rp = json.load(open(sys.argv[sys.argv.index("--replay") + 1]))
        c.seed, c.tier = int(rp.get("seed", 1)), rp.get("tier", "quick")
        c.rng = SplitMix(c.seed * 1000003 + 16)
        c.log("replay of", rp.get("key", rp.get("no_longer_checks", ["?"])[0] if isinstance(rp.get("no_longer_checks"), list) else "?"), "seed", c.seed, "tier", c.tier)
    d = build()
    rebound = use_scratch_rebound(d)
    fams = regenerate_derivs(c)
    c.prove(["RV.Props.C16"])
    exe = lean_exe("drv_c16")
    # run a private copy of the driver: a concurrent `lake build` (other checks, a seeded-change run that regenerates
    # RV/Gen) may relink the binary while this check is still using it
    import shutil
    with LeanLock():
        priv = os.path.join(d, "drv_c16")
        shutil.copy2(exe, priv)
    exe = priv
    c.cov["rule"] = ("tie: random particle sets (N 2..24, masses over 8 decades incl. zero, random G and length scale) with two random "
                     "first-order sets (incl. variational masses), one second-order set and first/second-order single test-particle "
                     "variations, also with N_active<N (both testparticle types) and gravity_ignore_terms 1/2; "
                     "reb_simulation_update_acceleration is called and every variational acceleration compared bitwise with "
                     "the Lean Float model and to 1e-12 (scale-aware) with forward-mode AD of the Lean force model on Dual Float / "
                     "Dual (Dual Float); the Jacobi term of reb_whfast_interaction_step, the move_to_com corrections and "
                     "reb_simulation_rescale_var likewise (rescale: random states around the 1e100 threshold, all orders, lrescale<0, "
                     "unsynchronised WHFast/EOS, inf/nan components).  search: 65 derivative constructors vs 60-digit finite differences on random bound orbits "
                     "(e 0..0.85, inc 0..2.8, both element families); shadow simulations: regular 2-planet systems (+ test particle), "
                     "every vary() parameter and Cartesian/mass component of every particle, every supported second-order pair, "
                     "cross-particle pairs, single test-particle variations, IAS15/BS/WHFast(/leapfrog), T=10..60, with and without "
                     "move_to_com.  distinct_nontrivial = distinct (kind, integrator, order, parameters) evaluated")
    c.cov["trusted_base"] = ["Lean 4.33 kernel", "Mathlib field_simp/ring/norm_num (kernel-checked)",
                             "correspondence drv_c16 vs compiled gravity.c / tools.c on generated inputs (differential test)",
                             "mpmath 60-digit arithmetic (ref/C16_mp.py) for the element derivatives",
                             "finite differences of the real integrators as oracle for the integrated variations (truncation/noise calibrated)",
                             "ctypes Particle / Variation layout (checked by C18)"]
    c.assumptions += ["theorems are exact-arithmetic (field of characteristic 0); IEEE rounding is only measured by the tie",
                      "softening = 0 and no coinciding particles (the variational loops omit softening; stated in the theorems)",
                      "that the *integrated* variational particle equals the derivative of the *integrated* trajectory is numerical "
                      "(finite differences, threshold 1e-3), not proved",
                      "shadow systems have e < 0.18 so that F18 (Pal Kepler solver) does not blur the 1e-3 threshold; the F18 region is "
                      "probed by the derivative oracle"]
    big = 6 if c.thorough else 1
    run_phase(c, "tie-accelerations", lambda: tie_accelerations(c, rebound, exe), 120 * big)
    run_phase(c, "tie-com-rescale", lambda: tie_com_rescale(c, rebound, exe), 120 * big)
    run_phase(c, "tie-corrector-schedule", lambda: tie_corrector_schedule(c, rebound, exe), 60 * big)
    run_phase(c, "tie-generated-derivatives", lambda: tie_generated_derivatives(c, rebound, exe, fams), 60 * big)
    run_phase(c, "tie-megno-bookkeeping", lambda: tie_megno_bookkeeping(c, rebound, exe), 60 * big)
    run_phase(c, "tie-entry-points", lambda: tie_entry_points(c, rebound, exe), 60 * big)
    run_phase(c, "tie-dispatch", lambda: tie_dispatch(c, rebound, exe), 60 * big)
    run_phase(c, "derivatives", lambda: search_derivatives(c, rebound), 120 * big)
    run_phase(c, "shadow", lambda: search_shadow(c, rebound), 150 * (10 if c.thorough else 1))
    run_phase(c, "rescale-megno", lambda: search_rescale_megno(c, rebound), 60 * big)
    run_phase(c, "dimensions", lambda: search_dimensions(c, rebound), 150 * (8 if c.thorough else 1))
    run_phase(c, "pairwise", lambda: search_pairwise(c, rebound), 150 * (8 if c.thorough else 1))
    run_phase(c, "rescale-then-reject", lambda: search_rescale_then_reject(c, rebound), 60 * big)
    run_phase(c, "rejected-steps", lambda: search_rejected_steps(c, rebound), 90 * big)
    run_phase(c, "whfast-tangent", lambda: search_whfast_tangent(c, rebound), 90 * big)
    finalize_dimensions(c)


if __name__ == "__main__":
    main("C16", run)
