"""C01 — every integrator converges to the true N-body solution at its advertised order.  PARTIAL.

proof:   lean/RV/Props/C01.lean — consistency, symmetry and the order conditions of every member of the option lattice
         (SABA 18 types, WHFast 64 accepted configurations, EOS 9 x 9 x n, JANUS 5, LEAPFROG) on ALL words of the free
         algebra up to the advertised generalised order, IAS15 constants, abstract reversibility lemmas.  The analytic
         convergence theorem itself is not proved.
tie:     rv/extract_c01.py regenerates lean/RV/Gen/C01*.lean on every run by executing the control flow of the C text of
         /repo/src/integrator_{saba,whfast,eos,janus,ias15,leapfrog}.c; the decimal literals are compared with the doubles
         gcc produces from the same initialisers; the jerk normalisations assumed by the theorems are measured on the
         compiled code.
search:  error versus dt of the real code against SciPy DOP853 solutions of the N-body equations written in
         ref/C01_reference.py (python3-vt subprocess), over the option lattice, several systems, both time directions;
         oracle rules of DESIGN.md C01 "Calibration".
"""
import ctypes, json, math, os, subprocess, sys, tempfile, threading, time
sys.path.insert(0, os.path.dirname(os.path.abspath(__file__)))
from common import *
import extract_c01 as X
from fractions import Fraction

ERR_LO, ERR_HI = 1e-10, 1e-2       # errors are only interpreted inside this window
K_ENV = 100.0                      # envelope constant of DESIGN C01 (ii)
TAU0 = 0.8                         # largest step tried, in units of 1/(inner mean motion)


# ----------------------------------------------------------------------------------------------- systems
def systems():
    """well-separated systems; elements are turned into Cartesian states by REBOUND only to define the initial condition that
    both the code under test and the reference start from"""
    S = []
    S.append(dict(name="kepler2", G=1.0, eps=1e-3, tp_type=0, active=2, T=20.0,
                  bodies=[dict(m=1.0), dict(m=1e-3, a=1.0, e=0.3, f=0.4)]))
    S.append(dict(name="two_planets", G=1.0, eps=1e-3, tp_type=0, active=3, T=20.0,
                  bodies=[dict(m=1.0), dict(m=1e-3, a=1.0, e=0.05, f=0.3), dict(m=5e-4, a=1.9, e=0.1, inc=0.05, Omega=1.0, f=2.0)]))
    # the same with a moving centre of mass (the centre-of-mass step of the Jacobi/heliocentric splittings is idle otherwise)
    S.append(dict(name="moving", G=1.0, eps=1e-3, tp_type=0, active=3, T=20.0, boost=(0.3, -0.2, 0.1),
                  bodies=[dict(m=1.0), dict(m=1e-3, a=1.0, e=0.05, f=0.3), dict(m=5e-4, a=1.9, e=0.1, inc=0.05, Omega=1.0, f=2.0)]))
    S.append(dict(name="heavy3", G=1.0, eps=1e-2, tp_type=0, active=4, T=20.0,
                  bodies=[dict(m=1.0), dict(m=1e-2, a=1.0, e=0.04, f=1.0), dict(m=5e-3, a=2.2, e=0.06, inc=0.1, omega=0.5, f=4.0),
                          dict(m=2e-3, a=4.0, e=0.03, inc=0.05, Omega=2.0, f=2.5)]))
    S.append(dict(name="tp0", G=1.0, eps=1e-3, tp_type=0, active=3, T=20.0,
                  bodies=[dict(m=1.0), dict(m=1e-3, a=1.0, e=0.05, f=0.1), dict(m=3e-4, a=2.2, e=0.08, inc=0.07, f=3.0),
                          dict(m=0.0, a=1.55, e=0.1, inc=0.1, f=5.0), dict(m=0.0, a=3.1, e=0.05, Omega=1.0, f=1.0)]))
    S.append(dict(name="tp1", G=1.0, eps=1e-3, tp_type=1, active=3, T=20.0,
                  bodies=[dict(m=1.0), dict(m=1e-3, a=1.0, e=0.05, f=0.1), dict(m=3e-4, a=2.2, e=0.08, inc=0.07, f=3.0),
                          dict(m=1e-5, a=1.55, e=0.1, inc=0.1, f=5.0), dict(m=2e-5, a=3.1, e=0.05, Omega=1.0, f=1.0)]))
    # ---- particle roles (cross-cutting dimension 1)
    S.append(dict(name="tp0m", G=1.0, eps=1e-3, tp_type=0, active=3, T=20.0, dims=["massive_type0_testparticles"],
                  bodies=[dict(m=1.0), dict(m=1e-3, a=1.0, e=0.05, f=0.1), dict(m=3e-4, a=2.2, e=0.08, inc=0.07, f=3.0),
                          dict(m=1e-5, a=1.55, e=0.1, inc=0.1, f=5.0), dict(m=2e-5, a=3.1, e=0.05, Omega=1.0, f=1.0)]))
    S.append(dict(name="tp1z", G=1.0, eps=1e-3, tp_type=1, active=3, T=20.0, dims=["massless_type1_testparticles"],
                  bodies=[dict(m=1.0), dict(m=1e-3, a=1.0, e=0.05, f=0.1), dict(m=3e-4, a=2.2, e=0.08, inc=0.07, f=3.0),
                          dict(m=0.0, a=1.55, e=0.1, inc=0.1, f=5.0), dict(m=0.0, a=3.1, e=0.05, Omega=1.0, f=1.0)]))
    S.append(dict(name="zeroactive", G=1.0, eps=1e-3, tp_type=0, active=4, T=20.0, dims=["zero_mass_active_body"],
                  bodies=[dict(m=1.0), dict(m=1e-3, a=1.0, e=0.05, f=0.1), dict(m=0.0, a=1.6, e=0.1, inc=0.05, f=4.0),
                          dict(m=3e-4, a=2.4, e=0.08, inc=0.07, f=3.0)]))
    S.append(dict(name="single_active", G=1.0, eps=1e-3, tp_type=0, active=1, T=20.0, dims=["single_active_body"],
                  bodies=[dict(m=1.0), dict(m=0.0, a=1.0, e=0.3, f=0.4), dict(m=0.0, a=1.9, e=0.1, inc=0.2, f=2.0)]))
    # ---- geometry (dimension 7): centre of mass away from the origin and moving; an unbound member
    S.append(dict(name="offset", G=1.0, eps=1e-3, tp_type=0, active=3, T=20.0, boost=(0.3, -0.2, 0.1), shift=(5.0, -3.0, 2.0),
                  dims=["com_offset_and_boost"],
                  bodies=[dict(m=1.0), dict(m=1e-3, a=1.0, e=0.05, f=0.3), dict(m=5e-4, a=1.9, e=0.1, inc=0.05, Omega=1.0, f=2.0)]))
    S.append(dict(name="flyby", G=1.0, eps=1e-3, tp_type=0, active=4, T=20.0, dims=["hyperbolic_member"],
                  bodies=[dict(m=1.0), dict(m=1e-3, a=1.0, e=0.05, f=0.3), dict(m=5e-4, a=1.9, e=0.1, inc=0.05, Omega=1.0, f=2.0),
                          dict(m=1e-5, a=-8.0, e=1.5, inc=0.3, Omega=0.5, f=-1.0)]))
    # ---- options (dimension 3): softening; only for the integrators that take every pair force from the gravity routine
    S.append(dict(name="soft", G=1.0, eps=1e-3, tp_type=0, active=3, T=20.0, softening=0.05, only=("leapfrog", "janus"),
                  dims=["softening"],
                  bodies=[dict(m=1.0), dict(m=1e-3, a=1.0, e=0.05, f=0.3), dict(m=5e-4, a=1.9, e=0.1, inc=0.05, Omega=1.0, f=2.0)]))
    G4 = 39.47841760435743
    S.append(dict(name="nine", G=G4, eps=1e-3, tp_type=0, active=9, T=20.0 / (2 * math.pi),
                  bodies=[dict(m=1.0)] + [dict(m=mm, a=aa, e=0.02 + 0.005 * i, inc=0.01 * i, Omega=0.7 * i, f=1.3 * i)
                                          for i, (mm, aa) in enumerate(zip([1e-5, 3e-5, 1e-4, 3e-4, 1e-3, 3e-4, 5e-5, 5e-5],
                                                                           [1.0, 1.5, 2.1, 2.9, 3.9, 5.2, 6.8, 8.8]))]))
    return S


def make_sim(rebound, sysd):
    sim = rebound.Simulation()
    sim.G = sysd["G"]
    for b in sysd["bodies"]:
        sim.add(**b)
    sim.move_to_com()
    if "boost" in sysd:
        for p in sim.particles:
            p.vx += sysd["boost"][0]
            p.vy += sysd["boost"][1]
            p.vz += sysd["boost"][2]
    if "shift" in sysd:
        for p in sim.particles:
            p.x += sysd["shift"][0]
            p.y += sysd["shift"][1]
            p.z += sysd["shift"][2]
    if sysd.get("softening"):
        sim.softening = sysd["softening"]
    sim.testparticle_hidewarnings = 1
    if sysd["active"] != len(sysd["bodies"]):
        sim.N_active = sysd["active"]
    sim.testparticle_type = sysd["tp_type"]
    return sim


def state_of(sim):
    return [[p.x, p.y, p.z, p.vx, p.vy, p.vz] for p in sim.particles[:sim.N]]


# ----------------------------------------------------------------------------------------------- configurations
# enum values as in rebound.h (the Python layer's names are C18's subject; integers are passed through unchanged)
SABA_ORD = {0x0: (2, 2), 0x1: (4, 2), 0x2: (6, 2), 0x3: (8, 2), 0x100: (2, 4), 0x101: (4, 4), 0x102: (6, 4), 0x103: (8, 4),
            0x200: (2, 4), 0x201: (4, 4), 0x202: (6, 4), 0x203: (8, 4), 0x4: (10, 4), 0x5: (8, 6, 4), 0x6: (10, 6, 4),
            0x7: (8, 4, 4), 0x8: (8, 6, 4), 0x9: (10, 6, 4)}
EOS_NAMES = ["lf", "lf4", "lf6", "lf8", "lf4_2", "lf8_6_4", "plf7_6_4", "pmlf4", "pmlf6"]
EOS_ORD = {0: (2,), 1: (4,), 2: (6,), 3: (8,), 4: (4, 2), 5: (8, 6, 4), 6: (7, 6, 4), 7: (4,), 8: (6,)}
WH_COORDS = [0, 1, 2, 3]         # jacobi, democraticheliocentric, whds, barycentric
WH_KERNELS = [0, 1, 2, 3]        # default, modifiedkick, composition, lazy
CN = ["jacobi", "democraticheliocentric", "whds", "barycentric"]
KN = ["default", "modifiedkick", "composition", "lazy"]
WH_CORR = [0, 3, 5, 7, 11, 17]


def lattice(thorough):
    """every member of the documented option lattice: (name, setup function, envelope terms [(power of eps, power of dt)], flags)"""
    L = []
    L.append(dict(name="leapfrog", fam="leapfrog", terms=[(0, 2)], set=lambda sim: setattr(sim, "integrator", "leapfrog")))
    for coord in WH_COORDS:
        for kern in WH_KERNELS:
            for corr in WH_CORR:
                for c2 in (0, 1):
                    if (kern != 0 and coord != 0) or (corr and coord not in (0, 3)):
                        continue
                    for safe in (1, 0):
                        def st(sim, coord=coord, kern=kern, corr=corr, c2=c2, safe=safe):
                            sim.integrator = "whfast"
                            sim.ri_whfast.coordinates = coord
                            sim.ri_whfast.kernel = kern
                            sim.ri_whfast.corrector = corr
                            sim.ri_whfast.corrector2 = c2
                            sim.ri_whfast.safe_mode = safe
                        p1 = corr + 1 if corr else 2
                        p2 = 2 if (kern == 0 or corr == 0) else 4
                        L.append(dict(name="whfast/%s/%s/c%d/c2_%d/safe%d" % (CN[coord], KN[kern], corr, c2, safe), fam="whfast",
                                      terms=[(1, p1), (2, p2)], set=st, c2=c2, coord=CN[coord], safe=safe))
    for ty, od in SABA_ORD.items():
        for safe in (1, 0):
            def st(sim, ty=ty, safe=safe):
                sim.integrator = "saba"
                sim.ri_saba.type = ty
                sim.ri_saba.safe_mode = safe
            L.append(dict(name="saba/0x%x/safe%d" % (ty, safe), fam="saba", terms=[(i + 1, p) for i, p in enumerate(od)], set=st, safe=safe))
    ns = (1, 2, 3) if thorough else (1, 2)
    for p0, o0 in EOS_ORD.items():
        for p1, o1 in EOS_ORD.items():
            for n in ns:
                def st(sim, p0=p0, p1=p1, n=n):
                    sim.integrator = "eos"
                    sim.ri_eos.phi0 = p0
                    sim.ri_eos.phi1 = p1
                    sim.ri_eos.n = n
                # outer splitting: perturbative in eps; inner splitting (drift vs. star-planet kicks): not perturbative, step dt/n
                terms = [(i + 1, p) for i, p in enumerate(o0)] + [(0, min(o1), n)]
                L.append(dict(name="eos/%s/%s/n%d" % (EOS_NAMES[p0], EOS_NAMES[p1], n), fam="eos", terms=terms, set=st))
                if n == 1 and (thorough or p1 == 0 or p0 == p1):
                    def st0(sim, st=st):
                        st(sim)
                        sim.ri_eos.safe_mode = 0
                    L.append(dict(name="eos/%s/%s/n%d/safe0" % (EOS_NAMES[p0], EOS_NAMES[p1], n), fam="eos", terms=terms, set=st0, safe=0))
    for o in (2, 4, 6, 8, 10):
        def st(sim, o=o):
            sim.integrator = "janus"
            sim.ri_janus.order = o
            sim.ri_janus.scale_pos = 1e-16          # distinct grid scales (both documented options)
            sim.ri_janus.scale_vel = 3e-16
        L.append(dict(name="janus/%d" % o, fam="janus", terms=[(0, o)], set=st))
    for safe in (1, 0):
        def st(sim, safe=safe):
            sim.integrator = "mercurius"
            sim.ri_mercurius.safe_mode = safe
        L.append(dict(name="mercurius/safe%d" % safe, fam="mercurius", terms=[(1, 2)], set=st, safe=safe))

    for lname in ("infinity", "C4", "C5"):
        def st(sim, lname=lname):
            sim.integrator = "mercurius"
            sim.ri_mercurius.L = lname
            sim.ri_mercurius.r_crit_hill = 2.0
        L.append(dict(name="mercurius/L=%s/rcrit2" % lname, fam="mercurius", terms=[(1, 2)], set=st, safe=1, nondefault=True))

    def stt(sim):
        sim.integrator = "trace"
    L.append(dict(name="trace", fam="trace", terms=[(1, 2)], set=stt))
    for pm in (0, 2):
        def st(sim, pm=pm):
            sim.integrator = "trace"
            sim.ri_trace.peri_mode = pm
            sim.ri_trace.r_crit_hill = 2.0
            sim.ri_trace.peri_crit_eta = 0.5
        L.append(dict(name="trace/peri%d/rcrit2/eta0.5" % pm, fam="trace", terms=[(1, 2)], set=st, nondefault=True))
    return L


def advertised_envelope(cfg, sysd, dt, n_inner):
    tau = abs(dt) * n_inner
    eps = sysd["eps"]
    tot, parts = 0.0, []
    for t in cfg["terms"]:
        m, p = t[0], t[1]
        tt = tau / t[2] if len(t) > 2 else tau
        v = eps ** m * tt ** p
        parts.append(v)
        tot += v
    return K_ENV * (1.0 + sysd["T"] * n_inner) * tot, parts


# ----------------------------------------------------------------------------------------------- measuring
WH_FAMILY = ("whfast", "saba", "mercurius", "trace")
FIELD = (0.01, -0.02, 0.005)        # uniform extra acceleration (times n_inner^2): every particle gets x += g t^2/2, v += g t


# ------------------------------------------------------------------------------------------------ factors of a run (pairwise conjunctions)
# Every run of the slope search is a value assignment to these factors (plus cfg = lattice member, system, dir = sign of dt).
# The plain run is (one_call, none, none, none, 0, 0, py).
FACTORS = {
    # what happens at the first boundary (after ~n/3 steps; reversal: after n + n/4 steps)
    "pattern": ["one_call", "explicit_sync", "split3", "exact_outputs", "reversal", "restore_copy", "restore_file"],
    # EVENT ADJACENCY: the event that happens exactly ONE step after the boundary event
    "adj": ["none", "explicit_sync", "exact_output", "restore_copy", "dt_change"],
    # user edit right after the boundary event (before the next step)
    "edit": ["none", "rewrite_particles", "dt_halved"],
    "cb": ["none", "field", "callbacks"],
    "var": [0, 1],
    "keep": [0, 1],
    # public entry point that advances the simulation
    "stepper": ["py", "c", "c_part12"],
}
FORDER = ["cfg", "system", "dir", "pattern", "adj", "edit", "cb", "var", "keep", "stepper"]
PLAIN = dict(pattern="one_call", adj="none", edit="none", cb="none", var=0, keep=0, stepper="py")


def pair_excluded(f, a, g, b, cfgs, sysmap):
    """None if the value pair can occur together, else the reason it is excluded (combinations the code rejects or that have no
    meaning); all constraints are pairwise, a case is valid iff none of its pairs is excluded"""
    v = {f: a, g: b}
    cfg = cfgs[v["cfg"]] if "cfg" in v else None
    sd = sysmap[v["system"]] if "system" in v else None
    if cfg is not None:
        fam, nm = cfg["fam"], cfg["name"]
        if sd is not None:
            if sd.get("only") and fam not in sd["only"]:
                return "softening is only honoured by integrators that take every pair force from the gravity routine"
            if fam in ("leapfrog", "janus") and sd["name"] in ("heavy3", "nine"):
                return "non-perturbative integrators: these systems add nothing but long ladders"
            if fam not in ("eos", "leapfrog", "janus") and sd["name"] == "kepler2":
                return "two bodies are solved exactly by Kepler-based splittings"
        if v.get("dir") == -1 and fam == "trace":
            return "TRACE with dt<0 is finding F10 (checked separately in a subprocess)"
        if v.get("pattern") == "reversal" and fam == "trace":
            return "TRACE with dt<0 is finding F10"
        if v.get("cb") == "field" and ("/modifiedkick/" in nm or (fam == "saba" and 0x100 <= int(nm.split("/")[1], 16) < 0x200)):
            return "the exact modified kick is documented to support Newtonian gravity only"
        if v.get("var") == 1 and not ((fam == "whfast" and "/jacobi/default/" in nm) or fam in ("eos", "leapfrog")):
            return "variational particles are rejected or unsupported by this integrator configuration"
        if v.get("keep") == 1 and not (fam in ("whfast", "saba") and cfg.get("safe") == 0):
            return "keep_unsynchronized exists only for WHFast/SABA and is rejected with safe_mode=1"
        if v.get("stepper") == "c_part12" and fam == "janus" and False:
            return None
    if sd is not None and v.get("keep") == 1 and (sd.get("only") or sd["name"] == "kepler2"):
        return "keep_unsynchronized exists only for WHFast/SABA, which do not run this system"
    if v.get("pattern") == "one_call" and v.get("edit", "none") != "none":
        return "an edit needs a call boundary"
    if v.get("pattern") == "one_call" and v.get("adj", "none") != "none":
        return "an adjacent event needs a call boundary"
    if v.get("keep") == 1 and v.get("edit") == "rewrite_particles":
        return "with keep_unsynchronized the integrator continues from its internal state: particle edits are documented to be ignored"
    if v.get("keep") == 1 and v.get("edit") == "dt_halved":
        return "changing dt requires a synchronized state; keep_unsynchronized never leaves one"
    if v.get("keep") == 1 and v.get("adj") == "dt_change":
        return "changing dt requires a synchronized state; keep_unsynchronized never leaves one"
    if v.get("keep") == 1 and v.get("pattern") == "reversal":
        return "changing the sign of dt requires a synchronized state"
    if v.get("keep") == 1 and (v.get("pattern") == "exact_outputs" or v.get("adj") == "exact_output"):
        return "a shortened last step followed by a continued unsynchronized run mixes two step sizes in one drift"
    if v.get("stepper") == "c_part12" and v.get("var") == 1:
        return "the manual part1/force/part2 sequence omits reb_simulation_rescale_var"
    if v.get("stepper") == "c_part12" and v.get("cb") == "callbacks":
        return "pre/post timestep callbacks are invoked by reb_simulation_step only"
    return None


def case_valid(case, cfgs, sysmap):
    ks = [k for k in FORDER if k in case]
    for i, f in enumerate(ks):
        for g in ks[i + 1:]:
            if pair_excluded(f, case[f], g, case[g], cfgs, sysmap) is not None:
                return False
    return True


def case_pairs(case):
    ks = [k for k in FORDER if k in case]
    return [(f, case[f], g, case[g]) for i, f in enumerate(ks) for g in ks[i + 1:]]


def install(sim, sysd, case, keepalive):
    """callbacks / additional forces (also re-installed after a restore, as a user has to)"""
    n_inner = math.sqrt(sysd["G"])
    if case["cb"] == "field":
        g = [x * n_inner ** 2 for x in FIELD]

        def frc(simp):
            s_ = simp.contents
            ps = s_.particles
            for i in range(s_.N):
                ps[i].ax += g[0]
                ps[i].ay += g[1]
                ps[i].az += g[2]
        sim.additional_forces = frc
        sim.force_is_velocity_dependent = 0
    elif case["cb"] == "callbacks":
        cnt = keepalive.setdefault("cnt", [0, 0, 0])

        def hb(simp):
            cnt[0] += 1

        def pre(simp):
            cnt[1] += simp.contents.N

        def post(simp):
            cnt[2] += 1
        sim.heartbeat = hb
        sim.pre_timestep_modifications = pre
        sim.post_timestep_modifications = post


ENTRY_USED = {}


def used(name):
    ENTRY_USED[name] = ENTRY_USED.get(name, 0) + 1


def run_case(rebound, sysd, cfg, dt, T, case=None):
    """one run of n = T/|dt| steps under the factor assignment `case`; returns (t, synchronized final state)"""
    case = dict(PLAIN, **(case or {}))
    clib = rebound.clibrebound
    sim = make_sim(rebound, sysd)
    cfg["set"](sim)
    n = max(1, int(round(abs(T) / abs(dt))))
    sim.dt = T / n
    keepalive = {}
    install(sim, sysd, case, keepalive)
    if case["var"]:
        v = sim.add_variation()
        v.particles[1].x = 1e-3
        v.particles[1].vy = -2e-3
        v.particles[len(sysd["bodies"]) - 1].z = 5e-4
    if case["keep"]:
        if cfg["fam"] == "whfast":
            sim.ri_whfast.keep_unsynchronized = 1
        else:
            sim.ri_saba.keep_unsynchronized = 1
    stp = case["stepper"]
    box = [sim]                 # the simulation object may be replaced by a restore

    def advance(k):
        sim_ = box[0]
        if k <= 0:
            return
        if stp == "py":
            if k == 1:
                sim_.step(); used("py:step")
            else:
                sim_.steps(k); used("py:steps")
        elif stp == "c":
            if k == 1:
                clib.reb_simulation_step(ctypes.byref(sim_)); used("reb_simulation_step")
            else:
                clib.reb_simulation_steps(ctypes.byref(sim_), ctypes.c_uint(k)); used("reb_simulation_steps")
        else:
            r = ctypes.byref(sim_)
            for _ in range(k):
                clib.reb_integrator_part1(r)
                clib.reb_simulation_update_acceleration(r)
                clib.reb_integrator_part2(r)
            used("reb_integrator_part1"); used("reb_integrator_part2"); used("reb_simulation_update_acceleration")

    def sync():
        sim_ = box[0]
        if stp == "py":
            sim_.synchronize(); used("py:synchronize")
        else:
            clib.reb_simulation_synchronize(ctypes.byref(sim_)); used("reb_simulation_synchronize")

    def integ(t, exact):
        sim_ = box[0]
        if stp == "py":
            sim_.integrate(t, exact_finish_time=exact); used("py:integrate")
        else:
            sim_.exact_finish_time = exact
            clib.reb_simulation_integrate.restype = ctypes.c_int
            rc = clib.reb_simulation_integrate(ctypes.byref(sim_), ctypes.c_double(t)); used("reb_simulation_integrate")
            if rc != 0:
                raise RuntimeError("reb_simulation_integrate returned status %d" % rc)

    def restore(kind):
        sim_ = box[0]
        if kind == "copy":
            new = sim_.copy(); used("py:copy")
        else:
            fn = os.path.join(tempfile.gettempdir(), "c01_restore_%d.bin" % os.getpid())
            if os.path.exists(fn):
                os.remove(fn)
            sim_.save_to_file(fn)
            new = rebound.Simulation(fn); used("py:Simulation(file)")
            os.remove(fn)
        install(new, sysd, case, keepalive)
        box[0] = new

    pat = case["pattern"]
    if pat == "one_call":
        advance(n)
        sync()
    else:
        n1 = max(1, n // 3)
        # ---- boundary event
        if pat == "explicit_sync":
            advance(n1); sync()
        elif pat == "split3":
            integ((n1 - 0.5) * sim.dt, 0)
        elif pat == "exact_outputs":
            integ(0.31 * T, 1)
        elif pat == "reversal":
            advance(n + max(1, n // 4)); sync()
            box[0].dt = -box[0].dt
        elif pat == "restore_copy":
            advance(n1); sync(); restore("copy")
        elif pat == "restore_file":
            advance(n1); sync(); restore("file")
        # ---- user edit right after it
        sim_ = box[0]
        if case["edit"] == "rewrite_particles":
            # the user touches the particle data (here: writes back identical values) and raises the documented flags
            for p_ in sim_.particles[:sim_.N]:
                p_.x, p_.y, p_.z, p_.vx, p_.vy, p_.vz, p_.m = p_.x, p_.y, p_.z, p_.vx, p_.vy, p_.vz, p_.m
            sim_.ri_whfast.recalculate_coordinates_this_timestep = 1
            sim_.ri_mercurius.recalculate_coordinates_this_timestep = 1
            sim_.ri_mercurius.recalculate_r_crit_this_timestep = 1
            sim_.ri_janus.recalculate_integer_coordinates_this_timestep = 1
        elif case["edit"] == "dt_halved":
            sim_.dt = sim_.dt / 2
        # ---- the adjacent event, exactly one step later
        if case["adj"] != "none":
            advance(1)
            sim_ = box[0]
            if case["adj"] == "explicit_sync":
                sync()
            elif case["adj"] == "exact_output":
                integ(sim_.t + 0.4 * sim_.dt, 1)
            elif case["adj"] == "restore_copy":
                sync(); restore("copy")
            elif case["adj"] == "dt_change":
                sync()
                box[0].dt = box[0].dt * 0.8
        # ---- final leg to T: whole steps, then (if the time is off the grid) one shortened step through integrate(T)
        sim_ = box[0]
        rem = (T - sim_.t) / sim_.dt
        if rem < -1e-9:
            raise RuntimeError("run overshot the target time: t=%r T=%r dt=%r" % (sim_.t, T, sim_.dt))
        k = int(math.floor(rem + 1e-9))
        if pat in ("split3", "exact_outputs") and k >= 2:
            integ(sim_.t + (k - 0.5) * sim_.dt, 0)
        else:
            advance(k)
        sim_ = box[0]
        if abs(sim_.t - T) > 1e-11 * max(1.0, abs(T)):
            integ(T, 1)
        sync()
    sim = box[0]
    if case["cb"] == "callbacks" and (keepalive["cnt"][1] == 0 or keepalive["cnt"][2] == 0):
        raise RuntimeError("installed pre/post timestep callbacks were never called: %s" % keepalive["cnt"])
    if abs(sim.t - T) > 1e-9 * abs(T):
        raise RuntimeError("run ended at t=%r instead of %r" % (sim.t, T))
    return sim.t, state_of(sim)


def ref_adjust(ref_state, sysd, T, case):
    """the exact effect of a variant on the reference solution (only the uniform field has one)"""
    if not case or case.get("cb") != "field":
        return ref_state
    N = len(sysd["bodies"])
    g = [x * sysd["G"] for x in FIELD]
    out = list(ref_state)
    for i in range(N):
        for k in range(3):
            out[3 * i + k] += 0.5 * g[k] * T * T
            out[3 * N + 3 * i + k] += g[k] * T
    return out


def pos_err(st, ref, N):
    e = 0.0
    for i in range(N):
        d = math.sqrt(sum((st[i][k] - ref[i * 3 + k]) ** 2 for k in range(3)))
        if not d == d:
            return float("inf")
        e = max(e, d)
    return e


class Refs:
    """reference solutions computed in a python3-vt subprocess (background thread)"""

    def __init__(self, jobs):
        self.jobs = jobs
        self.out = None
        self.err = None
        self.th = threading.Thread(target=self._run, daemon=True)
        self.th.start()

    def _run(self):
        try:
            p = subprocess.run(["python3-vt", os.path.join(ROOT, "ref", "C01_reference.py")], input=json.dumps(self.jobs),
                               capture_output=True, text=True, timeout=1500)
            if p.returncode != 0:
                self.err = p.stderr[-2000:]
            else:
                self.out = json.loads(p.stdout)
        except Exception as ex:
            self.err = repr(ex)

    def get(self):
        self.th.join()
        if self.err or self.out is None:
            raise Infra("reference integrator failed: %s" % self.err)
        return self.out


def measure_ladder(rebound, sysd, cfg, ref_state, T, n_inner, maxpts=4, nmax=9, case=None):
    """errors on the dt ladder tau0/2^k, largest first, until `maxpts` errors lie in the window or the error drops below it"""
    N = len(sysd["bodies"])
    pts = []
    inwin = 0
    for k in range(nmax):
        dt = math.copysign(TAU0 / n_inner / 2 ** k, T)
        if cfg.get("fam") == "eos" or cfg.get("fam") == "janus" or cfg.get("fam") == "leapfrog":
            pass
        t, st = run_case(rebound, sysd, cfg, dt, T, case)
        if case and case.get("cb") == "field" and cfg["fam"] in WH_FAMILY:
            # Wisdom-Holman type integrators do not move the centre of mass under a net external force (known finding
            # C01:wh-family-net-external-force); the uniform field must still leave the motion RELATIVE to the centre of mass exact
            ms = [b["m"] for b in sysd["bodies"]]
            M = sum(ms)
            com_s = [sum(ms[i] * st[i][k] for i in range(N)) / M for k in range(3)]
            com_r = [sum(ms[i] * ref_state[3 * i + k] for i in range(N)) / M for k in range(3)]
            st = [[p_[k] - com_s[k] for k in range(3)] + list(p_[3:]) for p_ in st]
            ref_rel = list(ref_state)
            for i in range(N):
                for k in range(3):
                    ref_rel[3 * i + k] -= com_r[k]
            e = pos_err(st, ref_rel, N)
        else:
            e = pos_err(st, ref_state, N)
        pts.append((abs(T) / max(1, int(round(abs(T) / abs(dt)))), e))
        if ERR_LO <= e <= ERR_HI:
            inwin += 1
        if inwin >= maxpts or e < ERR_LO:
            break
    return pts


SLOPE_MARGIN = {"eos": 1.0}        # default 0.5 (DESIGN); EOS: inner schemes used non-perturbatively wobble more (measured, notes/C01.md)
TAU_ASYM = 0.41                     # slopes are only read off for steps <= 0.4/(inner mean motion)


def judge(cfg, sysd, pts, n_inner, irregular=False):
    """oracle of DESIGN C01 "Calibration".  returns (verdict, detail, error/unscaled envelope).
    too-large : an error above 1e-10 lies outside the envelope K T (eps dt^p1 + eps^2 dt^p2 + ...), K = 100
    low-order : at least three errors in [1e-10, 1e-2] at asymptotic steps, and both the slope over that whole window and the
                slope of its last interval are more than the margin below the lowest advertised exponent
    no-window : fewer than three such errors (nothing to read a slope from); ok otherwise"""
    detail = {"points": [(float("%.4g" % dt), float("%.3g" % e)) for dt, e in pts]}
    worst_ratio = 0.0
    for dt, e in pts:
        env, parts = advertised_envelope(cfg, sysd, dt, n_inner)
        if e > ERR_LO and env < ERR_HI * 10:
            worst_ratio = max(worst_ratio, e / max(env, 1e-300) * K_ENV)    # error / (envelope without the factor K)
        if (e > ERR_LO and e > env and dt * n_inner <= TAU_ASYM) or not e == e or e == float("inf"):
            detail.update(envelope=env, dt=dt, error=e)
            return "too-large", detail, worst_ratio
    if pts and pts[-1][1] > ERR_HI:
        # the ladder was descended to its end (tau = 0.8/2^8) and the error never came down to 1e-2: no convergence
        detail.update(dt=pts[-1][0], error=pts[-1][1])
        return "too-large", detail, worst_ratio
    # slopes are read off one decade above the floor of the window: between 1e-10 and 1e-9 tiny lower-order terms (test-particle
    # jerk pairs, reference accuracy, accumulated round-off) flatten the curve of the high-order schemes
    win = [(dt, e) for dt, e in pts if 10 * ERR_LO <= e <= ERR_HI and dt * n_inner <= TAU_ASYM]
    if len(win) < 3:
        return "no-window", detail, worst_ratio
    overall = math.log(win[0][1] / win[-1][1]) / math.log(win[0][0] / win[-1][0])
    last = math.log(win[-2][1] / win[-1][1]) / math.log(win[-2][0] / win[-1][0])
    lowest = min(t[1] for t in cfg["terms"])
    need = lowest - SLOPE_MARGIN.get(cfg.get("fam"), 0.5)
    if irregular:
        # runs with an off-grid output, a shortened last step or a changed dt: the phase of the last partial step varies with dt,
        # the error is no clean power law (measured wiggle: a factor 2 between neighbouring dt): one order more margin
        need -= 1.0
    detail.update(slope_overall=float("%.2f" % overall), slope_last=float("%.2f" % last), lowest_advertised=lowest)
    if max(overall, last) < need:
        detail.update(required=need, dt=(win[0][0], win[-1][0]), error=(win[0][1], win[-1][1]))
        return "low-order", detail, worst_ratio
    return "ok", detail, worst_ratio


def finding_key(cfg, sysd, sg, verdict, variant=None, case=None):
    """stable key of the input class a failing case belongs to"""
    nm = cfg["name"]
    # the classes that are still open findings come first: a conjunction with an already repaired class (e.g. keep_unsynchronized x
    # callbacks, fixed by 35adc5c) must not hide them behind a key that is no longer "known"
    if sysd["name"] == "tp0m" and ((cfg["fam"] == "whfast" and ("/modifiedkick/" in nm or "/lazy/" in nm)) or
                                   (cfg["fam"] == "saba" and int(nm.split("/")[1], 16) >= 0x100)):
        return "C01:jacobi-gravity-massive-type0-testparticles"
    if case and case.get("cb") == "callbacks" and case.get("keep") == 1 and cfg["fam"] in ("whfast", "saba"):
        return "C01:keep-unsynchronized-with-timestep-callbacks"
    if variant == "field-plateau" and cfg["fam"] in WH_FAMILY:
        # heliocentric / barycentric slot-0 conventions: the planets feel the field, slot 0 does not: the error is independent of dt
        # (signature checked by the caller: the errors of the whole ladder agree within a factor 1.5)
        return "C01:wh-family-net-external-force"
    if cfg["fam"] == "trace" and sg < 0:
        return "F10:trace-negative-dt"
    if sysd["tp_type"] == 1 and ((cfg["fam"] == "whfast" and ("/modifiedkick/" in nm or "/lazy/" in nm)) or
                                 (cfg["fam"] == "saba" and int(nm.split("/")[1], 16) >= 0x100)):
        return "C01:jacobi-gravity-testparticle-type1"
    if sysd["name"] == "tp0m" and ((cfg["fam"] == "whfast" and ("/modifiedkick/" in nm or "/lazy/" in nm)) or
                                   (cfg["fam"] == "saba" and int(nm.split("/")[1], 16) >= 0x100)):
        return "C01:jacobi-gravity-massive-type0-testparticles"
    if sysd["tp_type"] == 1 and cfg["fam"] == "eos" and "pmlf" in nm:
        return "C01:jerk-testparticle-pairs"
    return "%s:%s:%s" % (cfg["fam"], verdict, nm)


# ----------------------------------------------------------------------------------------------- the check
def exact_margins(D):
    """the table facts in exact rational arithmetic (Python, independent of the Lean evaluation): measured residuals"""
    out = {}

    def moments(s, kmax):
        t, acc = Fraction(0), [Fraction(0)] * kmax
        for kind, a, b in s:
            if kind == 0:
                t += a
            elif kind in (1, 4):
                for k in range(kmax):
                    acc[k] += a * t ** k
        return acc
    adv = {0: 2, 1: 4, 2: 6, 3: 8, 0x100: 2, 0x101: 4, 0x102: 6, 0x103: 8, 0x200: 2, 0x201: 4, 0x202: 6, 0x203: 8,
           4: 10, 5: 8, 6: 10, 7: 8, 8: 8, 9: 10}
    worst_in, best_out = 0.0, 1.0
    for e in D["saba"]:
        p = adv.get(e["value"])
        if p is None:
            continue
        mo = moments(e["step"], p + 2)
        for k in range(p):
            worst_in = max(worst_in, abs(float(mo[k] - Fraction(1, k + 1))))
        best_out = min(best_out, abs(float(mo[p + 1] - Fraction(1, p + 2))) if p + 1 < len(mo) else 1.0)
    out["saba_quadrature_worst_residual_within_order"] = worst_in
    out["saba_quadrature_smallest_residual_two_beyond_order"] = best_out
    for e in D["janus"]:
        g = [a for k, a, b in e["step"] if k == 1]
        out["janus%d_power_sums" % e["order"]] = [float("%.2e" % abs(float(sum(x ** k for x in g) - (1 if k == 1 else 0)))) for k in range(1, e["order"] + 3, 2)]
    T = D["tables"]
    h = T["ias15_h"]["value"]
    rr = T["ias15_rr"]["value"]
    l, w = 0, 0.0
    for j in range(1, 8):
        for k in range(j):
            w = max(w, abs(float(rr[l] - (h[j] - h[k]))))
            l += 1
    out["ias15_rr_worst"] = w
    return out


def jerk_normalisation(c, rebound, clib):
    """the theorems treat the jerk kicks as exp(b B + kappa v [B,[B,A]]) with kappa = -1/2 (reb_whfast_calculate_jerk) and -1
    (reb_calculate_and_apply_jerk).  Here: the compiled routines are compared with a finite difference of the real force
    routine: jerk_i = d/ds a_i(x + s a)|_0 (WHFast, heliocentric bookkeeping aside) and dv = 2 v jerk (EOS)."""
    res = {}
    sysd = systems()[1]
    # --- EOS: reb_calculate_and_apply_jerk(r, v): dv_i = 2 v * d/ds a_i(x + s a)
    sim = make_sim(rebound, sysd)
    sim.integrator = "eos"
    sim.gravity = "basic"
    clib.reb_simulation_update_acceleration(ctypes.byref(sim))
    N = sim.N
    a0 = [[p.ax, p.ay, p.az] for p in sim.particles]
    v0 = [[p.vx, p.vy, p.vz] for p in sim.particles]
    vv = 0.37
    clib.reb_calculate_and_apply_jerk.argtypes = [ctypes.c_void_p, ctypes.c_double]
    clib.reb_calculate_and_apply_jerk(ctypes.byref(sim), ctypes.c_double(vv))
    dv = [[sim.particles[i].vx - v0[i][0], sim.particles[i].vy - v0[i][1], sim.particles[i].vz - v0[i][2]] for i in range(N)]
    fd = []
    s = 1e-4
    accs = []
    for sg in (+1, -1):
        s2 = make_sim(rebound, sysd)
        s2.integrator = "eos"
        s2.gravity = "basic"
        for i in range(N):
            s2.particles[i].x += sg * s * a0[i][0]
            s2.particles[i].y += sg * s * a0[i][1]
            s2.particles[i].z += sg * s * a0[i][2]
        clib.reb_simulation_update_acceleration(ctypes.byref(s2))
        accs.append([[p.ax, p.ay, p.az] for p in s2.particles])
    num = den = 0.0
    for i in range(N):
        for k in range(3):
            j = (accs[0][i][k] - accs[1][i][k]) / (2 * s)
            num += dv[i][k] * j
            den += j * j
    res["eos_dv_over_v_times_finite_difference_jerk"] = num / den / vv
    # --- WHFast / SABA: the exact modified kick and the lazy (finite-difference) kernel must carry the same dt^3 term:
    #     after one step they differ by O(dt^5) while both differ from the plain kernel by O(dt^3)
    sd3 = [x for x in systems() if x["name"] == "heavy3"][0]

    def one(dt, kern=None, saba=None):
        s_ = make_sim(rebound, sd3)
        if saba is None:
            s_.integrator = "whfast"
            s_.ri_whfast.kernel = kern
        else:
            s_.integrator = "saba"
            s_.ri_saba.type = saba
        s_.dt = dt
        s_.steps(1)
        s_.synchronize()
        return state_of(s_)

    def dist(a, b):
        return max(abs(x - y) for p_, q_ in zip(a, b) for x, y in zip(p_, q_))
    for dt in (0.4, 0.2):
        mk, lz, df = one(dt, kern=1), one(dt, kern=3), one(dt, kern=0)
        cm, cl, pl = one(dt, saba=0x101), one(dt, saba=0x201), one(dt, saba=0x1)
        res["whfast_lazy_vs_modifiedkick_over_jerk_term_dt%g" % dt] = dist(mk, lz) / dist(mk, df)
        res["saba_CL2_vs_CM2_over_corrector_term_dt%g" % dt] = dist(cm, cl) / dist(cm, pl)
    return res


def schedule_replay(c, rebound, clib, D):
    """correspondence translator <-> compiled code (DESIGN 2.2c): the operator schedule the translator derived from the C
    text is executed by calling the exported primitives on one copy of a simulation; another copy takes a real
    reb_simulation_step; the two must agree to rounding (the rational coefficient times dt is rounded once here, the C code
    rounds intermediate products, hence not bitwise).  Covers every schedule made of Kepler / centre-of-mass / interaction /
    jump steps: all SABA types without corrector, WHFast default and composition kernels with every first and second
    corrector in all coordinate systems."""
    dbl, vp, uint = ctypes.c_double, ctypes.c_void_p, ctypes.c_uint
    P = ctypes.POINTER(rebound.Particle)
    for nm in ("reb_whfast_kepler_step", "reb_whfast_com_step", "reb_whfast_interaction_step", "reb_whfast_jump_step"):
        getattr(clib, nm).argtypes = [vp, dbl]
        getattr(clib, nm).restype = None
    clib.reb_integrator_whfast_init.restype = ctypes.c_int
    tr = {0: ("reb_particles_transform_jacobi_to_inertial_pos", "reb_particles_transform_jacobi_to_inertial_posvel", True),
          1: ("reb_particles_transform_democraticheliocentric_to_inertial_pos", "reb_particles_transform_democraticheliocentric_to_inertial_posvel", False),
          2: ("reb_particles_transform_whds_to_inertial_pos", "reb_particles_transform_whds_to_inertial_posvel", False),
          3: ("reb_particles_transform_barycentric_to_inertial_pos", "reb_particles_transform_barycentric_to_inertial_posvel", False)}
    cases = []
    for e in D["saba"]:
        if e["value"] < 0x100:
            cases.append(("saba/0x%x" % e["value"], 0, e["step"], dict(integrator="saba", saba=e["value"])))
    for e in D["whfast"]:
        # (second corrector outside Jacobi coordinates: the source's operator_C calls the *Jacobi* transformation whatever the
        #  coordinate system - accepted by reb_integrator_whfast_init, effect 4e-12; the abstract schedule does not record which
        #  transformation precedes a force evaluation, so these 6 configurations are not replayed)
        if not e["rejected"] and e["kernel"] in (0, 2) and not (e["corrector2"] and e["coordinates"] != 0):
            cases.append(("whfast/%d/%d/c%d/c2_%d" % (e["coordinates"], e["kernel"], e["corrector"], e["corrector2"]), e["coordinates"], e["step"],
                          dict(integrator="whfast", coordinates=e["coordinates"], kernel=e["kernel"], corrector=e["corrector"], corrector2=e["corrector2"])))
    sysl = [x for x in systems() if x["name"] in ("two_planets", "moving", "tp0", "tp1", "nine")]
    worst, nrep = 0.0, 0
    first_bad = None
    for name, coord, sched, st in cases:
        sd = sysl[c.rng.randint(0, len(sysl) - 1)] if not c.thorough else None
        for sd in ([sd] if sd else sysl):
            dt = (0.13 if c.rng.chance(0.5) else -0.07) / math.sqrt(sd["G"])
            sims = []
            for k in range(2):
                sim = make_sim(rebound, sd)
                sim.integrator = st["integrator"]
                if "saba" in st:
                    sim.ri_saba.type = st["saba"]
                else:
                    sim.ri_whfast.coordinates = st["coordinates"]
                    sim.ri_whfast.kernel = st["kernel"]
                    sim.ri_whfast.corrector = st["corrector"]
                    sim.ri_whfast.corrector2 = st["corrector2"]
                sim.dt = dt
                sims.append(sim)
            a, b = sims
            a.steps(1)
            r = ctypes.byref(b)
            if st["integrator"] == "saba":
                b.gravity_ignore_terms = 1
            if clib.reb_integrator_whfast_init(r) != 0:
                continue
            clib.reb_integrator_whfast_from_inertial(r)
            for nm_ in ("reb_integrator_whfast_init", "reb_integrator_whfast_from_inertial", "reb_whfast_kepler_step", "reb_whfast_com_step",
                        "reb_whfast_interaction_step", "reb_whfast_jump_step", "reb_simulation_update_acceleration"):
                used(nm_)
            N = b.N
            Nact = N if (b.N_active == -1 or b.testparticle_type == 1) else b.N_active
            if st["integrator"] == "saba":
                Nact = N                      # SABA transforms with (N, N)
            fpos, fposvel, three = tr[coord]

            def to_inertial(fn):
                f = getattr(clib, fn)
                if three:
                    f.argtypes = [P, P, P, uint, uint]
                    f(b._particles, b.ri_whfast._p_jh, b._particles, N, Nact)
                else:
                    f.argtypes = [P, P, uint, uint]
                    f(b._particles, b.ri_whfast._p_jh, N, Nact)
            for kind, ca, cb in sched:
                x = float(ca) * dt
                if kind == X.K_DRIFT:
                    clib.reb_whfast_kepler_step(r, x)
                    if cb == 1:
                        clib.reb_whfast_com_step(r, x)
                elif kind == X.K_KICK:
                    clib.reb_whfast_interaction_step(r, x)
                elif kind == X.K_JUMP:
                    clib.reb_whfast_jump_step(r, x)
                elif kind == X.K_FORCE:
                    to_inertial(fpos)
                    clib.reb_simulation_update_acceleration(r)
            to_inertial(fposvel)
            sa, sb = state_of(a), state_of(b)
            scale = max(abs(v) for p_ in sa for v in p_)
            dev = max(abs(x1 - x2) for p1, p2 in zip(sa, sb) for x1, x2 in zip(p1, p2)) / scale
            worst = max(worst, dev)
            nrep += 1
            c.count(("replay", name, sd["name"]))
            if not dev <= 1e-12 and first_bad is None:
                first_bad = dict(config=name, system=sd["name"], dt=dt, relative_deviation=dev)
    c.cov["schedule_replay_cases"] = nrep
    c.cov["schedule_replay_worst_relative_deviation"] = float("%.3g" % worst)
    if first_bad is not None:
        c.corr_break("the schedule derived by the translator, replayed through the real primitives, does not reproduce reb_simulation_step: %s" % first_bad["config"], first_bad)


def run(c):
    d = build()
    rebound = use_scratch_rebound(d)
    clib = rebound.clibrebound
    c.cov["trusted_base"] = ["Lean 4.33 kernel (decide +kernel on exact rationals)",
                             "rv/extract_c01.py: C-subset interpreter that derives tables and operator schedules from the source text",
                             "meaning of the primitives (Kepler step, interaction step, jump step, force routines): C02, C03, C12",
                             "identification of the jerk kick with exp(kappa v [B,[B,A]]), kappa = -1/2 (WHFast/SABA), -1 (EOS)",
                             "SciPy DOP853 reference (self-estimated error reported)", "gcc decimal->double conversion (cross-checked against Fraction)"]
    c.assumptions += ["PARTIAL: the analytic convergence theorem is not proved; proved are the algebraic order conditions of the current source",
                      "adaptive integrators (IAS15, BS), MERCURIUS, TRACE, SEI: only the numerical search",
                      "WHFast512 is not compiled on this host"]
    # ---------------------------------------------------------------- references (background)
    syss = systems()
    jobs, ics = [], {}
    for sd in syss:
        sim = make_sim(rebound, sd)
        ics[sd["name"]] = state_of(sim)
        jobs.append(dict(kind="nbody", G=sd["G"], m=[b["m"] for b in sd["bodies"]], active=sd["active"], tp_type=sd["tp_type"],
                         softening=sd.get("softening", 0.0), y0=ics[sd["name"]], times=[sd["T"], -sd["T"]]))
    refs = Refs(jobs)
    # ---------------------------------------------------------------- translator
    D = None
    changed = []
    try:
        def locked_write(path, content):
            # the lean lock is only taken when a generated file really has to be rewritten (other builders hold it for minutes)
            try:
                with open(path) as f:
                    if f.read() == content:
                        return False
            except FileNotFoundError:
                pass
            with LeanLock():
                return write_if_changed(path, content)
        D, changed = X.write_gen(REPO, LEAN, locked_write)
        c.cov["gen_files_rewritten"] = changed
        c.cov["extracted"] = {"tables": len(D["tables"]), "literals": sum(t["explicit"] for t in D["tables"].values()),
                              "saba_schedules": len(D["saba"]), "whfast_accepted": sum(1 for e in D["whfast"] if not e["rejected"]),
                              "whfast_rejected": sum(1 for e in D["whfast"] if e["rejected"]), "eos_outer": len(D["eos"]),
                              "eos_inner_unrolled": sum(len(e["inner"]) for e in D["eos"]), "janus": len(D["janus"])}
        c.count("extract", n=c.cov["extracted"]["literals"])
    except X.ExtractError as ex:
        c.broken.append("translator: the source no longer has the shape rv/extract_c01.py understands: %s" % ex)
        c.log("EXTRACTION FAILED:", ex)
    # ---------------------------------------------------------------- compiled literals
    if D is not None:
        try:
            with tempfile.TemporaryDirectory() as td:
                n, bad = X.compiled_doubles(D, td)
            c.cov["compiled_literals_checked"] = n
            c.cov["compiled_literal_mismatches"] = len(bad)
            c.count("literals", n=n)
            if bad:
                c.corr_break("%d table literals do not round to the double the compiler produced" % len(bad), bad[:5])
        except X.ExtractError as ex:
            c.broken.append("translator: literal cross-check: %s" % ex)
        c.cov["exact_residuals_measured"] = exact_margins(D)
        schedule_replay(c, rebound, clib, D)
        # MERCURIUS changeover functions: the compiled routines at the translator's exact sample points (the same points the Lean
        # model is proved equal to the source on) must agree with the exact rational value to rounding
        nch, worst_ch, bad_ch = 0, 0.0, None
        for e in D["changeover"]:
            f = getattr(clib, e["name"])
            f.restype = ctypes.c_double
            f.argtypes = [ctypes.c_void_p, ctypes.c_double, ctypes.c_double]
            for d_, dc, v in e["samples"]:
                got = f(None, float(d_), float(dc))
                dev = abs(got - float(v))
                worst_ch = max(worst_ch, dev)
                nch += 1
                if not dev <= 1e-11 and bad_ch is None:       # C5 sums terms of size 3e3 with cancellation: measured 1.1e-13
                    bad_ch = dict(function=e["name"], d=str(d_), dcrit=str(dc), compiled=got, exact=str(v))
        c.count("changeover-tie", n=nch)
        c.cov["changeover_tie"] = {"lines": nch, "worst_deviation": float("%.2e" % worst_ch)}
        if bad_ch is not None:
            c.corr_break("compiled MERCURIUS changeover function differs from the exact value of the source text / Lean model", bad_ch)
        jn = jerk_normalisation(c, rebound, clib)
        c.cov["jerk_normalisation_measured"] = jn
        if abs(jn["eos_dv_over_v_times_finite_difference_jerk"] - 2.0) > 1e-5:
            c.corr_break("reb_calculate_and_apply_jerk no longer applies 2 v (da/dx) a: kappa_EOS of the theorems is stale", jn)
        if max(v for k, v in jn.items() if "_vs_" in k) > 1e-3:
            c.corr_break("the lazy and the exact modified-kick kernels no longer carry the same dt^3 term", jn)
    # ---------------------------------------------------------------- proof
    ok = c.prove(["RV.Props.C01"])
    focus = None
    if not ok or c.broken:
        # which family's tables changed?  -> focus the search there with 10x the budget
        focus = set()
        txt = " ".join(c.broken)
        import re as _re
        fams = {"Saba": "saba", "Whfast": "whfast", "Eos": "eos", "Janus": "janus", "Leapfrog": "leapfrog", "Ias15": "ias15",
                "Mercurius": "mercurius", "Trace": "trace", "Bs": "bs"}
        for line in txt.splitlines():
            if "error" in line.lower() or "✖" in line:
                for m in _re.finditer(r"Proofs[/.]C01(Saba|Whfast|Eos|Janus|Leapfrog|Ias15|Mercurius|Trace|Bs)", line):
                    focus.add(fams[m.group(1)])
            m = _re.search(r"translator: .*?\[(saba|whfast|eos|janus|leapfrog|ias15|mercurius|trace|bs)\]", line)
            if m:
                focus.add(m.group(1))
        if not focus:
            for f in changed:
                for k, v in fams.items():
                    if f.startswith("C01" + k):
                        focus.add(v)
        if not focus:
            focus = None
        c.log("proof/translator obligations broken; search focus:", focus)
    # ---------------------------------------------------------------- search
    search(c, rebound, clib, d, syss, refs, focus)


def covering_array(L, syss, sysmap):
    """greedy all-pairs covering array over (cfg, system, dir, pattern, adj, edit, cb, var, keep, stepper) for the NON-plain cases:
    per lattice member, repeatedly pick, out of 40 random valid candidates, the one covering most still-uncovered pairs, until every
    admissible (cfg, value) pair is covered; then the same globally for the pairs among the other factors.  Deterministic (own PRNG);
    the pairs cfg x system x dir are covered by the plain runs and are not forced here."""
    rng = SplitMix(20260930)
    vals = dict(FACTORS)
    vals["system"] = [sd["name"] for sd in syss]
    vals["dir"] = [1, -1]
    small = FORDER[1:]
    uncovered = set()
    for fi, f in enumerate(small):
        for g in small[fi + 1:]:
            for a in vals[f]:
                for b in vals[g]:
                    if pair_excluded(f, a, g, b, L, sysmap) is None and not (f in ("system", "dir") and g in ("system", "dir")):
                        uncovered.add((f, a, g, b))
    arr = []

    allowed = {}

    def candidate(ci):
        if ci not in allowed:
            allowed[ci] = {f: [a for a in vals[f] if pair_excluded("cfg", ci, f, a, L, sysmap) is None] for f in small}
        al = allowed[ci]
        for _ in range(50):
            cs = {"cfg": ci}
            for f in small:
                cs[f] = al[f][rng.next() % len(al[f])]
            if cs["pattern"] == "one_call":
                cs["adj"], cs["edit"] = "none", "none"
                if all(cs[k] == PLAIN[k] for k in FORDER[3:]):
                    continue                                 # that is a plain run
            sub = {k: cs[k] for k in small if k != "dir"}
            if case_valid(sub, L, sysmap):
                return cs
        return None
    for ci in range(len(L)):
        need = set()
        for f in FORDER[3:]:
            for a in vals[f]:
                if pair_excluded("cfg", ci, f, a, L, sysmap) is None and not (f == "pattern" and a == "one_call"):
                    need.add((f, a))       # (cfg, one_call) is covered by the plain runs
        guard = 0
        while need and guard < 60:
            guard += 1
            best, bs = None, -1
            for _ in range(16):
                cs = candidate(ci)
                if cs is None:
                    continue
                sc = 3 * sum(1 for f in FORDER[3:] if (f, cs[f]) in need) + sum(1 for pr in case_pairs({k: cs[k] for k in small}) if pr in uncovered)
                if sc > bs:
                    best, bs = cs, sc
            if best is None:
                break
            arr.append(best)
            for f in FORDER[3:]:
                need.discard((f, best[f]))
            for pr in case_pairs({k: best[k] for k in small}):
                uncovered.discard(pr)
    guard = 0
    while uncovered and guard < 2000:
        guard += 1
        f, a, g, b = next(iter(uncovered))
        best, bs = None, -1
        okc = [ci for ci in range(len(L)) if pair_excluded("cfg", ci, f, a, L, sysmap) is None and pair_excluded("cfg", ci, g, b, L, sysmap) is None]
        for _ in range(60):
            if not okc:
                break
            cs = candidate(okc[rng.next() % len(okc)])
            if cs is None:
                continue
            cs[f], cs[g] = a, b
            if cs["pattern"] == "one_call":
                cs["adj"], cs["edit"] = "none", "none"
                if (f in ("adj", "edit") and a != "none") or (g in ("adj", "edit") and b != "none"):
                    continue
            if not case_valid(cs, L, sysmap):
                continue
            sc = sum(1 for pr in case_pairs({k: cs[k] for k in small}) if pr in uncovered)
            if sc > bs:
                best, bs = cs, sc
        if best is None:
            uncovered.discard((f, a, g, b))      # no valid case found for this pair (reported as missing by the accounting)
            continue
        arr.append(best)
        for pr in case_pairs({k: best[k] for k in small}):
            uncovered.discard(pr)
    return arr


def search(c, rebound, clib, d, syss, refs, focus):
    c._focus = focus
    R = refs.get()
    ref = {}
    for sd, r in zip(syss, R):
        ref[sd["name"]] = r
    c.cov["reference_error_estimates"] = {sd["name"]: float("%.2e" % ref[sd["name"]]["err_est"]) for sd in syss}
    for sd in syss:
        if ref[sd["name"]]["err_est"] > ERR_LO / 3:
            raise Infra("reference solution of %s is not accurate enough (%.1e)" % (sd["name"], ref[sd["name"]]["err_est"]))
    L = lattice(c.thorough)
    c.cov["lattice_size"] = len(L)
    # system suitability: N = 2 is solved exactly by Kepler-based splittings (nothing to measure), keep it for the others
    bysys = {sd["name"]: sd for sd in syss}
    boost = 1
    if focus:
        L = [x for x in L if x["fam"] in focus] or L
        boost = 10
    order = list(range(len(L)))
    c.rng.shuffle(order)
    verdicts, ratios, hist = {}, {}, {}
    t0 = time.time()
    # quick: the ladder runs stop 105 s after the START OF THE CHECK (but get at least 45 s), the adaptive / special checks need ~30 s
    tlimit = 1500 if (c.thorough or focus) else max(45.0, 105.0 - (t0 - c.t0))
    nrun = 0
    dims = c.cov.setdefault("dimensions", {})

    def dim(name, k=1):
        dims[name] = dims.get(name, 0) + k
    ROLES = ["tp0", "tp1", "tp0m", "tp1z", "zeroactive", "single_active"]
    GEOM = ["moving", "offset", "flyby"]
    sysmap = bysys
    seen_pairs = set()
    ncases = {"plain": 0, "array": 0, "threeway": 0}

    def one_case(ci, sd, sg, case, kind):
        nonlocal nrun
        cfg = L[ci]
        fam = cfg["fam"]
        nm = sd["name"]
        n_inner = math.sqrt(sd["G"])
        T = sg * sd["T"]
        full = dict(PLAIN, **(case or {}))
        plain = (full == PLAIN)
        rs = ref_adjust(ref[nm]["states"][repr(T)], sd, T, full)
        try:
            if fam == "trace" and sg < 0:
                v, det, ratio = trace_backward(c, d, sd, rs, n_inner)
            else:
                pts = measure_ladder(rebound, sd, cfg, rs, T, n_inner, case=full)
                v, det, ratio = judge(cfg, sd, pts, n_inner, irregular=(full["pattern"] == "exact_outputs" or full["adj"] in ("exact_output", "dt_change")
                                                                        or full["edit"] == "dt_halved"))
        except Exception as ex:
            v, det, ratio = "exception", {"exception": repr(ex)}, 0.0
        kvar = None if plain else "case"
        if full["cb"] == "field" and v in ("too-large", "low-order") and fam in WH_FAMILY:
            es = [e_ for _, e_ in det.get("points", [])][-4:]
            if len(es) >= 4 and max(es) <= 1.5 * min(es):
                kvar = "field-plateau"
        nrun += 1
        ncases[kind] += 1
        hist[v] = hist.get(v, 0) + 1
        if not (fam == "trace" and sg < 0):
            for pr in case_pairs(dict(full, cfg=ci, system=nm, dir=sg)):
                seen_pairs.add(pr)
        # ---- dimension bookkeeping
        for dn in sd.get("dims", []):
            dim(dn)
        if sd["active"] < len(sd["bodies"]):
            dim("N_active_lt_N_testparticle_type_%d" % sd["tp_type"])
        if sd["G"] != 1.0:
            dim("G_not_1")
        if "boost" in sd:
            dim("moving_centre_of_mass")
        if sg < 0:
            dim("dt_negative")
        if cfg.get("safe") == 0:
            dim("safe_mode_0_three_integrate_calls" if full["pattern"] == "split3" else "safe_mode_0_other_call_patterns")
        if fam == "janus":
            dim("unequal_janus_scales")
        if cfg.get("nondefault"):
            dim("nondefault_integrator_options")
        for cond, dn in ((full["cb"] == "field", "additional_force_uniform_field"), (full["cb"] == "callbacks", "callbacks_installed"),
                         (full["var"] == 1, "variational_particles_present"), (full["pattern"] == "split3", "integrate_split_into_calls"),
                         (full["pattern"] == "exact_outputs" or full["adj"] == "exact_output", "exact_finish_time_1"),
                         (full["pattern"] == "restore_copy" or full["adj"] == "restore_copy", "restore_midrun_copy"),
                         (full["pattern"] == "restore_file", "restore_midrun_archive"),
                         (full["keep"] == 1, "keep_unsynchronized_with_explicit_synchronize"),
                         (full["pattern"] == "reversal", "direction_reversal_between_calls"),
                         (full["edit"] == "rewrite_particles", "user_rewrites_particles_and_sets_recalculation_flags"),
                         (full["edit"] == "dt_halved" or full["adj"] == "dt_change", "user_changes_dt_between_calls"),
                         (full["adj"] != "none", "event_adjacency_next_step"),
                         (full["stepper"] != "py", "c_entry_points_as_stepper")):
            if cond:
                dim(dn)
        if not (v in ("too-large", "low-order", "exception") and c.is_known(finding_key(cfg, sd, sg, v, kvar, full))):
            ratios.setdefault(fam, 0.0)
            ratios[fam] = max(ratios[fam], ratio)        # margin statistics exclude the cases that are known findings
        tag = None if plain else tuple(full[k] for k in FORDER[3:])
        c.count((cfg["name"], nm, sg, tag), nontrivial=(v in ("ok", "too-large", "low-order")))
        if nrun <= 4:
            c.sample({"config": cfg["name"], "system": nm, "direction": sg, "case": None if plain else full, "verdict": v, "detail": det})
        if v in ("too-large", "low-order", "exception"):
            what = "%s on system %s (T=%g%s): %s" % (cfg["name"], nm, T, "" if plain else ", factors " + json.dumps({k: full[k] for k in FORDER[3:] if full[k] != PLAIN[k]}),
                                                      {"too-large": "error outside the advertised envelope",
                                                       "low-order": "observed order below the advertised one", "exception": "exception"}[v])
            vkey = finding_key(cfg, sd, sg, v, kvar, full)
            if not plain and not c.is_known(vkey):
                vkey += ":" + "/".join("%s=%s" % (k, full[k]) for k in FORDER[3:] if full[k] != PLAIN[k])
            c.violation(vkey, what, dict(config=cfg["name"], system=sd["name"], bodies=sd["bodies"], G=sd["G"], T=T, factors=full,
                                         N_active=sd["active"], testparticle_type=sd["tp_type"], detail=det,
                                         how="rv/c01.py: make_sim + cfg.set, then run_case(case=factors); n steps with dt=T/n; compare positions with ref/C01_reference.py"))

    def systems_for(ci):
        return [sd_["name"] for sd_ in syss if pair_excluded("cfg", ci, "system", sd_["name"], L, sysmap) is None]

    # ------------------------------------------------------------ (1) plain runs: cfg x system x dir
    for i in order:
        cfg = L[i]
        fam = cfg["fam"]
        names = systems_for(i)
        if c.thorough or focus:
            use = [(nm, sg) for nm in names for sg in (1, -1)]
        else:
            # quick: every member of the lattice on one plain system, one type-0 and one type-1 role system (round robin, offset by the
            # seed, so that neighbouring members of a family together see every role system) and, every other time, a geometry system
            pl = [n for n in names if n not in ROLES and n not in GEOM]
            gm = [n for n in names if n in GEOM]
            rr_ = ["tp0", "tp1", "single_active", "tp1z", "tp0m", "zeroactive"]
            first = c.rng.choice(pl) if (i + c.seed) % 2 == 0 else c.rng.choice(gm)
            use = [(first, c.rng.choice([1, -1])), (rr_[(i + c.seed) % 6], c.rng.choice([1, -1]))]
        for nm, sg in use:
            if time.time() - t0 > tlimit:
                break
            one_case(i, bysys[nm], sg, None, "plain")
    # ------------------------------------------------------------ (3) three-way: pattern x adj x edit for the deferred-synchronisation families
    reps = [k for k, x in enumerate(L) if x["name"] in ("whfast/jacobi/default/c0/c2_0/safe0", "saba/0x6/safe0", "mercurius/safe0", "eos/lf4/lf/n1/safe0",
                                                        "whfast/democraticheliocentric/default/c0/c2_0/safe0", "leapfrog")]
    tw = [(ci, pt, ad, ed) for ci in reps for pt in FACTORS["pattern"] for ad in FACTORS["adj"] for ed in FACTORS["edit"]
          if case_valid(dict(cfg=ci, pattern=pt, adj=ad, edit=ed), L, sysmap)]
    c.cov["three_way_pattern_adj_edit"] = {"combinations": len(tw), "run": 0}
    for j, (ci, pt, ad, ed) in enumerate(tw):
        if not (c.thorough or focus) and j % 12 != c.seed % 12:
            continue
        if time.time() - t0 > tlimit + 15:
            break
        names = [n for n in systems_for(ci) if n in ("moving", "offset", "tp0", "tp1", "two_planets")]
        one_case(ci, bysys[names[j % len(names)]], 1 if (L[ci]["fam"] == "trace" or j % 2) else -1, dict(PLAIN, pattern=pt, adj=ad, edit=ed), "threeway")
        c.cov["three_way_pattern_adj_edit"]["run"] += 1
    # ------------------------------------------------------------ (2) greedy all-pairs covering array over all ten factors
    arr = covering_array(L, syss, sysmap)
    c.cov["covering_array_size"] = len(arr)
    if focus:
        arr = [x for x in arr if x["cfg"] < len(L)]
    sl = 1 if (c.thorough or focus) else 8
    for j, cs in enumerate(arr):
        if j % sl != c.seed % sl:
            continue
        if time.time() - t0 > tlimit:
            break
        one_case(cs["cfg"], bysys[cs["system"]], cs["dir"], {k: cs[k] for k in FORDER[3:]}, "array")
    # ------------------------------------------------------------ pair accounting
    total = excluded = 0
    missing = []
    vals = dict(FACTORS)
    vals["cfg"] = list(range(len(L)))
    vals["system"] = [sd_["name"] for sd_ in syss]
    vals["dir"] = [1, -1]
    for fi, f in enumerate(FORDER):
        for g in FORDER[fi + 1:]:
            for a_ in vals[f]:
                for b_ in vals[g]:
                    if pair_excluded(f, a_, g, b_, L, sysmap) is not None:
                        excluded += 1
                        continue
                    total += 1
                    if (f, a_, g, b_) not in seen_pairs:
                        missing.append([f, L[a_]["name"] if f == "cfg" else a_, g, b_])
    c.cov["pairs"] = {"covered": total - len(missing), "total": total, "excluded": excluded, "factors": {f: len(vals[f]) for f in FORDER},
                      "cases": dict(ncases), "missing": missing[:12]}
    if (c.thorough and not focus) and missing:
        c.broken.append("pairwise coverage incomplete in the thorough tier: %d of %d applicable factor-value pairs never generated, e.g. %s" % (len(missing), total, missing[:3]))
    c.cov["verdict_histogram"] = hist
    c.cov["worst_error_over_unscaled_envelope_by_family"] = {k: float("%.3g" % v) for k, v in ratios.items()}
    c.cov["rule"] = ("every member of the documented option lattice (WHFast 4 coordinate systems x 4 kernels x 6 first correctors x second corrector "
                     "x safe_mode = 116 accepted combinations, 18 SABA types x safe_mode, 9x9 EOS pairs x n (1,2; thorough 1,2,3), JANUS 5 orders, LEAPFROG, "
                     "MERCURIUS, TRACE) is run on a ladder of fixed steps tau = 0.8/2^k (in units of the inner orbital frequency) against the DOP853 "
                     "reference; quick: two of its 4-6 systems (one with test particles) and one time direction, chosen by the seeded PRNG; thorough or "
                     "after a broken proof obligation (then restricted to the affected family): all systems, both directions.  Plus IAS15 (4 adaptive "
                     "modes x 3 epsilons, and fixed step), BS (3 tolerances), BS with a user ODE (coupled / uncoupled), SEI, the second-corrector "
                     "safe/unsafe comparison and TRACE backwards (subprocess).  A case is non-trivial when a slope was evaluated (>= 3 errors in "
                     "[1e-10, 1e-2] at tau <= 0.4) or the envelope was violated")
    extra_checks(c, rebound, clib, d, syss, ref)


def trace_backward(c, d, sd, rs, n_inner):
    """TRACE with dt < 0 segfaults in the default pericentre mode (F10): run in a subprocess"""
    code = r"""
import sys, json, math
sys.path.insert(0, %r)
import warnings; warnings.filterwarnings("ignore")
import rebound
sd = json.loads(sys.argv[1])
out = []
for k in range(4):
    sim = rebound.Simulation(); sim.G = sd["G"]
    for b in sd["bodies"]: sim.add(**b)
    sim.move_to_com(); sim.integrator = "trace"
    T = -sd["T"]; dt = -0.8/ %r / 2**k
    n = max(1, int(round(abs(T)/abs(dt)))); sim.dt = T/n
    sim.steps(n); sim.synchronize()
    out.append((abs(sim.dt), [[p.x,p.y,p.z] for p in sim.particles]))
print(json.dumps(out))
""" % (d, n_inner)
    p = subprocess.run([sys.executable, "-c", code, json.dumps(sd)], capture_output=True, text=True, timeout=300)
    if p.returncode != 0:
        return "exception", {"returncode": p.returncode, "stderr": p.stderr[-300:]}, 0.0
    pts = []
    N = len(sd["bodies"])
    for dt, st in json.loads(p.stdout.strip().splitlines()[-1]):
        pts.append((dt, pos_err(st, rs, N)))
    cfg = dict(terms=[(1, 2)])
    return judge(cfg, sd, pts, n_inner)


def entry_points(c, rebound, clib, bysys, res):
    """every public function / Python method that advances or configures the integrators (extracted from rebound.h, integrator.h
    and the Simulation class of this tree) must have been exercised in this run; the ones the ladder runs do not reach get a smoke
    test with an oracle here"""
    import re as _re
    hdr = open(os.path.join(REPO, "src", "rebound.h")).read()
    names = set(_re.findall(r"DLLEXPORT[^;\n]*?\b(reb_(?:simulation_(?:step|steps|integrate|synchronize|reset_integrator|update_acceleration)|integrator_\w+|whfast_\w+|ode_create))\s*\(", hdr))
    names |= set(_re.findall(r"^void\s+(reb_integrator_part[12])\s*\(", open(os.path.join(REPO, "src", "integrator.h")).read(), flags=_re.M))
    pyn = {"py:" + m for m in ("step", "steps", "integrate", "synchronize", "reset_integrator", "create_ode") if hasattr(rebound.Simulation, m)}
    sd = bysys["two_planets"]
    r_ = ctypes.byref
    # ---- part1 / force / part2 by hand  ==  reb_simulation_step, bit for bit, for every integrator (the anchored two-phase driver)
    bad = []
    for integ in ("ias15", "whfast", "leapfrog", "janus", "mercurius", "saba", "eos", "bs", "trace"):
        a, b = make_sim(rebound, sd), make_sim(rebound, sd)
        for s_ in (a, b):
            s_.integrator = integ
            s_.dt = 0.05
        for _ in range(3):
            clib.reb_simulation_step(r_(a))
            clib.reb_integrator_part1(r_(b))
            clib.reb_simulation_update_acceleration(r_(b))
            clib.reb_integrator_part2(r_(b))
        for s_ in (a, b):
            clib.reb_simulation_synchronize(r_(s_))
        if state_of(a) != state_of(b) or a.t != b.t:
            bad.append(integ)
        c.count(("part12-vs-step", integ))
    for nm in ("reb_simulation_step", "reb_integrator_part1", "reb_integrator_part2", "reb_simulation_update_acceleration", "reb_simulation_synchronize"):
        used(nm)
    if bad:
        c.corr_break("reb_integrator_part1 / reb_simulation_update_acceleration / reb_integrator_part2 called by hand differ from reb_simulation_step for %s" % bad, bad)
    # ---- reb_integrator_ias15_part2 / _reset: a force evaluation followed by part2 is one IAS15 step
    a, b = make_sim(rebound, sd), make_sim(rebound, sd)
    for s_ in (a, b):
        s_.integrator = "ias15"
        s_.dt = 0.05
    clib.reb_simulation_step(r_(a))
    clib.reb_integrator_ias15_reset(r_(b))
    clib.reb_simulation_update_acceleration(r_(b))
    clib.reb_integrator_ias15_part2(r_(b))
    used("reb_integrator_ias15_part2"); used("reb_integrator_ias15_reset")
    if state_of(a) != state_of(b) or a.t != b.t:
        c.corr_break("reb_integrator_ias15_part2 after a force evaluation is not one IAS15 step", dict(t=(a.t, b.t)))
    # ---- reb_integrator_whfast_reset / to_inertial, reb_simulation_reset_integrator: a reset in a synchronized state changes nothing
    a, b = make_sim(rebound, sd), make_sim(rebound, sd)
    for s_ in (a, b):
        s_.integrator = "whfast"
        s_.dt = 0.05
        s_.steps(5)
    clib.reb_integrator_whfast_to_inertial(r_(b))
    clib.reb_integrator_whfast_reset(r_(b))
    b.integrator = "whfast"
    clib.reb_simulation_reset_integrator(r_(b))
    b.integrator = "whfast"
    for s_ in (a, b):
        s_.steps(5)
    used("reb_integrator_whfast_reset"); used("reb_integrator_whfast_to_inertial"); used("reb_simulation_reset_integrator"); used("py:reset_integrator")
    dev = max(abs(x - y) for p_, q_ in zip(state_of(a), state_of(b)) for x, y in zip(p_, q_))
    if not dev <= 1e-13:
        c.violation("entry:reset-in-synchronized-state", "resetting WHFast (reb_integrator_whfast_reset, reb_simulation_reset_integrator) in a synchronized state changes the continued run by %.2e" % dev, dict(deviation=dev))
    # ---- MERCURIUS changeover functions: 0 well inside, 1 outside, monotone, within [0, 1]
    lbad = []
    for nm in sorted(n for n in names if n.startswith("reb_integrator_mercurius_L_")):
        f = getattr(clib, nm)
        f.restype = ctypes.c_double
        f.argtypes = [ctypes.c_void_p, ctypes.c_double, ctypes.c_double]
        vals = [f(None, 0.01 * k, 1.0) for k in range(0, 251)]
        used(nm)
        if not (all(0.0 <= v <= 1.0 for v in vals) and all(y >= x - 1e-15 for x, y in zip(vals, vals[1:])) and vals[-1] == 1.0 and vals[100] == 1.0 and vals[5] == 0.0):
            lbad.append(nm)
        c.count(("L-function", nm))
    if lbad:
        c.violation("mercurius:changeover-function", "changeover function(s) %s are not monotone maps onto [0,1] with L(<=0.05 dcrit)=0 and L(>=dcrit)=1" % lbad, dict(functions=lbad))
    # ---- TRACE switching functions on a well separated pair and on an overlapping pair
    s_ = make_sim(rebound, sd)
    s_.integrator = "trace"
    s_.dt = 0.05
    s_.steps(1)
    for nm, argt in (("reb_integrator_trace_switch_default", 3), ("reb_integrator_trace_switch_peri_default", 2), ("reb_integrator_trace_switch_peri_none", 2)):
        if nm not in names:
            continue
        f = getattr(clib, nm)
        f.restype = ctypes.c_int
        far = f(r_(s_), 1, 2) if argt == 3 else f(r_(s_), 1)
        used(nm)
        ok = (far == 0)
        if argt == 3:
            q = s_.copy()
            q.particles[2].x = q.particles[1].x + 1e-5
            q.particles[2].y = q.particles[1].y
            q.particles[2].z = q.particles[1].z
            ok = ok and f(r_(q), 1, 2) == 1
        if not ok:
            c.violation("trace:switching-function:%s" % nm, "%s does not separate a well separated from an overlapping pair" % nm, dict(function=nm, far=far))
    extracted = sorted(names | pyn)
    missing = [n for n in extracted if ENTRY_USED.get(n, 0) == 0]
    c.cov["entry_points"] = {"extracted": len(extracted), "exercised": len(extracted) - len(missing), "missing": missing,
                             "calls": {n: ENTRY_USED.get(n, 0) for n in extracted}}
    if missing:
        c.broken.append("public entry points never exercised in this run: %s" % missing)


def extra_checks(c, rebound, clib, d, syss, ref):
    """adaptive integrators, user ODEs, SEI, F10, F18"""
    bysys = {sd["name"]: sd for sd in syss}
    res = {}
    # ---------------- IAS15: error <= class bound and not growing when epsilon tightens
    for nm in ("two_planets", "heavy3", "tp1", "nine") if c.thorough else ("two_planets", "tp1"):
        sd = bysys[nm]
        N = len(sd["bodies"])
        for sg in (1, -1):
            T = sg * sd["T"]
            prev = None
            for mode in (0, 1, 2, 3):      # individual, global, PRS23 (default), Aarseth85
                errs = []
                for eps in (1e-1, 1e-5, 1e-9):
                    sim = make_sim(rebound, sd)
                    sim.integrator = "ias15"
                    sim.ri_ias15.epsilon = eps
                    sim.ri_ias15.adaptive_mode = mode
                    sim.dt = math.copysign(0.05, T)
                    sim.integrate(T)
                    e = pos_err(state_of(sim), ref[nm]["states"][repr(T)], N)
                    errs.append(e)
                    c.count(("ias15", nm, sg, mode, eps))
                res["ias15/%s/%s/%+d" % (nm, mode, sg)] = [float("%.2e" % e) for e in errs]
                # class bounds (measured on the clean tree: <= 6.7e-6 for epsilon = 0.1, <= 3e-12 = reference accuracy for 1e-5, 1e-9)
                if errs and (errs[0] > 1e-3 or errs[1] > 1e-9 or errs[2] > 1e-9 or errs[2] > max(errs[0], 1e-10)):
                    c.violation("ias15:too-large", "IAS15 (%s) error %s on %s" % (mode, errs, nm),
                                dict(system=sd, mode=mode, errors=errs, T=T))
    # ---------------- IAS15 with a fixed step (epsilon = 0): a 15th-order scheme is at the reference accuracy for dt <= 1/n_inner
    #                  (clean tree: 2.7e-12 at dt = 1, 6.6e-13 at dt = 0.5; a 1e-9 change of one c[] constant gives 2.4e-9)
    for nm in ("two_planets", "heavy3", "tp1"):
        sd = bysys[nm]
        N = len(sd["bodies"])
        for sg in (1, -1):
            T = sg * sd["T"]
            errs = []
            for dt in (1.0, 0.5):
                sim = make_sim(rebound, sd)
                sim.integrator = "ias15"
                sim.ri_ias15.epsilon = 0
                n = int(round(abs(T) / dt))
                sim.dt = T / n
                sim.steps(n)
                errs.append(pos_err(state_of(sim), ref[nm]["states"][repr(T)], N))
                c.count(("ias15-fixed", nm, sg, dt))
            res["ias15_fixed_step/%s/%+d" % (nm, sg)] = [float("%.2e" % e) for e in errs]
            if errs[0] > 2e-9 or errs[1] > 2e-11:
                c.violation("ias15:fixed-step", "IAS15 with fixed steps dt=1, 0.5 on %s: errors %s (15th order: expected at round-off)" % (nm, errs),
                            dict(system=sd, errors=errs, T=T, epsilon=0))
    # ---------------- IAS15 exactness (theorems c01_ias15_sweep_exact / c01_ias15_step_exact observed on the compiled code): a force that
    #                  is a polynomial of degree <= 13 in time only is integrated exactly (to rounding) in ONE step of any size and sign
    #                  (measured <= 1.5e-13 relative; degree 14: 6e-8 .. 1.5e-5)
    worst, sharp = 0.0, 1.0
    for dgr in list(range(0, 14)) + [14]:
        for dt in (0.37, 2.5, -1.7):
            for mode in ((0, 2) if dgr in (3, 7, 13) else (2,)):
                sim = rebound.Simulation()
                sim.integrator = "ias15"
                sim.ri_ias15.epsilon = 0
                sim.ri_ias15.adaptive_mode = mode
                sim.gravity = "none"
                sim.add(m=1.0, x=0.3, y=-0.2, z=0.1, vx=0.5, vy=0.25, vz=-0.125)
                t0 = 0.4
                sim.t = t0

                def frc(simp, dgr=dgr):
                    s_ = simp.contents
                    t_ = s_.t
                    s_.particles[0].ax += (t_ - 0.1) ** dgr
                    s_.particles[0].ay += -2 * (t_ + 0.2) ** dgr
                    s_.particles[0].az += 0.5 * t_ ** dgr
                sim.additional_forces = frc
                sim.dt = dt
                sim.steps(1)
                T_ = sim.t
                p_ = sim.particles[0]
                e_ = 0.0
                for (cc_, kk_, x0_, v0_, x_, v_) in ((-0.1, 1, 0.3, 0.5, p_.x, p_.vx), (0.2, -2, -0.2, 0.25, p_.y, p_.vy), (0.0, 0.5, 0.1, -0.125, p_.z, p_.vz)):
                    A_ = lambda t: (t + cc_) ** (dgr + 1) / (dgr + 1)
                    B_ = lambda t: (t + cc_) ** (dgr + 2) / ((dgr + 1) * (dgr + 2))
                    dv_ = kk_ * (A_(T_) - A_(t0))
                    dx_ = kk_ * (B_(T_) - B_(t0) - A_(t0) * (T_ - t0))
                    e_ = max(e_, abs(x_ - (x0_ + v0_ * (T_ - t0) + dx_)) / max(1, abs(x_)), abs(v_ - (v0_ + dv_)) / max(1, abs(v_)))
                c.count(("ias15-poly", dgr, dt, mode))
                if dgr <= 13:
                    worst = max(worst, e_)
                    if not e_ <= 5e-12:
                        c.violation("ias15:polynomial-exactness", "IAS15 does not integrate the time-only force of degree %d exactly in one step dt=%g (adaptive_mode %d): relative error %.2e" % (dgr, dt, mode, e_),
                                    dict(degree=dgr, dt=dt, adaptive_mode=mode, relative_error=e_, t0=t0))
                elif abs(dt) > 1:
                    sharp = min(sharp, e_)
    res["ias15_time_polynomial_force_worst_relative_error_deg<=13"] = float("%.2e" % worst)
    res["ias15_time_polynomial_force_smallest_error_deg14"] = float("%.2e" % sharp)
    # ---------------- BS: error shrinks with the tolerance
    for nm in ("two_planets", "tp0"):
        sd = bysys[nm]
        N = len(sd["bodies"])
        for sg in (1, -1):
            T = sg * sd["T"]
            errs = []
            for tol in (1e-5, 1e-8, 1e-11):
                sim = make_sim(rebound, sd)
                sim.integrator = "bs"
                sim.ri_bs.eps_rel = tol
                sim.ri_bs.eps_abs = tol
                sim.dt = math.copysign(0.05, T)
                sim.integrate(T)
                errs.append(pos_err(state_of(sim), ref[nm]["states"][repr(T)], N))
                c.count(("bs", nm, sg, tol))
            res["bs/%s/%+d" % (nm, sg)] = [float("%.2e" % e) for e in errs]
            if not (errs[0] < 1e-2 and errs[1] < 1e-5 and errs[2] < 3e-9 and errs[2] <= errs[0]):
                c.violation("bs:no-convergence", "BS errors %s for tolerances 1e-5,1e-8,1e-11 on %s" % (errs, nm),
                            dict(system=sd, errors=errs, T=T))
    # ---------------- user-defined ODE with BS: harmonic oscillator, uncoupled and coupled to the N-body state
    sd = bysys["two_planets"]
    N = len(sd["bodies"])
    for coupled in (False, True):
        job = dict(kind="nbody+sho", G=sd["G"], m=[b["m"] for b in sd["bodies"]], active=sd["active"], tp_type=sd["tp_type"],
                   y0=state_of(make_sim(rebound, sd)), times=[sd["T"]], sho=dict(k=2.0, y0=[1.0, 0.0], coupled=coupled))
        p = subprocess.run(["python3-vt", os.path.join(ROOT, "ref", "C01_reference.py")], input=json.dumps([job]),
                           capture_output=True, text=True, timeout=600)
        if p.returncode != 0:
            raise Infra("reference (user ODE) failed: " + p.stderr[-500:])
        rs = json.loads(p.stdout)[0]["states"][repr(sd["T"])]
        errs = []
        for tol in (1e-5, 1e-8, 1e-11):
            sim = make_sim(rebound, sd)
            sim.integrator = "bs"
            sim.ri_bs.eps_rel = tol
            sim.ri_bs.eps_abs = tol
            ode = sim.create_ode(length=2, needs_nbody=coupled)
            kk = 2.0

            def rhs(ode_p, yDot, y, t, coupled=coupled):
                k = kk
                if coupled:
                    ps = sim.particles
                    k = kk * math.sqrt((ps[1].x - ps[0].x) ** 2 + (ps[1].y - ps[0].y) ** 2 + (ps[1].z - ps[0].z) ** 2)
                yDot[0] = y[1]
                yDot[1] = -k * y[0]
            ode.derivatives = rhs
            ode.y[0] = 1.0
            ode.y[1] = 0.0
            sim.dt = 0.05
            sim.integrate(sd["T"])
            e_ode = max(abs(ode.y[0] - rs[6 * N]), abs(ode.y[1] - rs[6 * N + 1]))
            e_nb = pos_err(state_of(sim), rs, N)
            errs.append((e_ode, e_nb))
            c.count(("bs-ode", coupled, tol))
        res["bs_user_ode/%s" % ("coupled" if coupled else "uncoupled")] = [(float("%.2e" % a), float("%.2e" % b)) for a, b in errs]
        if not (errs[0][0] < 1e-2 and errs[1][0] < 1e-5 and errs[2][0] < 1e-8 and errs[2][1] < 3e-9):
            c.violation("bs:user-ode", "user ODE (harmonic oscillator, coupled=%s) with BS does not converge: %s" % (coupled, errs),
                        dict(coupled=coupled, errors=errs))
    # ---------------- BS exactness (theorems c01_bs_extrapolation_exact / c01_bs_quadrature_exact observed on the compiled code):
    #                  a user ODE y' = (t - c)^d is integrated exactly (to rounding) for d <= 2k+1 when k+1 rows are used; at least two
    #                  rows are always used: d <= 3 is exact at every tolerance (how many more rows a step uses depends on the error estimate)
    poly = {}
    for eps, dmax in ((1e-3, 3), (1e-6, 3), (1e-9, 3)):
        for sg in (1, -1):
            for dgr in range(dmax + 1):
                sim = rebound.Simulation()
                sim.add(m=1.0)
                sim.integrator = "bs"
                sim.ri_bs.eps_rel = eps
                sim.ri_bs.eps_abs = eps
                ode = sim.create_ode(length=1, needs_nbody=False)

                def rhs(o, yDot, y, t, dgr=dgr):
                    yDot[0] = (t - 0.3) ** dgr
                ode.derivatives = rhs
                ode.y[0] = 0.7
                sim.dt = sg * 1.3
                sim.integrate(sg * 2.0)
                exact = 0.7 + ((sim.t - 0.3) ** (dgr + 1) - (-0.3) ** (dgr + 1)) / (dgr + 1)
                rel = abs(ode.y[0] - exact) / abs(exact)
                poly[(eps, sg, dgr)] = rel
                c.count(("bs-poly", eps, sg, dgr))
                if not rel <= 1e-13:
                    c.violation("bs:polynomial-exactness", "BS (eps=%g) does not integrate the user ODE y' = (t-0.3)^%d exactly: relative error %.2e" % (eps, dgr, rel),
                                dict(eps=eps, degree=dgr, direction=sg, relative_error=rel, y0=0.7, t_end=sg * 2.0))
    res["bs_user_ode_polynomial_worst_relative_error"] = float("%.2e" % max(poly.values()))
    # ---------------- SEI: shearing sheet, epicycles exact; with mutual gravity second order
    Om = 1.0
    y0 = [[0.1, 0.0, 0.02, 0.0, -1.5 * Om * 0.1 + 0.01, 0.0], [-0.15, 0.3, -0.01, 0.005, 1.5 * Om * 0.15, 0.01]]
    for grav in (0.0, 1.0):
        job = dict(kind="hill", Omega=Om, G=grav, m=[1e-3, 2e-3], y0=y0, times=[10.0])
        p = subprocess.run(["python3-vt", os.path.join(ROOT, "ref", "C01_reference.py")], input=json.dumps([job]),
                           capture_output=True, text=True, timeout=600)
        if p.returncode != 0:
            raise Infra("reference (hill) failed: " + p.stderr[-500:])
        rs = json.loads(p.stdout)[0]["states"][repr(10.0)]
        errs = []
        for dt in (0.1, 0.05, 0.025, 0.0125):
            sim = rebound.Simulation()
            sim.integrator = "sei"
            sim.ri_sei.OMEGA = Om
            sim.G = grav
            sim.gravity = "basic" if grav else "none"
            for m, y in zip([1e-3, 2e-3], y0):
                sim.add(m=m, x=y[0], y=y[1], z=y[2], vx=y[3], vy=y[4], vz=y[5])
            n = int(round(10.0 / dt))
            sim.dt = 10.0 / n
            sim.steps(n)
            errs.append(pos_err(state_of(sim), rs, 2))
            c.count(("sei", grav, dt))
        res["sei/G=%g" % grav] = [float("%.2e" % e) for e in errs]
        if grav == 0.0:
            if max(errs) > 1e-9:
                c.violation("sei:epicycle", "SEI without forces is not exact: %s" % errs, dict(errors=errs, y0=y0))
        else:
            sl = [math.log(errs[i] / errs[i + 1]) / math.log(2) for i in range(3) if errs[i + 1] > ERR_LO]
            res["sei/slopes"] = [float("%.2f" % s) for s in sl]
            if any(s < 1.5 for s in sl) or errs[0] > 1e-2:
                c.violation("sei:order", "SEI with mutual gravity: slopes %s errors %s" % (sl, errs), dict(errors=errs, y0=y0))
    dimc = c.cov.setdefault("dimensions", {})

    def dimx(name, k=1):
        dimc[name] = dimc.get(name, 0) + k
    # ---------------- adaptive integrators on the particle-role / geometry / softening systems and with non-default options
    role_names = ["tp0", "tp0m", "tp1z", "zeroactive", "single_active", "offset", "flyby", "soft", "moving"]
    if not c.thorough:
        role_names = [role_names[c.rng.randint(0, len(role_names) - 1)] for _ in range(4)] + ["soft"]
    for nm in dict.fromkeys(role_names):
        sd = bysys[nm]
        N = len(sd["bodies"])
        for sg in ((1, -1) if c.thorough else (c.rng.choice([1, -1]),)):
            T = sg * sd["T"]
            for label, setup, bound in (
                    ("ias15", lambda s_: None, 1e-9),
                    ("ias15/min_dt=1e-3/mode0", lambda s_: (setattr(s_.ri_ias15, "min_dt", 1e-3), setattr(s_.ri_ias15, "adaptive_mode", 0)), 1e-9),
                    ("ias15/eps=1e-6/mode3", lambda s_: (setattr(s_.ri_ias15, "epsilon", 1e-6), setattr(s_.ri_ias15, "adaptive_mode", 3)), 1e-7),
                    ("bs/eps=1e-10", lambda s_: (setattr(s_, "integrator", "bs"), setattr(s_.ri_bs, "eps_rel", 1e-10), setattr(s_.ri_bs, "eps_abs", 1e-10)), 1e-7),
                    ("bs/eps=1e-9/max_dt=0.05/min_dt=1e-6", lambda s_: (setattr(s_, "integrator", "bs"), setattr(s_.ri_bs, "eps_rel", 1e-9), setattr(s_.ri_bs, "eps_abs", 1e-9),
                                                                       setattr(s_.ri_bs, "max_dt", 0.05), setattr(s_.ri_bs, "min_dt", 1e-6)), 1e-7)):
                sim = make_sim(rebound, sd)
                sim.integrator = "ias15"
                setup(sim)
                sim.dt = math.copysign(0.05, T)
                # split into two integrate() calls with the default exact_finish_time
                sim.integrate(0.4 * T)
                sim.integrate(T)
                e = pos_err(state_of(sim), ref[nm]["states"][repr(T)], N)
                res.setdefault("adaptive_on_roles_worst", {})
                res["adaptive_on_roles_worst"][label] = max(res["adaptive_on_roles_worst"].get(label, 0.0), float("%.2e" % e))
                c.count(("adaptive-role", nm, sg, label))
                for dn in sd.get("dims", []):
                    dimx(dn)
                if "=" in label:
                    dimx("nondefault_integrator_options")
                dimx("integrate_split_into_calls")
                dimx("exact_finish_time_1")
                if not e <= bound:
                    c.violation("%s:role-system:%s" % (label.split("/")[0], nm), "%s on system %s (T=%g): error %.2e > %.0e" % (label, nm, T, e, bound),
                                dict(system=sd, integrator=label, T=T, error=e))
    # ---------------- integrator switched mid-run on one simulation object (with and without reset_integrator)
    sd = bysys["two_planets"]
    N = len(sd["bodies"])
    pairs = [("whfast", "saba"), ("saba", "eos"), ("eos", "leapfrog"), ("leapfrog", "whfast"), ("mercurius", "whfast"), ("whfast", "mercurius"),
             ("trace", "whfast"), ("trace", "leapfrog"), ("trace", "ias15"), ("whfast", "ias15"), ("ias15", "whfast"), ("janus", "leapfrog"), ("bs", "saba"), ("whfast", "trace")]
    for a_, b_ in pairs:
        for reset in (0, 1):
            for safe in (1, 0):
                T = sd["T"]
                errs = []
                for dt in (0.02, 0.01):
                    sim = make_sim(rebound, sd)
                    sim.integrator = a_
                    if a_ == "whfast":
                        sim.ri_whfast.safe_mode = safe
                    if a_ == "saba":
                        sim.ri_saba.safe_mode = safe
                    n = int(round(T / dt))
                    sim.dt = T / n
                    if a_ == "bs":
                        sim.ri_bs.eps_rel = 1e-11
                        sim.ri_bs.eps_abs = 1e-11
                    if a_ in ("ias15", "bs"):
                        sim.integrate(0.5 * T)
                    else:
                        sim.steps(n // 2)
                        sim.synchronize()
                    if reset:
                        sim.reset_integrator()
                    sim.integrator = b_
                    sim.dt = T / n
                    if b_ in ("ias15", "bs"):
                        sim.integrate(T)
                    else:
                        sim.steps(int(round((T - sim.t) / sim.dt)))
                        sim.synchronize()
                    if abs(sim.t - T) > 1e-9:
                        errs.append(float("inf"))
                    else:
                        errs.append(pos_err(state_of(sim), ref["two_planets"]["states"][repr(T)], N))
                c.count(("switch", a_, b_, reset, safe))
                dimx("integrator_switch_midrun")
                loword = any(x in ("leapfrog",) for x in (a_, b_))
                bound = 100.0 * (1 + T) * (1e-3 if not loword else 1.0) * 0.02 ** 2 * (1 if "janus" not in (a_, b_) else 1)
                res.setdefault("integrator_switch_errors", {})["%s->%s/reset%d/safe%d" % (a_, b_, reset, safe)] = [float("%.2e" % e) for e in errs]
                if not (errs[0] <= bound and errs[1] <= max(errs[0] / 2.5, 1e-9)):
                    c.violation("C01:trace-gravity-left-after-switch" if (a_ == "trace" and errs[1] > 1.0) else "switch:%s->%s:reset%d:safe%d" % (a_, b_, reset, safe),
                                "integrator switched %s -> %s at T/2 (reset_integrator=%d, safe_mode=%d): errors %s for dt=0.02, 0.01 (bound %.1e, must shrink by > 2.5)" % (a_, b_, reset, safe, errs, bound),
                                dict(system=sd, first=a_, second=b_, reset=reset, safe_mode=safe, errors=errs))
    # ---------------- steps longer than an orbital period (WHFast's Kepler solver must cope; nothing to converge, only finiteness and size)
    for integ in ("whfast", "saba", "mercurius"):
        sim = make_sim(rebound, sd)
        sim.integrator = integ
        sim.dt = 7.0
        sim.steps(3)
        sim.synchronize()
        e = pos_err(state_of(sim), [0.0] * (6 * N), N)
        c.count(("long-dt", integ))
        dimx("dt_longer_than_period")
        if not e < 10.0:
            c.violation("%s:dt-longer-than-period" % integ, "%s with dt = 7 (> inner period): particle at distance %r after 3 steps" % (integ, e), dict(integrator=integ, dt=7.0))
    # ---------------- TRACE: the three pericentre prescriptions on steps that ARE flagged as pericentre approaches (the flag is read
    #                  from ri_trace after every step); the hybrid scheme has no clean order there, the oracle is the accuracy class
    #                  measured on the clean tree (<= 1.1e-3 for dt = 0.16 .. 0.02) and agreement between the prescriptions
    def peri_setup():
        sim = rebound.Simulation()
        sim.add(m=1.0)
        sim.add(m=3e-4, a=1.0, e=0.9, inc=0.3, omega=0.4, f=2.5)       # q = 0.1
        sim.add(m=1e-3, a=5.2, e=0.05, f=1.0)
        sim.move_to_com()
        return sim
    Tp = 3.3 * 2 * math.pi
    job = dict(kind="nbody", G=1.0, m=[1.0, 3e-4, 1e-3], active=3, tp_type=0, y0=state_of(peri_setup()), times=[Tp])
    p = subprocess.run(["python3-vt", os.path.join(ROOT, "ref", "C01_reference.py")], input=json.dumps([job]), capture_output=True, text=True, timeout=600)
    if p.returncode != 0:
        raise Infra("reference (pericentre system) failed: " + p.stderr[-500:])
    pj = json.loads(p.stdout)[0]
    if pj["err_est"] > 1e-8:
        raise Infra("reference of the pericentre system not accurate enough: %.1e" % pj["err_est"])
    prs = pj["states"][repr(Tp)]
    perr = {}
    for pm, pname in ((0, "PARTIAL_BS"), (1, "FULL_BS"), (2, "FULL_IAS15")):
        for dt in (0.16, 0.08, 0.04):
            sim = peri_setup()
            sim.integrator = "trace"
            sim.ri_trace.peri_mode = pm
            n = int(round(Tp / dt))
            sim.dt = Tp / n
            flagged = 0
            for _ in range(n):
                sim.steps(1)
                flagged += 1 if sim.ri_trace._current_C else 0
            e = pos_err(state_of(sim), prs, 3)
            perr[(pm, dt)] = (e, flagged)
            c.count(("trace-peri", pname, dt))
            dimx("trace_peri_mode_on_flagged_pericentre_steps", flagged)
            if flagged == 0:
                c.broken.append("TRACE pericentre check: the pericentre switch never fired (peri_mode %s, dt %g): the dimension is not exercised" % (pname, dt))
            if not e <= 4e-3:
                c.violation("trace:pericentre-step:%s" % pname, "TRACE peri_mode=%s, dt=%g, %d steps flagged as pericentre approach: position error %.2e (class bound 4e-3)" % (pname, dt, flagged, e),
                            dict(system="m=1; m=3e-4 a=1 e=0.9 inc=0.3 omega=0.4 f=2.5; m=1e-3 a=5.2 e=0.05 f=1", peri_mode=pname, dt=dt, t=Tp, flagged_steps=flagged, error=e))
    for dt in (0.16, 0.08, 0.04):
        e0, eF = perr[(0, dt)][0], perr[(2, dt)][0]
        if not e0 <= 3 * eF + 1e-5:
            c.violation("trace:pericentre-step:PARTIAL_BS-vs-FULL_IAS15", "TRACE dt=%g: PARTIAL_BS error %.2e is much larger than FULL_IAS15 %.2e on the same flagged steps" % (dt, e0, eF),
                        dict(dt=dt, partial_bs=e0, full_ias15=eF, t=Tp))
    res["trace_pericentre_steps_error_flagged"] = {"%s/dt=%g" % (["PARTIAL_BS", "FULL_BS", "FULL_IAS15"][k[0]], k[1]): (float("%.2e" % v[0]), v[1]) for k, v in perr.items()}
    # ---------------- MERCURIUS / TRACE on steps that ARE flagged as a planet-planet close encounter (flag read from the integrator state
    #                  after every step): the changeover keeps second order and beats plain WHFast (clean tree: 4.1e-5 / 8.4e-5 at
    #                  dt = 0.04, 1.0e-5 / 2.1e-5 at 0.02; WHFast 1.8e-3 / 4.5e-4)
    def enc_setup():
        sim = rebound.Simulation()
        sim.add(m=1.0)
        sim.add(m=1e-4, a=1.0, e=0.01, f=0.0)
        sim.add(m=1e-4, a=1.07, e=0.01, f=0.9, inc=0.01)       # conjunction at t ~ 9, minimum distance 0.67 Hill radii
        sim.add(m=1e-3, a=4.0, e=0.05, f=1.0)
        sim.move_to_com()
        return sim
    Te = 20.0
    job = dict(kind="nbody", G=1.0, m=[1.0, 1e-4, 1e-4, 1e-3], active=4, tp_type=0, y0=state_of(enc_setup()), times=[Te])
    p = subprocess.run(["python3-vt", os.path.join(ROOT, "ref", "C01_reference.py")], input=json.dumps([job]), capture_output=True, text=True, timeout=600)
    if p.returncode != 0:
        raise Infra("reference (encounter system) failed: " + p.stderr[-500:])
    ej = json.loads(p.stdout)[0]
    if ej["err_est"] > 1e-8:
        raise Infra("reference of the encounter system not accurate enough: %.1e" % ej["err_est"])
    ers = ej["states"][repr(Te)]
    eerr = {}
    for integ in ("mercurius", "trace", "whfast"):
        for dt in (0.04, 0.02):
            sim = enc_setup()
            sim.integrator = integ
            n = int(round(Te / dt))
            sim.dt = Te / n
            flagged = 0
            for _ in range(n):
                sim.steps(1)
                if integ == "mercurius":
                    flagged += 1 if sim.ri_mercurius._encounter_N >= 2 else 0
                elif integ == "trace":
                    flagged += 1 if sim.ri_trace._encounter_N >= 2 else 0
            sim.synchronize()
            eerr[(integ, dt)] = (pos_err(state_of(sim), ers, 4), flagged)
            c.count(("encounter", integ, dt))
            if integ != "whfast":
                dimx("hybrid_integrators_on_flagged_close_encounter_steps", flagged)
                if flagged == 0:
                    c.broken.append("%s close-encounter check: no step was flagged as a close encounter (dt %g): the dimension is not exercised" % (integ, dt))
    for integ in ("mercurius", "trace"):
        e4, e2, w4 = eerr[(integ, 0.04)][0], eerr[(integ, 0.02)][0], eerr[("whfast", 0.04)][0]
        if not (e4 <= 4e-4 and e2 <= 1e-4 and e4 >= 2.5 * e2 * (1 if e2 > 1e-9 else 0) and e4 * 5 <= w4):
            c.violation("%s:close-encounter-step" % integ, "%s through a flagged planet-planet encounter: errors %.2e (dt=.04), %.2e (dt=.02); WHFast %.2e: class bounds 4e-4 / 1e-4, order >= 1.3, >= 5x better than WHFast" % (integ, e4, e2, w4),
                        dict(system="m=1; m=1e-4 a=1 e=.01; m=1e-4 a=1.07 e=.01 f=.9 inc=.01; m=1e-3 a=4 e=.05 f=1", integrator=integ, t=Te, errors=[e4, e2], whfast=w4))
    res["hybrid_close_encounter_error_flagged"] = {"%s/dt=%g" % k: (float("%.2e" % v[0]), v[1]) for k, v in eerr.items()}
    # ---------------- user ODEs carried along by an N-body integrator other than BS (the sub-stepping loop of reb_integrator_part2,
    #                  integrator.c; theorem c01_user_ode_interval): factors  carrier (fixed-step families AND the adaptive ones: IAS15
    #                  with epsilon > 0 in three adaptive modes, where r->dt != r->dt_last_done after every step)  x  call pattern  x
    #                  dt sign  x  degree.  A polynomial right-hand side of degree <= 3 is integrated exactly whatever the step sizes
    #                  are, as long as the sub-steps tile the time axis: the oracle does not depend on the step sequence.
    carriers = [("whfast", None), ("leapfrog", None), ("saba", None), ("eos", None), ("mercurius", None), ("janus", None), ("trace", None),
                ("ias15/fixed", lambda s_: setattr(s_.ri_ias15, "epsilon", 0)),
                ("ias15/adaptive-default", lambda s_: None),
                ("ias15/adaptive-eps1e-6-mode0", lambda s_: (setattr(s_.ri_ias15, "epsilon", 1e-6), setattr(s_.ri_ias15, "adaptive_mode", 0))),
                ("ias15/adaptive-eps1e-4-mode3", lambda s_: (setattr(s_.ri_ias15, "epsilon", 1e-4), setattr(s_.ri_ias15, "adaptive_mode", 3)))]
    patterns = ["one_integrate_exact0", "one_integrate_exact1", "three_integrates", "steps_then_integrate"]
    worst_ode = 0.0
    ode_pairs = set()
    combos = [(ca, pt, sg, dgr) for ca in carriers for pt in patterns for sg in (1, -1) for dgr in (1, 3)]
    for j, (ca, pt, sg, dgr) in enumerate(combos):
        if ca[0] == "trace" and sg < 0:
            continue
        if not c.thorough and j % 3 != c.seed % 3 and not ca[0].startswith("ias15/adaptive"):
            continue              # quick: a third of the fixed-step combinations per seed, every adaptive one
        sim = make_sim(rebound, bysys["heavy3" if ca[0].startswith("ias15") else "two_planets"])
        sim.integrator = ca[0].split("/")[0]
        if ca[1]:
            ca[1](sim)
        sim.ri_bs.eps_rel = 1e-6
        sim.ri_bs.eps_abs = 1e-6
        ode = sim.create_ode(length=1, needs_nbody=False)

        def rhs(o, yDot, y, t, dgr=dgr):
            yDot[0] = (t - 0.3) ** dgr
        ode.derivatives = rhs
        ode.y[0] = 0.7
        sim.dt = sg * 0.07
        Tq = sg * 3.0
        if pt == "one_integrate_exact0":
            sim.integrate(Tq, exact_finish_time=0)
        elif pt == "one_integrate_exact1":
            sim.integrate(Tq)
        elif pt == "three_integrates":
            sim.integrate(0.31 * Tq)
            sim.integrate(0.64 * Tq, exact_finish_time=0)
            sim.integrate(Tq)
        else:
            sim.steps(7)
            sim.integrate(Tq)
        exact = 0.7 + ((sim.t - 0.3) ** (dgr + 1) - (-0.3) ** (dgr + 1)) / (dgr + 1)
        rel = abs(ode.y[0] - exact) / abs(exact)
        worst_ode = max(worst_ode, rel)
        c.count(("ode-along", ca[0], pt, sg, dgr))
        dimx("user_ode_with_non_bs_integrator")
        if ca[0].startswith("ias15/adaptive"):
            dimx("user_ode_with_adaptive_non_bs_integrator")
        for pr in ((("carrier", ca[0]), ("pattern", pt)), (("carrier", ca[0]), ("dir", sg)), (("carrier", ca[0]), ("degree", dgr)),
                   (("pattern", pt), ("dir", sg)), (("pattern", pt), ("degree", dgr)), (("dir", sg), ("degree", dgr))):
            ode_pairs.add(pr)
        if not rel <= 1e-12:
            c.violation("user-ode:%s:polynomial-exactness" % ca[0], "user ODE y' = (t-0.3)^%d carried by %s (%s, initial dt=%g): relative error %.2e at t=%g" % (dgr, ca[0], pt, sg * 0.07, rel, sim.t),
                        dict(carrier=ca[0], pattern=pt, degree=dgr, dt=sg * 0.07, t=sim.t, y=ode.y[0], exact=exact, relative_error=rel,
                             system="heavy3" if ca[0].startswith("ias15") else "two_planets"))
    used("reb_ode_create"); used("py:create_ode")
    res["user_ode_with_non_bs_integrator_worst_relative_error"] = float("%.2e" % worst_ode)
    tot_ode = len(carriers) * (len(patterns) + 4) + len(patterns) * 4 + 4 - 1        # minus the excluded (trace, dir -1)
    if c.thorough and len(ode_pairs) < tot_ode:
        c.broken.append("pairwise coverage of the user-ODE factors incomplete: %d of %d" % (len(ode_pairs), tot_ode))
    c.cov["user_ode_pairs"] = {"covered": len(ode_pairs), "total": tot_ode, "factors": {"carrier": len(carriers), "pattern": len(patterns), "dir": 2, "degree": 2},
                               "excluded": ["carrier trace x dir -1 (F10)"]}
    # ---------------- net external force on the centre of mass: uniform field, exact solution x += g t^2/2
    sd = bysys["two_planets"]
    N = len(sd["bodies"])
    comres = {}
    for integ in ("whfast", "saba", "mercurius", "trace", "leapfrog", "ias15"):
        sim = make_sim(rebound, sd)
        sim.integrator = integ
        g = FIELD

        def frc(simp, g=g):
            s_ = simp.contents
            for i in range(s_.N):
                s_.particles[i].ax += g[0]
                s_.particles[i].ay += g[1]
                s_.particles[i].az += g[2]
        sim.additional_forces = frc
        sim.force_is_velocity_dependent = 0
        sim.dt = 0.01
        sim.steps(500)
        sim.synchronize()
        T_ = sim.t
        ms = [b["m"] for b in sd["bodies"]]
        com = [sum(ms[i] * getattr(sim.particles[i], k) for i in range(N)) / sum(ms) for k in "xyz"]
        comres[integ] = max(abs(com[k] - 0.5 * g[k] * T_ * T_) for k in range(3))
        c.count(("com-field", integ))
        dimx("additional_force_uniform_field")
        if comres[integ] > 1e-6:
            key = "C01:wh-family-net-external-force" if integ in WH_FAMILY else "%s:uniform-field-com" % integ
            c.violation(key, "%s: the centre of mass does not follow a uniform additional force (deviation %.3g after t=%g, expected shift %.3g)" %
                        (integ, comres[integ], T_, 0.5 * max(abs(x) for x in g) * T_ * T_), dict(integrator=integ, field=g, t=T_, deviation=comres[integ]))
    res["uniform_field_centre_of_mass_deviation"] = {k: float("%.2e" % v) for k, v in comres.items()}
    # ---------------- F18: second corrector: safe_mode 1 and 0 must agree to rounding
    sd = bysys["heavy3"]
    dif = {}
    for c2 in (0, 1):
        sims = []
        for safe in (1, 0):
            sim = make_sim(rebound, sd)
            sim.integrator = "whfast"
            sim.ri_whfast.corrector = 17
            sim.ri_whfast.kernel = "lazy"
            sim.ri_whfast.corrector2 = c2
            sim.ri_whfast.safe_mode = safe
            sim.dt = 0.1
            sim.steps(200)
            sim.synchronize()
            sims.append(state_of(sim))
        dif[c2] = max(abs(a - b) for pa, pb in zip(*sims) for a, b in zip(pa[:3], pb[:3]))
        c.count(("whfast-c2-safe", c2))
    res["whfast_safe_vs_unsafe_after_200_steps"] = {"corrector2=0": float("%.2e" % dif[0]), "corrector2=1": float("%.2e" % dif[1])}
    if dif[0] > 1e-11:
        c.violation("whfast:safe-vs-unsafe", "WHFast safe_mode=1 and safe_mode=0 disagree without second corrector: %.2e" % dif[0],
                    dict(system=sd, diff=dif[0]))
    if dif[1] > 1e-11 and dif[1] > 20 * dif[0]:
        c.violation("F18:whfast-corrector2-not-inverse",
                    "WHFast corrector2=1: safe_mode=1 and safe_mode=0 differ by %.2e (%.2e without corrector2): the inverse second corrector is not the inverse" % (dif[1], dif[0]),
                    dict(system=sd, diff=dif, settings=dict(corrector=17, kernel="lazy", corrector2=1, dt=0.1, steps=200)))
    # ---------------- F10 explicitly: TRACE backwards on the e = 0.95 system of DESIGN
    code = r"""
import sys, json
sys.path.insert(0, %r)
import warnings; warnings.filterwarnings("ignore")
import rebound
def mk(integ, dt, peri=None):
    sim = rebound.Simulation()
    sim.add(m=1.); sim.add(m=1e-3, a=1., e=0.95, f=3.0); sim.add(m=1e-3, a=3., e=0.1, f=1.0)
    sim.move_to_com(); sim.integrator = integ; sim.dt = dt
    if peri is not None: sim.ri_trace.peri_mode = peri
    return sim
out = {}
for sg in (1, -1):
    r = mk("ias15", sg*0.01); r.integrate(sg*6.)
    s = mk("trace", sg*0.01, %s); s.integrate(sg*6.)
    out[str(sg)] = max(((a.x-b.x)**2+(a.y-b.y)**2+(a.z-b.z)**2)**.5 for a, b in zip(s.particles, r.particles))
print(json.dumps(out))
"""
    f10 = {}
    for label, peri in (("FULL_BS(default)", "None"), ("PARTIAL_BS", "0"), ("FULL_IAS15", "2")):
        p = subprocess.run([sys.executable, "-c", code % (d, peri)], capture_output=True, text=True, timeout=300)
        if p.returncode != 0:
            f10[label] = "crash rc=%d" % p.returncode
        else:
            try:
                f10[label] = json.loads(p.stdout.strip().splitlines()[-1])
            except Exception:
                f10[label] = "unparsable"
        c.count(("trace-backward", label))
    res["trace_forward_vs_backward_error_e095"] = f10
    bad = [k for k, v in f10.items() if isinstance(v, str) or (isinstance(v, dict) and v.get("-1", 0) > 1e-2 and v.get("-1", 0) > 100 * v.get("1", 1))]
    if bad:
        c.violation("F10:trace-negative-dt", "TRACE with dt<0: %s" % f10, dict(result=f10, system="m=1; m=1e-3 a=1 e=0.95 f=3; m=1e-3 a=3 e=0.1 f=1; t=-6, dt=-0.01"))
    entry_points(c, rebound, clib, bysys, res)
    c.cov["adaptive_and_other_integrators"] = res
    applicable = ["N_active_lt_N_testparticle_type_0", "N_active_lt_N_testparticle_type_1", "massive_type0_testparticles", "massless_type1_testparticles",
                  "zero_mass_active_body", "single_active_body", "G_not_1", "softening", "unequal_janus_scales", "safe_mode_0_three_integrate_calls",
                  "keep_unsynchronized_with_explicit_synchronize", "nondefault_integrator_options", "dt_negative", "direction_reversal_between_calls",
                  "integrate_split_into_calls", "exact_finish_time_1", "dt_longer_than_period", "additional_force_uniform_field", "callbacks_installed",
                  "variational_particles_present", "integrator_switch_midrun", "restore_midrun_copy", "restore_midrun_archive",
                  "moving_centre_of_mass", "com_offset_and_boost", "hyperbolic_member",
                  "trace_peri_mode_on_flagged_pericentre_steps",
                  "hybrid_integrators_on_flagged_close_encounter_steps", "user_ode_with_non_bs_integrator", "user_ode_with_adaptive_non_bs_integrator",
                  "user_rewrites_particles_and_sets_recalculation_flags", "user_changes_dt_between_calls", "event_adjacency_next_step",
                  "c_entry_points_as_stepper"]
    for dn in applicable:
        dimc.setdefault(dn, 0)
        if dimc[dn] == 0 and not getattr(c, "_focus", None):
            c.broken.append("dimension %s not covered by any evaluated case" % dn)


if __name__ == "__main__":
    main("C01", run)
