"""C15 translator: the schedule of boundary checks / tree updates inside reb_simulation_step (rebound.c) and at the end of
reb_collision_search (collision.c), with the guards under which they run, as Lean data (RV/Gen/C15Schedule.lean).
The guards are parsed into a small boolean AST over named atoms; anything the parser does not recognise is an error."""
import os, re

CALLS = ["reb_integrator_part1", "reb_boundary_check", "reb_simulation_update_tree_gravity_data", "reb_simulation_update_tree",
         "reb_calculate_acceleration", "reb_integrator_part2", "reb_collision_search"]
ATOMS = [
    (r"r->tree_needs_update", "needsUpdate"),
    (r"r->gravity\s*==\s*REB_GRAVITY_TREE", "gravTree"),
    (r"r->collision\s*==\s*REB_COLLISION_TREE", "collTree"),
    (r"r->collision\s*==\s*REB_COLLISION_LINETREE", "collLineTree"),
    (r"r->tree_root\s*!=\s*NULL", "hasTree"),
    (r"r->tree_root", "hasTree"),
    (r"tree_particles_flagged", "collFlagged"),
]
IGNORED_GUARDS = [r"r->pre_timestep_modifications", r"r->post_timestep_modifications", r"r->N_var", r"r->additional_forces",
                  r"r->walltime_last_steps_sum"]


class ExtractError(Exception):
    pass


def strip(src):
    src = re.sub(r"/\*.*?\*/", "", src, flags=re.S)
    src = re.sub(r"//[^\n]*", "", src)
    src = re.sub(r"PROFILING_(START|STOP)\([^)]*\)", "", src)
    out, skip = [], 0
    for l in src.splitlines():
        t = l.strip()
        if t.startswith("#ifdef MPI") or t.startswith("#if defined(MPI)"):
            skip += 1
            continue
        if skip and t.startswith("#endif"):
            skip -= 1
            continue
        if skip or t.startswith("#"):
            continue
        out.append(l)
    return "\n".join(out)


def body_of(src, header_re):
    m = re.search(header_re, src, flags=re.M)
    if not m:
        raise ExtractError("function not found: " + header_re)
    i = src.index("{", m.end() - 1)
    depth, j = 0, i
    while True:
        if src[j] == "{":
            depth += 1
        elif src[j] == "}":
            depth -= 1
            if depth == 0:
                return src[i + 1:j]
        j += 1


def parse_guard(text):
    """C condition -> Lean term of type Guard (or/and over atoms)"""
    text = text.strip()
    toks = []
    pos = 0
    while pos < len(text):
        if text[pos].isspace():
            pos += 1
            continue
        if text.startswith("||", pos):
            toks.append("||"); pos += 2; continue
        if text.startswith("&&", pos):
            toks.append("&&"); pos += 2; continue
        if text[pos] in "()":
            toks.append(text[pos]); pos += 1; continue
        for pat, name in ATOMS:
            m = re.compile(pat).match(text, pos)
            if m:
                toks.append(("atom", name)); pos = m.end(); break
        else:
            raise ExtractError("unrecognised condition: %r at %r" % (text, text[pos:pos + 30]))
    p = [0]

    def atom():
        t = toks[p[0]]
        if t == "(":
            p[0] += 1
            e = por()
            if toks[p[0]] != ")":
                raise ExtractError("unbalanced: " + text)
            p[0] += 1
            return e
        if isinstance(t, tuple):
            p[0] += 1
            return ".atom .%s" % t[1]
        raise ExtractError("unexpected token in " + text)

    def pand():
        e = atom()
        while p[0] < len(toks) and toks[p[0]] == "&&":
            p[0] += 1
            e = "(.and (%s) (%s))" % (e, atom())
        return e

    def por():
        e = pand()
        while p[0] < len(toks) and toks[p[0]] == "||":
            p[0] += 1
            e = "(.or (%s) (%s))" % (e, pand())
        return e
    e = por()
    if p[0] != len(toks):
        raise ExtractError("trailing tokens in " + text)
    return e


def _block_end(body, k):
    """k at '{' -> index after the matching '}'"""
    depth = 0
    while True:
        depth += {"{": 1, "}": -1}.get(body[k], 0)
        k += 1
        if depth == 0:
            return k


def walk(body, guards, out):
    """flatten the `if (c) { ... }` nesting into (call, guards) in source order; loops / switch / else blocks are
    descended without a guard (an `else` branch that contains one of the calls is an error)"""
    i, n = 0, len(body)
    while i < n:
        while i < n and (body[i].isspace() or body[i] == ";"):
            i += 1
        if i >= n:
            break
        m = re.compile(r"(else\s+)?if\s*\(").match(body, i)
        if m:
            j, depth = m.end(), 1
            while depth:
                depth += {"(": 1, ")": -1}.get(body[j], 0)
                j += 1
            cond = body[m.end():j - 1]
            k = j
            while body[k].isspace():
                k += 1
            if body[k] == "{":
                e = _block_end(body, k)
                blk = body[k + 1:e - 1]
            else:
                e = body.index(";", k) + 1
                blk = body[k:e]
            if any(c + "(" in blk for c in CALLS):
                if any(re.search(p_, cond) for p_ in IGNORED_GUARDS):
                    raise ExtractError("a boundary/tree call under an unexpected guard: " + cond)
                walk(blk, guards + [cond.strip()], out)
            i = e
            continue
        m = re.compile(r"else\s*\{").match(body, i)
        if m:
            e = _block_end(body, m.end() - 1)
            if any(c + "(" in body[m.end():e] for c in CALLS):
                raise ExtractError("a boundary/tree call inside an else branch")
            i = e
            continue
        # generic statement or block header: up to the first ';' or '{' outside parentheses
        j, depth = i, 0
        while j < n and not (depth == 0 and body[j] in ";{"):
            depth += {"(": 1, ")": -1}.get(body[j], 0)
            j += 1
        if j >= n:
            break
        if body[j] == ";":
            st = body[i:j].strip()
            m2 = re.match(r"(\w+)\s*\(", st)
            if m2 and m2.group(1) in CALLS:
                out.append((m2.group(1), list(guards)))
            i = j + 1
        else:
            e = _block_end(body, j)
            walk(body[j + 1:e - 1], guards, out)
            i = e
    return out


def extract(repo_src):
    reb = strip(open(os.path.join(repo_src, "rebound.c")).read())
    col = strip(open(os.path.join(repo_src, "collision.c")).read())
    step = walk(body_of(reb, r"^void\s+reb_simulation_step\s*\("), [], [])
    search = body_of(col, r"^void\s+reb_collision_search\s*\(")
    # tree searches update the tree before they walk it
    pre = {}
    for kind in ("TREE", "LINETREE"):
        m = re.search(r"case\s+REB_COLLISION_%s\s*:(.*?)\bbreak\s*;\s*(case|default|\})" % kind, search, flags=re.S)
        if not m:
            raise ExtractError("case REB_COLLISION_%s not found" % kind)
        blk = m.group(1)
        iu, il = blk.find("reb_simulation_update_tree("), blk.find("N_ghost_xcol")
        if il < 0:
            raise ExtractError("ghost-box loop of the %s search not found" % kind)
        pre[kind] = 0 <= iu < il
    # the clean-up after the resolve loop: the calls guarded by the flag that the resolve loop sets
    allc = walk(search, [], [])
    end = [c for c in allc if any("tree_particles_flagged" in g for g in c[1])]
    return step, pre, end


def lean_file(step, pre, end):
    def item(c):
        call, gs = c
        g = ".tt"
        for x in gs:
            g = parse_guard(x) if g == ".tt" else "(.and (%s) (%s))" % (g, parse_guard(x))
        return "  (.%s, %s)" % ({"reb_integrator_part1": "part1", "reb_boundary_check": "boundaryCheck",
                                 "reb_simulation_update_tree_gravity_data": "gravityData",
                                 "reb_simulation_update_tree": "updateTree", "reb_calculate_acceleration": "acceleration",
                                 "reb_integrator_part2": "part2", "reb_collision_search": "collisionSearch"}[call], g)
    s = ["/- generated by rv/extract_c15.py from src/rebound.c (reb_simulation_step) and src/collision.c (reb_collision_search); do not edit -/",
         "import RV.Model.StepSchedule", "namespace RV.Gen.C15", "open RV.StepSchedule", "",
         "/-- calls of reb_simulation_step that touch positions, the boundary or the tree, in source order, with their guards -/",
         "def stepCalls : List (Call × Guard) := [", ",\n".join(item(c) for c in step), "]", "",
         "/-- does the TREE / LINETREE collision search update the tree before walking it? -/",
         "def treeSearchUpdatesFirst : Bool := %s" % ("true" if pre["TREE"] else "false"),
         "def lineTreeSearchUpdatesFirst : Bool := %s" % ("true" if pre["LINETREE"] else "false"), "",
         "/-- clean-up at the end of reb_collision_search -/",
         "def searchEndCalls : List (Call × Guard) := [", ",\n".join(item(c) for c in end), "]", "",
         "def stepCallCount : Nat := %d" % len(step), "def searchEndCallCount : Nat := %d" % len(end), "",
         "end RV.Gen.C15", ""]
    return "\n".join(s)


if __name__ == "__main__":
    import sys
    st, pre, end = extract(sys.argv[1] if len(sys.argv) > 1 else "/repo/src")
    for c in st:
        print(c)
    print(pre)
    print(end)
    print(lean_file(st, pre, end))
