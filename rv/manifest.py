"""regenerates MANIFEST.json from the table below (keeps it valid at all times)"""
import json, os
ROOT = os.path.dirname(os.path.dirname(os.path.abspath(__file__)))
TB = ("Lean 4.33 kernel + axioms propext/Classical.choice/Quot.sound (audited per theorem each run, no native_decide/bv_decide/sorry); "
      "Mathlib modules imported by RV/Proofs; ")
CHECKS = {
 "C12": dict(
   text="Proof (exact arithmetic, any field, every N and N_active, zero masses allowed) that each of the Jacobi, democratic-heliocentric, WHDS and barycentric transformations, and the in-place heliocentric maps of MERCURIUS/TRACE, is inverted by its inverse and that slot 0 is (total active mass, centre of mass): 11 theorems in lean/RV/Props/C12.lean about lean/RV/Model/Transform.lean; plus 6 theorems in lean/RV/Props/C12Frame.lean about the public frame changes of tools.c (move_to_hel: slot 0 at the origin, coordinates relative to particle 0, inverted by adding particle 0 back, idempotent; move_to_com: inverted by adding the centre of mass back, afterwards mass-weighted sum 0 and reb_simulation_com = origin; com = mass-weighted mean of all real particles). The model is hand-written, per Cartesian component, in the operation order of the C source; the same definitions run on IEEE doubles (native driver drv_c12) and are compared on every run, bit for bit (alarm threshold 64*N ulp), with all 17 exported reb_particles_transform_* routines (pos/posvel/posvelacc/acc variants), the MERCURIUS/TRACE maps and reb_simulation_com / move_to_hel / move_to_com (with variational particles behind the real ones). A search asserts the property itself on the real code (round trip, COM by fsum, variants agree); an LD_PRELOAD shim records the (N, N_active) split every integrator call site hands to a transformation and to its inverse (WHFast/SABA option lattice x test-particle, variational, dt<0 splits); an integrator-level frame-covariance test compares runs of a shifted+boosted twin. coverage.dimensions lists the evaluated cases per configuration dimension; a zero count is a broken obligation.",
   note=TB + "hand-written model tied by differential correspondence on generated inputs; IEEE rounding is outside the theorems (measured only).",
   technique="Lean 4 theorems over a field + Float-model/C bitwise correspondence",
   ref="DESIGN.md section 3 C12"),
}
NA = {}
ALL = ["C%02d" % i for i in range(1, 21)]

def main():
    ed = os.path.join(ROOT, 'rv', 'manifest_entries')
    if os.path.isdir(ed):
        for f in sorted(os.listdir(ed)):
            if f.endswith('.json'):
                e = json.load(open(os.path.join(ed, f)))
                if e.get('not_applicable'):
                    NA[f[:-5]] = e['not_applicable']
                else:
                    e.setdefault('note', '')
                    e['note'] = TB + e['note']
                    CHECKS[f[:-5]] = e
    checks = []
    for pid in ALL:
        if pid in CHECKS:
            c = CHECKS[pid]
            checks.append({
              "property_id": pid,
              "quick_cmd": "./check %s --tier quick" % pid,
              "thorough_cmd": "./check %s --tier thorough" % pid,
              "evidence_file": "evidence/%s.json" % pid,
              "replay_cmd_template": "./check %s --replay {path}" % pid,
              "engine": "lean-rv",
              "level_claimed": {"category": c.get("category", "proof"), "text": c["text"], "design_ref": c["ref"]},
              "level_note": c["note"],
              "technique": c["technique"]})
    na = [{"property_id": p, "reason": NA.get(p, "check not built yet in this round (design in DESIGN.md section 3); not claimed")}
          for p in ALL if p not in CHECKS]
    m = {"version": 1,
         "setup_cmd": "./setup.sh",
         "hooks": {"guard": "REBOUND_VERIF", "enable": "no hooks: checks copy /repo/src and /repo/rebound to a scratch dir and build librebound with the repo's flags (rv/common.py build())",
                   "baseline_off_cmd": "cd /repo && /venv/bin/python -m pytest -ra -q -p no:cacheprovider --timeout=900 --continue-on-collection-errors",
                   "source_commits": [], "add_only": True},
         "engines": [{"name": "lean-rv", "path": "lean/", "serves_properties": sorted(CHECKS),
                      "kind_free_text": "Lean 4 models (RV/Model), theorems (RV/Props), generated tables (RV/Gen), native line-protocol drivers; Python orchestration in rv/"}],
         "checks": checks,
         "notes": "Every check: scratch build of /repo's working tree -> regenerate RV/Gen from source -> lake build of the property theorems + axiom audit -> model/implementation correspondence -> search for a failing input on the real code. See DESIGN.md.",
         "not_applicable": na}
    with open(os.path.join(ROOT, "MANIFEST.json"), "w") as f:
        json.dump(m, f, indent=1)

if __name__ == "__main__":
    main()
