"""regenerates MANIFEST.json from the table below (keeps it valid at all times)"""
import json, os
ROOT = os.path.dirname(os.path.dirname(os.path.abspath(__file__)))
TB = ("Lean 4.33 kernel + axioms propext/Classical.choice/Quot.sound (audited per theorem each run, no native_decide/bv_decide/sorry); "
      "Mathlib modules imported by RV/Proofs; ")
CHECKS = {
 "C12": dict(
   text="Proof (exact arithmetic, any field, every N and N_active, zero masses allowed) that each of the Jacobi, democratic-heliocentric, WHDS and barycentric transformations is inverted by its inverse and that slot 0 is (total active mass, centre of mass): 8 theorems in lean/RV/Props/C12.lean about lean/RV/Model/Transform.lean. The model is hand-written, per Cartesian component, in the operation order of transformations.c; the same definitions run on IEEE doubles (native driver drv_c12) and are compared with all 17 exported reb_particles_transform_* routines (pos/posvel/posvelacc/acc variants) on every run, bit for bit (alarm threshold 64*N ulp). A search asserts the property itself on the real code (round trip, COM by fsum).",
   note=TB + "hand-written model tied by differential correspondence on generated inputs; IEEE rounding is outside the theorems (measured only).",
   technique="Lean 4 theorems over a field + Float-model/C bitwise correspondence",
   ref="DESIGN.md section 3 C12"),
}
NA = {}
ALL = ["C%02d" % i for i in range(1, 21)]

def main():
    ed = os.path.join(ROOT, 'rv', 'manifest_entries')
    if os.path.isdir(ed):
        for f in sorted(os.listdir(ed)):
            if f.endswith('.json'):
                e = json.load(open(os.path.join(ed, f)))
                if e.get('not_applicable'):
                    NA[f[:-5]] = e['not_applicable']
                else:
                    e.setdefault('note', '')
                    e['note'] = TB + e['note']
                    CHECKS[f[:-5]] = e
    checks = []
    for pid in ALL:
        if pid in CHECKS:
            c = CHECKS[pid]
            checks.append({
              "property_id": pid,
              "quick_cmd": "./check %s --tier quick" % pid,
              "thorough_cmd": "./check %s --tier thorough" % pid,
              "evidence_file": "evidence/%s.json" % pid,
              "replay_cmd_template": "./check %s --replay {path}" % pid,
              "engine": "lean-rv",
              "level_claimed": {"category": c.get("category", "proof"), "text": c["text"], "design_ref": c["ref"]},
              "level_note": c["note"],
              "technique": c["technique"]})
    na = [{"property_id": p, "reason": NA.get(p, "check not built yet in this round (design in DESIGN.md section 3); not claimed")}
          for p in ALL if p not in CHECKS]
    m = {"version": 1,
         "setup_cmd": "./setup.sh",
         "hooks": {"guard": "REBOUND_VERIF", "enable": "no hooks: checks copy /repo/src and /repo/rebound to a scratch dir and build librebound with the repo's flags (rv/common.py build())",
                   "baseline_off_cmd": "cd /repo && /venv/bin/python -m pytest -ra -q -p no:cacheprovider --timeout=900 --continue-on-collection-errors",
                   "source_commits": [], "add_only": True},
         "engines": [{"name": "lean-rv", "path": "lean/", "serves_properties": sorted(CHECKS),
                      "kind_free_text": "Lean 4 models (RV/Model), theorems (RV/Props), generated tables (RV/Gen), native line-protocol drivers; Python orchestration in rv/"}],
         "checks": checks,
         "notes": "Every check: scratch build of /repo's working tree -> regenerate RV/Gen from source -> lake build of the property theorems + axiom audit -> model/implementation correspondence -> search for a failing input on the real code. See DESIGN.md.",
         "not_applicable": na}
    with open(os.path.join(ROOT, "MANIFEST.json"), "w") as f:
        json.dump(m, f, indent=1)

if __name__ == "__main__":
    main()
