"""C04 — isolated systems conserve momentum, angular momentum and (as advertised) energy;
the diagnostics return the defined quantities.

proof:   lean/RV/Props/C04.lean about lean/RV/Model/Diag.lean (+ Model/Gravity.lean): diagnostics =
         defining sums; kick/drift primitives and the LEAPFROG step conserve P, L and move the
         COM uniformly for every N and every number of steps (uses C02's Newton-3 / torque
         theorems about the BASIC loop nest); merge conserves m, P, COM.
tie:     Float instance (drv_c04) vs reb_simulation_energy / _angular_momentum / _com,
         reb_collision_resolve_merge and whole LEAPFROG steps of the scratch build, bit for bit.
search:  P, L, COM recomputed with math.fsum from the raw particle arrays between steps for all
         integrators x options, interleaved synchronize calls, merging collisions.
"""
import ctypes, math, os, sys
sys.path.insert(0, os.path.dirname(os.path.abspath(__file__)))
from common import *

EPS = 2.220446049250313e-16


def part_tokens(ps):
    t = []
    for p in ps:
        t += [d2h(v) for v in p]
    return t


def gen_parts(rng, n):
    m0 = rng.loguniform(1e-3, 1e3)
    kind = rng.randint(0, 3)
    scale = rng.loguniform(1e-2, 1e2)
    vs = rng.loguniform(1e-2, 1e2)
    off = [rng.normal() * scale * rng.choice([0, 1, 10]) for _ in range(3)]
    voff = [rng.normal() * vs * rng.choice([0, 1, 10]) for _ in range(3)]
    ps = []
    for i in range(n):
        if kind == 0:
            m = m0 * 10 ** (-rng.uniform(0, 12))
        elif kind == 1:
            m = m0 * rng.uniform(0.1, 2)
        elif kind == 2:
            m = 0.0 if rng.chance(0.4) else m0 * 10 ** (-rng.uniform(0, 6))
        else:
            m = m0
        ps.append([m] + [off[c] + rng.normal() * scale for c in range(3)] + [voff[c] + rng.normal() * vs for c in range(3)])
    return ps, kind


# ----------------------------------------------------------------------------- oracle quantities (fsum, raw arrays)
def raw(sim):
    n = sim.N - sim.N_var          # real particles only (variational particles sit behind them in the array)
    p = sim.particles
    return [(p[i].m, p[i].x, p[i].y, p[i].z, p[i].vx, p[i].vy, p[i].vz) for i in range(n)]


def invariants(ps, G):
    M = math.fsum(p[0] for p in ps)
    P = [math.fsum(p[0] * p[4 + c] for p in ps) for c in range(3)]
    R = [math.fsum(p[0] * p[1 + c] for p in ps) for c in range(3)]
    Lx = math.fsum(v for p in ps for v in (p[0] * p[2] * p[6], -p[0] * p[3] * p[5]))
    Ly = math.fsum(v for p in ps for v in (p[0] * p[3] * p[4], -p[0] * p[1] * p[6]))
    Lz = math.fsum(v for p in ps for v in (p[0] * p[1] * p[5], -p[0] * p[2] * p[4]))
    Pscale = math.fsum(abs(p[0]) * math.sqrt(p[4] ** 2 + p[5] ** 2 + p[6] ** 2) for p in ps)
    Lscale = math.fsum(abs(p[0]) * math.sqrt(p[1] ** 2 + p[2] ** 2 + p[3] ** 2) * math.sqrt(p[4] ** 2 + p[5] ** 2 + p[6] ** 2) for p in ps)
    kin = math.fsum(0.5 * p[0] * (p[4] ** 2 + p[5] ** 2 + p[6] ** 2) for p in ps)
    pot = []
    for i in range(len(ps)):
        for j in range(i + 1, len(ps)):
            d = math.sqrt((ps[i][1] - ps[j][1]) ** 2 + (ps[i][2] - ps[j][2]) ** 2 + (ps[i][3] - ps[j][3]) ** 2)
            pot.append(-G * ps[i][0] * ps[j][0] / d)
    return dict(M=M, P=P, R=R, L=[Lx, Ly, Lz], Pscale=Pscale, Lscale=Lscale, E=kin + math.fsum(pot), Escale=abs(kin) + abs(math.fsum(pot)))


def norm(v):
    return math.sqrt(sum(x * x for x in v))


def rejected_step_signature(dRv, Vc, dt):
    """finding FC04a: is the COM residual k * dt * V_com for an integer k >= 1 ?"""
    if not any(Vc):
        return None
    kq = sum(a * b for a, b in zip(dRv, Vc)) / (dt * sum(b * b for b in Vc))
    kr = round(kq)
    if kr >= 1 and norm([a - kr * dt * b for a, b in zip(dRv, Vc)]) <= 1e-7 * norm(dRv):
        return kr
    return None


# ----------------------------------------------------------------------------- integrator configurations
WH_CORR = [0, 3, 5, 7, 11, 17]
SABA = ["1", "2", "3", "4", "cm1", "cm2", "cm3", "cm4", "cl1", "cl2", "cl3", "cl4", "10,4", "8,6,4", "10,6,4", "h8,4,4", "h8,6,4", "h10,6,4"]
EOS = ["lf", "lf4", "lf6", "lf8", "lf4_2", "lf8_6_4", "plf7_6_4", "pmlf4", "pmlf6"]


def all_configs():
    cfgs = []
    for coords in ("jacobi", "democraticheliocentric", "whds", "barycentric"):
        kernels = ["default", "modifiedkick", "composition", "lazy"] if coords == "jacobi" else ["default"]
        corrs = WH_CORR if coords in ("jacobi", "barycentric") else [0]
        for k in kernels:
            for co in corrs:
                for c2 in ((0, 1) if (coords == "jacobi" and co) else (0,)):
                    for safe in (1, 0):
                        cfgs.append(dict(integrator="whfast", coordinates=coords, kernel=k, corrector=co, corrector2=c2, safe_mode=safe))
    for ty in SABA:
        for safe in (1, 0):
            cfgs.append(dict(integrator="saba", type=ty, safe_mode=safe))
    for p0 in EOS:
        for p1 in EOS:
            cfgs.append(dict(integrator="eos", phi0=p0, phi1=p1, n=2, safe_mode=1))
    cfgs.append(dict(integrator="eos", phi0="lf4", phi1="lf", n=4, safe_mode=0))
    for p0 in EOS:          # unsynchronised mode: the closing drift of a step is merged with the opening drift of the next (dtfac)
        for p1 in ("lf", "lf4", "pmlf4"):
            cfgs.append(dict(integrator="eos", phi0=p0, phi1=p1, n=2, safe_mode=0))
    cfgs.append(dict(integrator="leapfrog"))
    for order in (2, 4, 6, 8, 10):
        cfgs.append(dict(integrator="janus", order=order))
    for L in ("mercury", "C4", "C5", "infinity"):
        for safe in (1, 0):
            cfgs.append(dict(integrator="mercurius", L=L, safe_mode=safe))
    for pm in (0, 1, 2):
        cfgs.append(dict(integrator="trace", peri_mode=pm))
    cfgs.append(dict(integrator="ias15"))
    cfgs.append(dict(integrator="ias15", adaptive_mode=1))
    cfgs.append(dict(integrator="bs"))
    # non-default adaptive / hybrid options
    cfgs.append(dict(integrator="ias15", epsilon=1e-7, min_dt=1e-4))
    cfgs.append(dict(integrator="ias15", adaptive_mode=0, epsilon=1e-8))
    cfgs.append(dict(integrator="ias15", adaptive_mode=3))
    cfgs.append(dict(integrator="ias15", epsilon=0.0))                 # fixed step
    cfgs.append(dict(integrator="bs", eps_abs=1e-10, eps_rel=1e-10))
    cfgs.append(dict(integrator="bs", max_dt=0.05, min_dt=1e-6))
    cfgs.append(dict(integrator="mercurius", L="C4", safe_mode=1, r_crit_hill=5.0))
    cfgs.append(dict(integrator="trace", peri_mode=0, r_crit_hill=5.0, peri_crit_eta=0.5))
    cfgs.append(dict(integrator="janus", order=6, scale_ratio=100.0))   # unequal position / velocity scales
    cfgs.append(dict(integrator="whfast", coordinates="jacobi", kernel="default", corrector=11, corrector2=0, safe_mode=0, keep_unsynchronized=1))
    cfgs.append(dict(integrator="saba", type="10,6,4", safe_mode=0, keep_unsynchronized=1))
    for g in ("compensated", "jacobi"):
        cfgs.append(dict(integrator="whfast", coordinates="jacobi", kernel="default", corrector=0, corrector2=0, safe_mode=1, gravity=g))
    cfgs.append(dict(integrator="leapfrog", gravity="compensated"))
    cfgs.append(dict(integrator="ias15", gravity="compensated"))
    return cfgs


def cfg_key(cf):
    return ",".join("%s=%s" % (k, cf[k]) for k in sorted(cf))


FIXED_SYMPLECTIC = {"whfast", "saba", "eos", "leapfrog", "janus"}


def thresholds(cf):
    """(dP, dL, dCOM, dE) relative bounds; calibrated on the unchanged tree (DESIGN C04) with a margin >= 10"""
    it = cf["integrator"]
    dP, dL, dR = 1e-10, 1e-9, 1e-9
    if it == "bs":
        dL, dP, dR = 1e-8, 1e-9, 1e-8
    # energy: accuracy-class bounds (calibrated over all four families in the thorough tier on the unchanged tree:
    # ias15 4e-16, bs 1.5e-9, whfast/saba 6e-5 (mu=1e-3, dt=P/30), eos 2e-7, leapfrog 7e-3 (close pair), hybrid 4e-5)
    if it == "ias15":
        dE = 1e-12
    elif it == "bs":
        dE = 1e-7
    elif it == "leapfrog":
        dE = 5e-2
    elif it == "janus":
        dE = 5e-2 if cf.get("order", 6) == 2 else 1e-3
    elif it == "eos":
        dE = 5e-2
    elif it in ("mercurius", "trace"):
        dE = 1e-3
    else:
        dE = 1e-3
    if it == "ias15" and ("epsilon" in cf or "min_dt" in cf):
        # loosened precision parameter / a floor on the step: no longer "machine precision" (1.8e-6 measured with min_dt=1e-4 in a close encounter)
        dE = 1e-4
    if it == "ias15" and cf.get("epsilon") == 0.0:
        # fixed-step IAS15 at dt = P/30 is not converged to machine precision (measured 8e-6 / 2.5e-8 on the clean tree)
        dE, dL = 1e-4, 1e-6
    if it == "janus" and cf.get("scale_ratio", 1.0) != 1.0:
        # coarser velocity grid: rounding to the grid is 1e-13 relative per step (measured 4e-10 / 1e-9)
        dP, dL, dR = 1e-8, 1e-7, 1e-8
    return dP, dL, dR, dE


def apply_cfg(sim, cf):
    sim.integrator = cf["integrator"]
    it = cf["integrator"]
    if it == "whfast":
        w = sim.ri_whfast
        w.coordinates = cf["coordinates"]
        w.kernel = cf["kernel"]
        w.corrector = cf["corrector"]
        w.corrector2 = cf["corrector2"]
        w.safe_mode = cf["safe_mode"]
        if cf.get("keep_unsynchronized"):
            w.keep_unsynchronized = 1
    elif it == "saba":
        sim.ri_whfast.coordinates = "jacobi"      # SABA requires Jacobi coordinates (it raises otherwise)
        sim.ri_saba.type = cf["type"]
        sim.ri_saba.safe_mode = cf["safe_mode"]
        if cf.get("keep_unsynchronized"):
            sim.ri_saba.keep_unsynchronized = 1
    elif it == "eos":
        sim.ri_eos.phi0 = cf["phi0"]
        sim.ri_eos.phi1 = cf["phi1"]
        sim.ri_eos.n = cf["n"]
        sim.ri_eos.safe_mode = cf["safe_mode"]
    elif it == "janus":
        sim.ri_janus.order = cf["order"]
        sim.ri_janus.scale_pos = 1e-16
        sim.ri_janus.scale_vel = 1e-16
    elif it == "mercurius":
        sim.ri_mercurius.L = cf["L"]
        sim.ri_mercurius.safe_mode = cf["safe_mode"]
        sim.ri_mercurius.r_crit_hill = cf.get("r_crit_hill", 3.0)
    elif it == "trace":
        sim.ri_trace.peri_mode = cf["peri_mode"]     # integer: the ctypes field shadows the string property (F6)
        if "r_crit_hill" in cf:
            sim.ri_trace.r_crit_hill = cf["r_crit_hill"]
        if "peri_crit_eta" in cf:
            sim.ri_trace.peri_crit_eta = cf["peri_crit_eta"]
    elif it == "ias15":
        if "adaptive_mode" in cf:
            sim.ri_ias15.adaptive_mode = cf["adaptive_mode"]
        if "epsilon" in cf:
            sim.ri_ias15.epsilon = cf["epsilon"]
        if "min_dt" in cf:
            sim.ri_ias15.min_dt = cf["min_dt"]
    elif it == "bs":
        for k_ in ("eps_abs", "eps_rel", "min_dt", "max_dt"):
            if k_ in cf:
                setattr(sim.ri_bs, k_, cf[k_])
    if "gravity" in cf:
        sim.gravity = cf["gravity"]


def gen_system(rng, family):
    """bounded few-body systems in the stable regime, every particle active, net COM motion"""
    bodies = []   # (m, a, e, inc, Omega, omega, f)
    if family == 0:      # star + 2..4 planets, hierarchical
        n = rng.randint(2, 4)
        a = 1.0
        for i in range(n):
            bodies.append((10 ** (-rng.uniform(3, 5)), a, rng.uniform(0, 0.08), rng.uniform(0, 0.1), rng.uniform(0, 6.28), rng.uniform(0, 6.28), rng.uniform(0, 6.28)))
            a *= rng.uniform(1.6, 2.0)
        m0 = 1.0
    elif family == 1:    # massive planets (Jupiter/Saturn like) + a zero-mass active body
        m0 = 1.0
        bodies = [(1e-3, 1.0, 0.05, 0.02, 0.3, 1.0, 0.1), (3e-4, 1.9, 0.05, 0.04, 2.0, 0.5, 3.0), (0.0, 3.4, 0.02, 0.01, 1.0, 2.0, 5.0)]
    elif family == 2:    # different units: G != 1
        m0 = 1.989e30
        bodies = [(5.97e24 * rng.uniform(0.5, 2), 1.496e11, 0.0167, 0.01, 0.1, 1.8, 0.3), (1.9e27, 7.78e11, 0.048, 0.02, 1.7, 4.8, 1.0)]
    else:                # close pair of planets: encounters for the hybrid schemes
        m0 = 1.0
        bodies = [(3e-5, 1.0, 0.01, 0.001, 0.0, 0.0, 0.0), (3e-5, 1.0 + rng.uniform(0.02, 0.035), 0.01, 0.001, 0.0, 0.0, rng.uniform(-0.05, 0.15)), (1e-5, 2.2, 0.03, 0.02, 1.0, 1.0, 2.0)]
    return m0, bodies, (6.6743e-11 if family == 2 else 1.0)


def build_sim(rebound, m0, bodies, G, boost, cf, dt):
    sim = rebound.Simulation()
    sim.G = G
    sim.add(m=m0)
    for (m, a, e, inc, Om, om, f) in bodies:
        sim.add(m=m, a=a, e=e, inc=inc, Omega=Om, omega=om, f=f)
    sim.move_to_com()
    vsc = math.sqrt(G * m0 / bodies[0][1])
    for i in range(sim.N):
        p = sim.particles[i]
        p.x += boost[0] * bodies[0][1]; p.y += boost[1] * bodies[0][1]; p.z += boost[2] * bodies[0][1]
        p.vx += boost[3] * vsc; p.vy += boost[4] * vsc; p.vz += boost[5] * vsc
    apply_cfg(sim, cf)
    if cf["integrator"] == "janus":     # integer grid: resolution relative to the system's units
        sim.ri_janus.scale_pos = 1e-15 * bodies[0][1]
        sim.ri_janus.scale_vel = 1e-15 * vsc * cf.get("scale_ratio", 1.0)
    sim.dt = dt
    return sim


def run(c):
    d = build()
    rebound = use_scratch_rebound(d)
    clib = rebound.clibrebound
    ok = c.prove(["RV.Props.C04"])
    exe = lean_exe("drv_c04")
    T = 10 if c.thorough else 1
    c.cov["rule"] = ("tie: random particle sets (N 0..40, 4 mass families incl. zeros, N_active, testparticle_type, energy_offset) through the exported diagnostics, "
                     "reb_collision_resolve_merge and whole LEAPFROG steps, compared bitwise with the Lean Float model; search: 4 families of bounded few-body systems "
                     "(all particles active, boosted centre of mass) x every integrator/option combination, P/L/COM by fsum from the raw particle arrays at interleaved "
                     "synchronisation points, dt and dt/2; merging collisions; distinct_nontrivial = distinct (integrator options, system family) and distinct (diagnostic, N, N_active, type)")
    c.cov["trusted_base"] = ["Lean 4.33 kernel", "Mathlib (kernel-checked)", "correspondence drv_c04 vs compiled tools.c / collision.c / integrator_leapfrog.c + gravity.c (differential test)",
                             "ctypes layouts (checked by C18)"]
    c.assumptions += ["theorems are exact-arithmetic; IEEE rounding only measured (thresholds dP/P<=1e-10, dL/L<=1e-9, dt-halving ratio<3 above 1e-11)",
                      "conservation for the WH-type, SABA, EOS, JANUS, MERCURIUS, TRACE, IAS15, BS integrators is searched on the real code, proved only for the LEAPFROG (DKD) schedule and its primitives",
                      "boundedness / absence of drift of the energy error is not proved (no backward-error theory); energy is checked against per-class thresholds",
                      "WHFast512, SEI (shearing sheet: not an isolated system) not covered"]
    lines, expect, meta = [], [], []
    viol = []
    hist = {}
    worst = {}

    def P_(sim):
        return sim.particles

    def mk(ps, integrator=None, na=-1, tp=0, G=1.0):
        sim = rebound.Simulation()
        sim.G = G
        if integrator:
            sim.integrator = integrator
        for p in ps:
            sim.add(m=p[0], x=p[1], y=p[2], z=p[3], vx=p[4], vy=p[5], vz=p[6])
        sim.N_active = na
        sim.testparticle_type = tp
        return sim

    # ======================================================================= tie: diagnostics
    clib.reb_simulation_energy.restype = ctypes.c_double
    for case in range(150 * T):
        rng = c.rng.fork()
        n = rng.choice([0, 1, 2, 2, 3, 3, 4, 5, 6, 8, 12, 20, 40])
        ps, kind = gen_parts(rng, n)
        na = rng.choice([-1, -1, n, rng.randint(1, max(1, n))]) if n else -1
        tp = rng.randint(0, 1)
        G = rng.choice([1.0, 6.6743e-11, rng.loguniform(1e-3, 1e3)])
        off = rng.choice([0.0, rng.normal()])
        sim = mk(ps, na=na, tp=tp, G=G)
        sim.energy_offset = off
        nar = n if na == -1 else na
        e = sim.energy()
        lines.append(" ".join(["energy", str(n), str(nar), str(tp), d2h(G), d2h(off)] + part_tokens(ps))); expect.append([e]); meta.append(("energy", n, na, tp))
        L = sim.angular_momentum()
        lines.append(" ".join(["angmom", str(n)] + part_tokens(ps))); expect.append([L.x, L.y, L.z]); meta.append(("angmom", n, na, tp))
        cm = sim.com()
        lines.append(" ".join(["com", str(n)] + part_tokens(ps))); expect.append([cm.m, cm.x, cm.y, cm.z, cm.vx, cm.vy, cm.vz]); meta.append(("com", n, na, tp))
        for nm in ("energy", "angmom", "com"):
            c.count((nm, n, na, tp, kind), nontrivial=n >= 2)
        hist["diag"] = hist.get("diag", 0) + 3
        # search: the diagnostics return the defined quantities (fsum oracle; N_active / type conventions)
        if n >= 1:
            nint = n if tp else nar
            kin = [0.5 * p[0] * (p[4] ** 2 + p[5] ** 2 + p[6] ** 2) for p in ps[:nint]]
            pot = []
            for i in range(nar):
                for j in range(i + 1, nint):
                    dd = math.sqrt((ps[i][1] - ps[j][1]) ** 2 + (ps[i][2] - ps[j][2]) ** 2 + (ps[i][3] - ps[j][3]) ** 2)
                    pot.append(-G * ps[i][0] * ps[j][0] / dd)
            Eo = math.fsum(kin + pot + [off])
            Es = math.fsum([abs(v) for v in kin + pot] + [abs(off)])
            if not abs(e - Eo) <= 8 * (len(kin) + len(pot) + 4) * EPS * Es:
                viol.append(("diag:energy", "reb_simulation_energy differs from kinetic + pair potential + offset (N=%d N_active=%d type=%d): %.17g vs %.17g" % (n, na, tp, e, Eo),
                             dict(ps=ps, N_active=na, type=tp, G=G, offset=off, got=e, want=Eo)))
            inv = invariants(ps, G)
            if not all(abs(g - w) <= 8 * (n + 4) * EPS * inv["Lscale"] for g, w in zip((L.x, L.y, L.z), inv["L"])):
                viol.append(("diag:angmom", "reb_simulation_angular_momentum differs from sum m x cross v (N=%d)" % n, dict(ps=ps, got=[L.x, L.y, L.z], want=inv["L"])))
            if inv["M"] > 0:
                Rs = [math.fsum(abs(p[0] * p[1 + cc]) for p in ps) / inv["M"] for cc in range(3)]
                Vs = [math.fsum(abs(p[0] * p[4 + cc]) for p in ps) / inv["M"] for cc in range(3)]
                okc = abs(cm.m - inv["M"]) <= 4 * n * EPS * inv["M"]
                for cc, g in enumerate((cm.x, cm.y, cm.z)):
                    okc = okc and abs(g - inv["R"][cc] / inv["M"]) <= 16 * (n + 4) * EPS * Rs[cc]
                for cc, g in enumerate((cm.vx, cm.vy, cm.vz)):
                    okc = okc and abs(g - inv["P"][cc] / inv["M"]) <= 16 * (n + 4) * EPS * Vs[cc]
                if not okc:
                    viol.append(("diag:com", "reb_simulation_com differs from (sum m, sum m x / sum m, sum m v / sum m) (N=%d)" % n, dict(ps=ps, got=[cm.m, cm.x, cm.y, cm.z, cm.vx, cm.vy, cm.vz])))
        # c04_energy_frame_shift on the real code: move_to_com() changes the energy by -V.P_int + M_int V^2/2 (V = COM velocity
        # of all particles, P_int/M_int = momentum/mass of the interacting ones); translations do not matter
        if n >= 1 and math.fsum(p[0] for p in ps) > 0:
            Mall = math.fsum(p[0] for p in ps)
            Vc = [math.fsum(p[0] * p[4 + cc] for p in ps) / Mall for cc in range(3)]
            nint = n if tp else nar
            Pint = [math.fsum(p[0] * p[4 + cc] for p in ps[:nint]) for cc in range(3)]
            Mint = math.fsum(p[0] for p in ps[:nint])
            sim.move_to_com()
            e2 = sim.energy()
            want2 = math.fsum([e, -sum(a * b for a, b in zip(Vc, Pint)), 0.5 * Mint * sum(a * a for a in Vc)])
            Es2 = math.fsum([abs(0.5 * p[0] * (p[4] ** 2 + p[5] ** 2 + p[6] ** 2)) for p in ps[:nint]]) + abs(e) + abs(off) + 0.5 * Mint * sum(a * a for a in Vc) + sum(abs(a * b) for a, b in zip(Vc, Pint))
            scx = max([abs(v) for p in ps for v in p[1:4]] + [1e-300])
            dmin = min([math.sqrt(sum((ps[i][1 + cc] - ps[j][1 + cc]) ** 2 for cc in range(3))) for i in range(n) for j in range(i + 1, n)] + [scx])
            tol2 = 64 * (n + 4) * EPS * Es2 * (1 + scx / max(dmin, 1e-300))      # pair distances are recomputed from shifted positions
            worst["diag:frame-shift"] = max(worst.get("diag:frame-shift", 0.0), abs(e2 - want2) / tol2 if tol2 > 0 else 0.0)
            if not abs(e2 - want2) <= tol2:
                viol.append(("diag:frame-shift", "energy after move_to_com is %.17g, expected E - V.P + M V^2/2 = %.17g (N=%d N_active=%d type=%d)" % (e2, want2, n, na, tp),
                             dict(ps=ps, N_active=na, type=tp, G=G, offset=off, before=e, after=e2, want=want2)))
        if case < 2:
            c.sample({"diag": "energy", "N": n, "N_active": na, "type": tp, "E": e})

    # ======================================================================= tie: merge
    clib.reb_collision_resolve_merge.restype = ctypes.c_int
    clib.reb_collision_resolve_merge.argtypes = [ctypes.POINTER(rebound.Simulation), rebound.simulation.CollisionS]
    for case in range(60 * T):
        rng = c.rng.fork()
        ps, kind = gen_parts(rng, 2)
        if ps[0][0] + ps[1][0] == 0:
            ps[0][0] = 1.0
        extra, _ = gen_parts(rng, rng.randint(0, 2))
        G = rng.choice([1.0, rng.loguniform(1e-3, 1e3)])
        allp = ps + extra
        n = len(allp)
        na = rng.choice([-1, 1, 2, n])
        sim = mk(allp, na=na, G=G)
        sim.track_energy_offset = 1
        for i in range(n):
            sim.particles[i].r = rng.uniform(0.1, 1.0)
        sim.t = 1.0     # last_collision (0) != t
        col = rebound.simulation.CollisionS()
        swap = rng.randint(0, 1)
        col.p1, col.p2 = (1, 0) if swap else (0, 1)
        ret = clib.reb_collision_resolve_merge(ctypes.byref(sim), col)
        p = sim.particles[0]
        nar = n if na == -1 else na
        pot = 1 if (0 < nar or 1 < nar) else 0
        lines.append(" ".join(["merge", d2h(G), str(pot), d2h(0.0), d2h(0.0), d2h(0.0)] + part_tokens(ps)))
        expect.append([p.m, p.x, p.y, p.z, p.vx, p.vy, p.vz, sim.energy_offset]); meta.append(("merge", n, na, swap))
        c.count(("merge", n, na, swap, kind))
        hist["merge"] = hist.get("merge", 0) + 1
        if ret != (1 if swap else 2):
            viol.append(("merge:ret", "reb_collision_resolve_merge returned %d for p1=%d p2=%d" % (ret, col.p1, col.p2), dict(ps=allp)))
        # search: m, P, COM of the pair are conserved
        M = ps[0][0] + ps[1][0]
        okm = abs(p.m - M) <= 2 * EPS * abs(M)
        for cc, (gx, gv) in enumerate(((p.x, p.vx), (p.y, p.vy), (p.z, p.vz))):
            wx = math.fsum([ps[0][0] * ps[0][1 + cc], ps[1][0] * ps[1][1 + cc]])
            wv = math.fsum([ps[0][0] * ps[0][4 + cc], ps[1][0] * ps[1][4 + cc]])
            sx = abs(ps[0][0] * ps[0][1 + cc]) + abs(ps[1][0] * ps[1][1 + cc])
            sv = abs(ps[0][0] * ps[0][4 + cc]) + abs(ps[1][0] * ps[1][4 + cc])
            okm = okm and abs(p.m * gx - wx) <= 16 * EPS * sx and abs(p.m * gv - wv) <= 16 * EPS * sv
        # energy bookkeeping: energy_offset = (KE_i + KE_j + U_ij [if one of them is active]) - KE_merged, by fsum
        kei = 0.5 * ps[0][0] * (ps[0][4] ** 2 + ps[0][5] ** 2 + ps[0][6] ** 2)
        kej = 0.5 * ps[1][0] * (ps[1][4] ** 2 + ps[1][5] ** 2 + ps[1][6] ** 2)
        dd = math.sqrt((ps[0][1] - ps[1][1]) ** 2 + (ps[0][2] - ps[1][2]) ** 2 + (ps[0][3] - ps[1][3]) ** 2)
        uij = -G * ps[0][0] * ps[1][0] / dd if pot else 0.0
        vm = [math.fsum([ps[0][0] * ps[0][4 + cc], ps[1][0] * ps[1][4 + cc]]) / M for cc in range(3)]
        kem = 0.5 * M * (vm[0] ** 2 + vm[1] ** 2 + vm[2] ** 2)
        want_off = math.fsum([kei, kej, uij, -kem])
        if not abs(sim.energy_offset - want_off) <= 64 * EPS * (abs(kei) + abs(kej) + abs(uij) + abs(kem)):
            viol.append(("merge:offset", "energy_offset after a merge is %.17g, expected KE_i+KE_j+U_ij-KE_merged = %.17g" % (sim.energy_offset, want_off),
                         dict(ps=ps, G=G, N_active=na, got=sim.energy_offset, want=want_off)))
        if not okm:
            viol.append(("merge:conserve", "merge does not conserve mass / momentum / centre of mass of the pair", dict(ps=ps, got=[p.m, p.x, p.y, p.z, p.vx, p.vy, p.vz])))

    # ======================================================================= tie: whole LEAPFROG steps
    for case in range(40 * T):
        rng = c.rng.fork()
        n = rng.choice([1, 2, 3, 4, 5, 8, 16])
        ps, kind = gen_parts(rng, n)
        sc = max(abs(v) for p in ps for v in p[1:4]) or 1.0
        vs = max(abs(v) for p in ps for v in p[4:7]) or 1.0
        na = rng.choice([-1, -1, rng.randint(1, n)])
        tp = rng.randint(0, 1)
        G = rng.choice([1.0, rng.loguniform(1e-3, 1e3)])
        soft = rng.choice([0.0, sc * 0.01])
        dt = 0.01 * sc / vs
        nst = rng.randint(1, 6)
        sim = mk(ps, integrator="leapfrog", na=na, tp=tp, G=G)
        sim.softening = soft
        sim.dt = dt
        sim.steps(nst)
        nar = n if na == -1 else na
        got = [v for i in range(n) for v in (sim.particles[i].x, sim.particles[i].y, sim.particles[i].z, sim.particles[i].vx, sim.particles[i].vy, sim.particles[i].vz)]
        lines.append(" ".join(["lf", str(n), str(nar), str(tp), "0", d2h(G), d2h(soft), d2h(dt), str(nst)] + part_tokens(ps)))
        expect.append(got); meta.append(("lf", n, na, tp))
        c.count(("lf", n, na, tp, nst, kind), nontrivial=n >= 2)
        hist["lf"] = hist.get("lf", 0) + 1

    # ======================================================================= tie: reb_whfast_interaction_step (Jacobi coordinates)
    for case in range(40 * T):
        rng = c.rng.fork()
        n = rng.choice([1, 2, 2, 3, 3, 4, 5, 8, 16])
        ps, kind = gen_parts(rng, n)
        for p_ in ps:
            p_[0] = abs(p_[0]) if p_[0] != 0 else 0.0
        if ps[0][0] == 0:
            ps[0][0] = 1.0
        G = rng.choice([1.0, rng.loguniform(1e-3, 1e3)])
        soft = rng.choice([0.0, 0.0, 0.05])
        simW = mk(ps, integrator="whfast", G=G)
        simW.softening = soft
        simW.ri_whfast.coordinates = "jacobi"
        simW.dt = dtw = rng.uniform(1e-3, 1e-1)
        if clib.reb_integrator_whfast_init(ctypes.byref(simW)):
            continue
        clib.reb_integrator_whfast_from_inertial(ctypes.byref(simW))
        simW.gravity_ignore = 1
        clib.reb_simulation_update_acceleration(ctypes.byref(simW))
        pj = simW.ri_whfast._p_jh
        toks = ["whint", str(n), d2h(G), d2h(soft), d2h(dtw), d2h(ps[0][0]), d2h(simW.particles[0].ax), d2h(simW.particles[0].ay), d2h(simW.particles[0].az)]
        for i in range(1, n):
            q, pj_i = simW.particles[i], pj[i]
            toks += [d2h(v) for v in (q.m, q.ax, q.ay, q.az, pj_i.x, pj_i.y, pj_i.z, pj_i.vx, pj_i.vy, pj_i.vz)]
        clib.reb_whfast_interaction_step(ctypes.byref(simW), ctypes.c_double(dtw))
        got = [v for i in range(1, n) for v in (pj[i].vx, pj[i].vy, pj[i].vz)]
        lines.append(" ".join(toks)); expect.append(got); meta.append(("whint", n, -1, 0))
        c.count(("whint", n, kind, soft != 0), nontrivial=n >= 3)
        hist["whint"] = hist.get("whint", 0) + 1

    # ======================================================================= tie: reb_whfast_jump_step (DH, WHDS) and reb_whfast_com_step
    for case in range(60 * T):
        rng = c.rng.fork()
        kindj = ("dh", "whds", "com")[case % 3]
        n = rng.choice([1, 2, 2, 3, 3, 4, 5, 8, 16])
        ps, kind = gen_parts(rng, n)
        for p_ in ps:
            p_[0] = abs(p_[0]) if p_[0] != 0 else 0.0
        if ps[0][0] == 0:
            ps[0][0] = 1.0
        na = -1 if (n < 3 or rng.chance(0.5)) else rng.randint(2, n - 1)
        tp = rng.randint(0, 1)
        simW = mk(ps, integrator="whfast", na=na, tp=tp)
        simW.ri_whfast.coordinates = {"dh": "democraticheliocentric", "whds": "whds", "com": rng.choice(["jacobi", "democraticheliocentric", "whds", "barycentric"])}[kindj]
        simW.dt = dtw = rng.uniform(-1e-1, 1e-1)
        if clib.reb_integrator_whfast_init(ctypes.byref(simW)):
            continue
        clib.reb_integrator_whfast_from_inertial(ctypes.byref(simW))
        pj = simW.ri_whfast._p_jh
        nact = n if (na == -1 or tp == 1) else na
        toks = ["whjump", kindj, str(n), str(nact), d2h(dtw)]
        for i in range(n):
            toks += [d2h(v) for v in (simW.particles[i].m, pj[i].x, pj[i].y, pj[i].z, pj[i].vx, pj[i].vy, pj[i].vz)]
        if kindj == "com":
            clib.reb_whfast_com_step(ctypes.byref(simW), ctypes.c_double(dtw))
        else:
            clib.reb_whfast_jump_step(ctypes.byref(simW), ctypes.c_double(dtw))
        got = [v for i in range(n) for v in (pj[i].x, pj[i].y, pj[i].z)]
        lines.append(" ".join(toks)); expect.append(got); meta.append(("whjump:" + kindj, n, na, tp))
        c.count(("whjump", kindj, n, na != -1, tp), nontrivial=n >= 3 or kindj == "com")
        hist["whjump:" + kindj] = hist.get("whjump:" + kindj, 0) + 1

    c.log("running %d model lines through drv_c04" % len(lines))
    out = run_driver(exe, lines)
    st = {"bitwise_equal": 0, "within_tol": 0, "disagree": 0}
    first = None
    if len(out) != len(lines):
        c.corr_break("driver returned %d lines for %d ops" % (len(out), len(lines)))
    else:
        for g, e, mt, l in zip(out, expect, meta, lines):
            gt, et = g.split(), [d2h(v) for v in e]
            if gt == et:
                st["bitwise_equal"] += 1
                continue
            bad = True
            try:
                gv = [h2d(t) for t in gt]
                if len(gv) == len(e):
                    sc = max([abs(v) for v in e if v == v] + [abs(h2d(t)) for t in l.split()[2:] if len(t) == 16 and h2d(t) == h2d(t)] + [1e-300])
                    # "to rounding error": 64*N ulp of the largest quantity involved (products of up to three inputs for energy / L)
                    tol = 64 * (mt[1] + 2) * EPS
                    bad = any(not (abs(a - b) <= tol * max(abs(a), abs(b), 1e-300) or abs(a - b) <= tol * tol * sc) for a, b in zip(gv, e) if not (a != a and b != b))
            except Exception:
                bad = True
            if bad:
                st["disagree"] += 1
                if first is None:
                    first = {"op": mt[0], "N": mt[1], "op_line": l[:1500], "model": g[:400], "impl": " ".join(et)[:400]}
            else:
                st["within_tol"] += 1
    c.cov["model_lines_compared"] = len(lines)
    c.cov["correspondence"] = st
    if st["disagree"]:
        c.corr_break("%d of %d model/implementation lines differ; first: %s" % (st["disagree"], len(lines), first["op"]), first)

    def near_collision(m0, bodies, G, boost, dtq, span):
        """does the close pair pass through a near-collision within |t| <= span (either direction)?  Default IAS15 from the same
        initial state; criterion: its step falls below 1e-3 of the initial one (a physical property of the orbit, not of the scheme under test)"""
        for sg_ in (1.0, -1.0):
            scs = build_sim(rebound, m0, bodies, G, boost, dict(integrator="ias15"), sg_ * dtq)
            for _k in range(200000):
                scs.steps(1)
                if abs(scs.dt_last_done) < 1e-3 * dtq:
                    return True
                if abs(scs.t) > span:
                    break
        return False

    def safe_close_pair(rng, fam, m0, bodies, G, boost, dtq, span):
        """family 3 (close planet pair): a random draw now and then passes within 1e-7..1e-9 of a point-mass collision (seen: 2.9e-7 at t=1,
        9e-9 at t=-87); there the adaptive schemes lose 1e-11 in energy or stop ("not making progress") -- the step-size-control regime
        (C01/C08), outside "bounded systems in the stable regime".  Redraw until the orbit stays clear of it over the span (both directions)."""
        for _redraw in range(8):
            if fam != 3 or not near_collision(m0, bodies, G, boost, dtq, span):
                break
            c.cov["close_pair_redrawn_near_collision"] = c.cov.get("close_pair_redrawn_near_collision", 0) + 1
            m0, bodies, G = gen_system(rng, fam)
        return m0, bodies, G

    # ======================================================================= search: conservation, all integrators x options
    cfgs = all_configs()
    c.cov["integrator_configurations_available"] = len(cfgs)
    if not c.thorough:
        # quick: every WHFast coordinate system/kernel/corrector once, every SABA type, a diagonal of EOS pairs, everything else
        sel = []
        for cf in cfgs:
            it = cf["integrator"]
            if it == "whfast" and cf["safe_mode"] == 0 and cf["corrector"] not in (0, 11):
                continue
            if it == "saba" and cf["safe_mode"] == 0 and cf["type"] not in ("1", "cm2", "10,6,4"):
                continue
            if it == "eos" and cf["safe_mode"] == 1 and not (cf["phi0"] == cf["phi1"] or cf["phi1"] == "lf" or cf["phi0"] == "lf" or cf["n"] != 2):
                continue
            if it == "eos" and cf["safe_mode"] == 0 and cf["n"] == 2 and cf["phi1"] != "lf":
                continue
            sel.append(cf)
        cfgs = sel
    nsteps = 1500 if c.thorough else 300
    ran = 0
    import pickle, tempfile
    n_unsafe, n_nondefault = [0], [0]
    VARIANTS = ["plain", "dt<0", "massless test particles", "callbacks installed (read-only)", "restore mid-run (file)", "restore mid-run (copy)",
                "restore mid-run (pickle)", "variational particles present", "direction reversal between calls", "integrate() with exact_finish_time=1",
                "rejected steps (too large initial dt)"]
    dims = {v: 0 for v in VARIANTS[1:]}
    cb_calls = [0]

    def variant_ok(v, cf):
        it = cf["integrator"]
        if v in ("dt<0", "direction reversal between calls"):
            if v.startswith("direction") and cf.get("keep_unsynchronized"):
                return False                          # changing dt while deliberately unsynchronised is outside the documented use
            return it != "trace"                      # TRACE with dt<0 is finding F10 (C01/C08)
        if v == "variational particles present":
            return it in ("ias15", "leapfrog") or (it == "whfast" and cf["coordinates"] == "jacobi" and cf["kernel"] == "default" and cf.get("gravity") is None)
        if v == "rejected steps (too large initial dt)":
            return it in ("ias15", "bs") and cf.get("epsilon") != 0.0
        if v.startswith("restore"):
            return it != "janus" or v != "restore mid-run (pickle)"
        return True

    for ci, cf in enumerate(cfgs):
        # family 3 (a close planet pair) is inside the stable regime only for the schemes that resolve close encounters
        enc_ok = cf["integrator"] in ("mercurius", "trace", "ias15", "bs")
        if cf.get("epsilon") == 0.0:
            enc_ok = False          # fixed-step IAS15 does not resolve close encounters
        fams = ([0, 1, 2] + ([3] if enc_ok else [])) if c.thorough else [ci % 2, 3 if enc_ok else 2]
        runs_ = []
        for fi, fam in enumerate(fams):
            variant = VARIANTS[(ci * 3 + fi * 5 + (c.seed if c.thorough else 0)) % len(VARIANTS)]
            if cf["integrator"] in ("ias15", "bs", "mercurius", "trace", "leapfrog", "janus"):
                variant = VARIANTS[(ci + fi * 4) % len(VARIANTS)]       # few configurations: spread the variants over them
            runs_.append((fam, variant))
        # the rarer dimensions get dedicated runs on every configuration that supports them
        if variant_ok("variational particles present", cf) and (c.thorough or cf.get("corrector", 0) in (0, 11)):
            runs_.append((ci % 2, "variational particles present"))
        if variant_ok("rejected steps (too large initial dt)", cf):
            runs_.append((3 if ci % 2 else 0, "rejected steps (too large initial dt)"))
        for fam, variant in runs_:
            if not variant_ok(variant, cf):
                variant = "plain"
            rng = c.rng.fork()
            m0, bodies, G = gen_system(rng, fam)
            boost = [rng.normal() for _ in range(3)] + [0.3 * rng.normal() for _ in range(3)]
            Pin = 2 * math.pi * math.sqrt(bodies[0][1] ** 3 / (G * m0))
            dt0 = Pin / (rng.uniform(25, 40) if cf["integrator"] != "janus" else rng.uniform(100, 150))   # high-order JANUS needs a finer step
            m0, bodies, G = safe_close_pair(rng, fam, m0, bodies, G, boost, dt0, 4.0 * (nsteps + 12) * dt0)
            res = []
            res_sig = [None]
            for dt in (dt0, dt0 / 2):
                try:
                    sim = build_sim(rebound, m0, bodies, G, boost, cf, dt)
                except Exception as ex:
                    res = None
                    break
                # ---- cross-cutting dimension applied to this run
                if variant == "dt<0":
                    sim.dt = -sim.dt
                elif variant == "massless test particles":
                    nm_ = sim.N
                    sim.add(m=0.0, a=bodies[-1][1] * 1.7, e=0.02, primary=sim.particles[0])
                    sim.add(m=0.0, a=bodies[0][1] * 0.55, e=0.01, f=1.0, primary=sim.particles[0])
                    sim.N_active = nm_
                elif variant == "callbacks installed (read-only)":
                    def _ro(simp, _c=cb_calls):
                        _c[0] += 1
                        _ = simp.contents.particles[0].x
                    sim.post_timestep_modifications = _ro
                    sim.pre_timestep_modifications = _ro
                    sim.heartbeat = _ro
                    sim.additional_forces = _ro
                elif variant == "variational particles present":
                    var_ = sim.add_variation()
                    for i_ in range(sim.N - sim.N_var, sim.N):
                        pv = sim.particles[i_]
                        pv.x, pv.y, pv.z = 1e-3 * rng.normal(), 1e-3 * rng.normal(), 1e-3 * rng.normal()
                        pv.vx, pv.vy, pv.vz = 1e-3 * rng.normal(), 1e-3 * rng.normal(), 1e-3 * rng.normal()
                elif variant == "rejected steps (too large initial dt)":
                    sim.dt = 40 * dt
                ps0 = raw(sim)
                i0 = invariants(ps0, G)
                t0 = sim.t
                worstP = worstL = worstR = worstE = 0.0
                nchunks = 6
                total = nsteps if dt == dt0 else 2 * nsteps
                done = 0
                try:
                    for ch in range(nchunks):
                        k = total // nchunks + (rng.randint(0, 3) if ch < nchunks - 1 else 0)
                        if ch == 3 and variant.startswith("restore"):
                            sim.synchronize()
                            if variant.endswith("(copy)"):
                                sim = sim.copy()
                            elif variant.endswith("(pickle)"):
                                sim = pickle.loads(pickle.dumps(sim))
                            else:
                                fn_ = os.path.join(tempfile.gettempdir(), "c04_%d.bin" % os.getpid())
                                sim.save_to_file(fn_, delete_file=True)
                                sim = rebound.Simulation(fn_)
                                os.remove(fn_)
                        if ch == 3 and variant == "direction reversal between calls":
                            sim.synchronize()
                            sim.dt = -sim.dt
                        if variant == "integrate() with exact_finish_time=1":
                            try:
                                sim.integrate(sim.t + k * sim.dt)
                            except RuntimeError as ex_:
                                # C08's finding F19 (absorbed residual step, now reported as an error instead of a hang): t is
                                # within one ulp of the target and t + dt/2 == t; the state is valid, carry on
                                if "not making progress" not in str(ex_):
                                    raise
                                c.cov["exact_finish_absorbed_residual_step"] = c.cov.get("exact_finish_absorbed_residual_step", 0) + 1
                        elif ch == 2 and cf["integrator"] in FIXED_SYMPLECTIC:
                            # split integrate() calls (no exact finish time: steps stay unsynchronised across the calls)
                            sim.integrate(sim.t + (k // 2) * sim.dt * (1 + 1e-9), exact_finish_time=0)
                            sim.integrate(sim.t + (k - k // 2) * sim.dt * (1 + 1e-9), exact_finish_time=0)
                        else:
                            sim.steps(k)
                        done += k
                        if ch % 2 == 0:
                            sim.synchronize()      # interleaved synchronisation (a no-op for safe_mode=1)
                            sim.synchronize()
                        else:
                            sim.synchronize()
                        ps = raw(sim)
                        iv = invariants(ps, G)
                        tt = sim.t - t0
                        worstP = max(worstP, norm([a - b for a, b in zip(iv["P"], i0["P"])]) / i0["Pscale"])
                        worstL = max(worstL, norm([a - b for a, b in zip(iv["L"], i0["L"])]) / i0["Lscale"])
                        Rs = math.fsum(abs(p[0]) * norm(p[1:4]) for p in ps) + i0["Pscale"] * abs(tt)
                        worstR = max(worstR, norm([a - b - pp * tt for a, b, pp in zip(iv["R"], i0["R"], i0["P"])]) / Rs)
                        worstE = max(worstE, abs(iv["E"] - i0["E"]) / i0["Escale"])
                        if abs(iv["M"] - i0["M"]) > 0:
                            viol.append(("mass:" + cf["integrator"], "total mass changed during integration with %s" % cfg_key(cf), dict(cfg=cf, family=fam)))
                except Exception as ex:
                    viol.append(("crash:" + cfg_key(cf), "integration raised %r with %s" % (ex, cfg_key(cf)), dict(cfg=cf, family=fam, m0=m0, bodies=bodies, G=G, dt=dt)))
                    res = None
                    break
                if dt == dt0 and worstR > 1e-9 and i0["M"] > 0:
                    # is the COM residual an integer multiple of dt * V_com?  (signature of finding FC04a)
                    Vc = [pp / i0["M"] for pp in i0["P"]]
                    dRv = [(a - b - pp * tt) / i0["M"] for a, b, pp in zip(iv["R"], i0["R"], i0["P"])]
                    res_sig[0] = rejected_step_signature(dRv, Vc, dt)
                res.append((worstP, worstL, worstR, worstE))
            if not res:
                continue
            if variant != "plain":
                dims[variant] += 1
            ran += 1
            if cf.get("safe_mode") == 0:
                n_unsafe[0] += 1
            if any(k_ in cf for k_ in ("epsilon", "min_dt", "adaptive_mode", "eps_abs", "max_dt", "r_crit_hill", "peri_crit_eta", "keep_unsynchronized", "scale_ratio")):
                n_nondefault[0] += 1
            c.count((cfg_key(cf), fam, variant))
            hist[cf["integrator"]] = hist.get(cf["integrator"], 0) + 1
            dP, dL, dR, dE = thresholds(cf)
            if cf["integrator"] == "bs" and fam == 3:
                dE = 1e-5        # close planet pair: BS's tolerance is relative to the whole state (2.5e-6 measured on the clean tree)
            (P1, L1, R1, E1), (P2, L2, R2, E2) = res
            it = cf["integrator"]
            for nm, v in (("dP", max(P1, P2)), ("dL", max(L1, L2)), ("dCOM", max(R1, R2)), ("dE", max(E1, E2))):
                kk = it + (":" + cf["coordinates"] if it == "whfast" else "") + ":" + nm
                worst[kk] = max(worst.get(kk, 0.0), v)
            rep = dict(cfg=cf, family=fam, variant=variant, m0=m0, bodies=bodies, G=G, boost=boost, dt=dt0, steps=nsteps, dP=[P1, P2], dL=[L1, L2], dCOM=[R1, R2], dE=[E1, E2])
            tag = cfg_key(cf) + ("" if variant == "plain" else " [" + variant + "]")
            if not (P1 <= dP and P2 <= dP):
                viol.append(("P:" + tag, "total momentum not conserved by %s: dP/P = %.3g (dt), %.3g (dt/2), bound %.1g" % (tag, P1, P2, dP), rep))
            if not (R1 <= dR and R2 <= dR) and it == "trace" and res_sig[0] is not None:
                viol.append(("FC04a:trace-rejected-step-com", "TRACE: centre of mass jumps by %s x dt x V_com (one extra com_step per rejected step) under %s: %.3g (dt), %.3g (dt/2)"
                             % (res_sig[0], tag, R1, R2), rep))
            elif not (R1 <= dR and R2 <= dR):
                viol.append(("COM:" + tag, "centre of mass does not move uniformly under %s: %.3g (dt), %.3g (dt/2), bound %.1g" % (tag, R1, R2, dR), rep))
            Lbad = not (L1 <= dL and L2 <= dL)
            if it in FIXED_SYMPLECTIC and L1 > 1e-11 and L2 > 0 and L1 / L2 >= 3.0:
                Lbad = True
            if Lbad:
                # F13 is a truncation-level (O(dt^2), <= 1e-7 here) loss in barycentric coordinates; anything larger is reported as new
                key = "F13:whfast-barycentric-L" if (it == "whfast" and cf["coordinates"] == "barycentric" and max(L1, L2) <= 1e-6) else "L:" + tag
                viol.append((key, "total angular momentum not conserved to rounding by %s: dL/L = %.3g (dt), %.3g (dt/2), bound %.1g, ratio %.2f"
                             % (tag, L1, L2, dL, L1 / L2 if L2 > 0 else float("inf")), rep))
            if not (E1 <= dE and E2 <= dE):
                viol.append(("E:" + tag, "relative energy error of %s outside its class: %.3g (dt), %.3g (dt/2), bound %.1g" % (tag, E1, E2, dE), rep))
    c.cov["integrator_runs"] = ran
    dims["callbacks actually called"] = cb_calls[0]

    # ======================================================================= search: pairwise conjunctions (greedy all-pairs covering array)
    from c02_pairs import covering_array, triples_array, PairLog
    PF = {
        "integ": ["whfast-jacobi", "whfast-dh", "whfast-whds", "whfast-bary", "saba", "eos", "leapfrog", "janus", "mercurius", "trace", "ias15", "bs"],
        "opt": ["default", "alt"],
        "safe": [1, 0],
        "keep": [0, 1],
        "fam": [0, 1, 2, 3],
        "dtsign": ["+", "-"],
        "calls": ["steps", "split-integrate", "exact-outputs", "integrate-inexact"],
        "evA": ["none", "synchronize", "copy", "file", "pickle", "reverse", "dt-change"],
        "evB": ["none", "synchronize", "copy", "file", "pickle", "reverse", "dt-change"],
        "roles": ["all-massive", "massless-tp"],
        "var": ["none", "first"],
        "cb": ["none", "readonly"],
    }
    HAS_SAFE = ("whfast-jacobi", "whfast-dh", "whfast-whds", "whfast-bary", "saba", "eos", "mercurius")

    def pf_ok(f):
        it = f["integ"]
        if f["safe"] == 0 and it not in HAS_SAFE:
            return False                                   # no safe_mode option
        if f["keep"] == 1 and (f["safe"] == 1 or not (it.startswith("whfast") or it == "saba")):
            return False                                   # "keep_unsynchronized == 1 is not compatible with safe_mode"; option exists for WHFast/SABA only
        if f["fam"] == 3 and it not in ("mercurius", "trace", "ias15", "bs"):
            return False                                   # close planet pair: outside the stable regime of the fixed-step schemes
        if it == "trace" and (f["dtsign"] == "-" or "reverse" in (f["evA"], f["evB"])):
            return False                                   # F10 (TRACE backwards) belongs to C01/C08
        if f["keep"] == 1 and ("reverse" in (f["evA"], f["evB"]) or "dt-change" in (f["evA"], f["evB"])):
            return False                                   # editing dt by hand while deliberately unsynchronised is outside the documented use
        if f["keep"] == 1 and f["cb"] == "readonly":
            return False                                   # a post_timestep_modifications callback makes every step synchronise and sets recalculate_coordinates: contradicts keep_unsynchronized
        if f["var"] == "first" and not (it in ("ias15", "leapfrog") or (it == "whfast-jacobi" and f["opt"] == "default")):
            return False                                   # variational equations: IAS15, LEAPFROG, WHFast/Jacobi/default kernel only
        if f["var"] == "first" and ("pickle" in (f["evA"], f["evB"]) and False):
            return False
        if it == "janus" and ("pickle" in (f["evA"], f["evB"]) or "dt-change" in (f["evA"], f["evB"]) or f["calls"] == "exact-outputs"):
            return False                                   # JANUS: integer state is tied to one dt (changing dt re-maps the grid; reversibility class, C10)
        if it in ("ias15", "bs") and f["calls"] == "split-integrate" and False:
            return False
        return True

    def pf_cfg(f, rng):
        it, alt = f["integ"], f["opt"] == "alt"
        if it.startswith("whfast"):
            co = {"whfast-jacobi": "jacobi", "whfast-dh": "democraticheliocentric", "whfast-whds": "whds", "whfast-bary": "barycentric"}[it]
            cf = dict(integrator="whfast", coordinates=co, kernel=("lazy" if (alt and co == "jacobi" and f["var"] == "none") else "default"),
                      corrector=(11 if (alt and co in ("jacobi", "barycentric")) else 0), corrector2=0, safe_mode=f["safe"])
        elif it == "saba":
            cf = dict(integrator="saba", type=("cm2" if alt else "10,6,4"), safe_mode=f["safe"])
        elif it == "eos":
            cf = dict(integrator="eos", phi0=("pmlf6" if alt else "lf4"), phi1="lf", n=2, safe_mode=f["safe"])
        elif it == "janus":
            cf = dict(integrator="janus", order=(4 if alt else 6))
        elif it == "mercurius":
            cf = dict(integrator="mercurius", L=("C4" if alt else "mercury"), safe_mode=f["safe"])
        elif it == "trace":
            cf = dict(integrator="trace", peri_mode=(2 if alt else 1))
        elif it == "ias15":
            cf = dict(integrator="ias15", adaptive_mode=1) if alt else dict(integrator="ias15")
        elif it == "bs":
            cf = dict(integrator="bs", eps_abs=1e-10, eps_rel=1e-10) if alt else dict(integrator="bs")
        else:
            cf = dict(integrator="leapfrog")
        if f["keep"]:
            cf["keep_unsynchronized"] = 1
        return cf

    arrp, pvalid, pexcl = covering_array(PF, pf_ok, SplitMix(8101))
    if c.thorough:
        arrp = arrp + triples_array(PF, pf_ok, SplitMix(8102), ("integ", "safe", "calls"), arrp) + triples_array(PF, pf_ok, SplitMix(8103), ("calls", "evA", "evB"), arrp)
        todo_cases = arrp
    else:
        todo_cases = arrp        # the whole array with every seed (a seed slice hid pairs from three runs out of four)
    plog = PairLog(PF, pvalid, pexcl)
    pstep = 200 if c.thorough else 70
    for pi, f in enumerate(todo_cases):
        rng = c.rng.fork()
        cf = pf_cfg(f, rng)
        m0, bodies, G = gen_system(rng, f["fam"])
        boost = [rng.normal() for _ in range(3)] + [0.3 * rng.normal() for _ in range(3)]
        Pin = 2 * math.pi * math.sqrt(bodies[0][1] ** 3 / (G * m0))
        dtq = Pin / (rng.uniform(28, 40) if cf["integrator"] != "janus" else rng.uniform(100, 150))
        row_ok = True
        for _attempt in range(4):
          sim, t0 = None, 0.0
          try:
              # 4x the nominal span: the adaptive step grows to ~3 dt0, so k steps / k*sim.dt reach further than k*dt0
              m0, bodies, G = safe_close_pair(rng, f["fam"], m0, bodies, G, boost, dtq, 4.0 * (3 * pstep + 12) * dtq)
              sim = build_sim(rebound, m0, bodies, G, boost, cf, dtq)
              if f["dtsign"] == "-":
                  sim.dt = -sim.dt
              if f["roles"] == "massless-tp":
                  nm_ = sim.N
                  sim.add(m=0.0, a=bodies[-1][1] * 1.7, e=0.02, primary=sim.particles[0])
                  sim.add(m=0.0, a=bodies[0][1] * 0.55, e=0.01, f=1.0, primary=sim.particles[0])
                  sim.N_active = nm_
              if f["cb"] == "readonly":
                  def _ro2(simp, _c=cb_calls):
                      _c[0] += 1
                      _ = simp.contents.particles[0].x
                  sim.post_timestep_modifications = _ro2
                  sim.heartbeat = _ro2
                  sim.additional_forces = _ro2
              if f["var"] == "first":
                  sim.add_variation()
                  for i_ in range(sim.N - sim.N_var, sim.N):
                      pv = sim.particles[i_]
                      pv.x, pv.y, pv.z = 1e-3 * rng.normal(), 1e-3 * rng.normal(), 1e-3 * rng.normal()
                      pv.vx, pv.vy, pv.vz = 1e-3 * rng.normal(), 1e-3 * rng.normal(), 1e-3 * rng.normal()
              i0 = invariants(raw(sim), G)
              t0 = sim.t
              wE = wP = wL = wR = 0.0
              for ch, ev in enumerate((f["evA"], f["evB"], "none")):
                  k = pstep + rng.randint(0, 3)
                  if f["calls"] == "steps":
                      sim.steps(k)
                  elif f["calls"] == "split-integrate":
                      sim.integrate(sim.t + (k // 2) * sim.dt * (1 + 1e-9), exact_finish_time=0)
                      sim.integrate(sim.t + (k - k // 2) * sim.dt * (1 + 1e-9), exact_finish_time=0)
                  elif f["calls"] == "integrate-inexact":
                      sim.integrate(sim.t + k * sim.dt * (1 + 1e-9), exact_finish_time=0)
                  else:
                      dt_now = sim.dt if cf["integrator"] not in ("ias15", "bs") else (dtq if f["dtsign"] == "+" else -dtq)
                      for _o in range(6):
                          sim.integrate(sim.t + (k / 6.0 + 0.37) * dt_now)       # exact_finish_time=1: last step shortened, dt restored
                  sim.synchronize()
                  iv = invariants(raw(sim), G)
                  tt = sim.t - t0
                  wP = max(wP, norm([a - b for a, b in zip(iv["P"], i0["P"])]) / i0["Pscale"])
                  wL = max(wL, norm([a - b for a, b in zip(iv["L"], i0["L"])]) / i0["Lscale"])
                  Rs = math.fsum(abs(p[0]) * norm(p[1:4]) for p in raw(sim)) + i0["Pscale"] * abs(tt)
                  wR = max(wR, norm([a - b - pp * tt for a, b, pp in zip(iv["R"], i0["R"], i0["P"])]) / Rs)
                  wE = max(wE, abs(iv["E"] - i0["E"]) / i0["Escale"])
                  # ---- event between this chunk and the next (event adjacency: evA then evB)
                  if ev == "synchronize":
                      sim.synchronize(); sim.synchronize()
                  elif ev == "copy":
                      sim = sim.copy()
                  elif ev == "pickle":
                      sim = pickle.loads(pickle.dumps(sim))
                  elif ev == "file":
                      fn_ = os.path.join(tempfile.gettempdir(), "c04p_%d.bin" % os.getpid())
                      sim.save_to_file(fn_, delete_file=True)
                      sim = rebound.Simulation(fn_)
                      os.remove(fn_)
                  elif ev == "reverse":
                      sim.dt = -sim.dt
                  elif ev == "dt-change":
                      sim.dt = 0.7 * sim.dt
                  if ev in ("copy", "pickle", "file") and f["cb"] == "readonly":
                      sim.post_timestep_modifications = _ro2; sim.heartbeat = _ro2; sim.additional_forces = _ro2
          except Exception as ex:
              # a posteriori: the run ended in "not making progress" and the pair really passes through a near-collision inside the span
              # that was covered (default IAS15 from the same initial state) -> redraw the system and run the row again
              if ("not making progress" in str(ex) and f["fam"] == 3 and sim is not None and _attempt < 3
                      and near_collision(m0, bodies, G, boost, dtq, abs(sim.t - t0) * 1.05 + 2 * dtq)):
                  c.cov["pairwise_rows_rerun_after_physical_near_collision"] = c.cov.get("pairwise_rows_rerun_after_physical_near_collision", 0) + 1
                  m0, bodies, G = gen_system(rng, f["fam"])
                  continue
              viol.append(("pairwise:crash:" + cfg_key(cf), "pairwise case %r raised %r" % (f, ex), dict(factors=f, cfg=cf)))
              row_ok = False
          break
        if not row_ok:
            continue
        plog.add(f)
        c.count(("pairwise", pi, 0 if c.thorough else c.seed))
        hist["pairwise"] = hist.get("pairwise", 0) + 1
        bP, bL, bR, bE = thresholds(cf)
        if cf["integrator"] == "bs" and f["fam"] == 3:
            bE = 1e-5
        if cf["integrator"] == "ias15" and f["fam"] == 3:
            # close pair inside the mutual Hill radius at t=0 with dt0 = P/30: the first steps are not converged to 1e-12
            # (clean tree: 3e-12 plain, 5.2e-11 with massless test particles in the step-size control; independent of adaptive_mode, copy, variations)
            bE = max(bE, 1e-9)
        for nm_, v_ in (("dE", wE), ("dP", wP), ("dL", wL), ("dCOM", wR)):
            worst["pairwise:%s:%s" % (f["integ"], nm_)] = max(worst.get("pairwise:%s:%s" % (f["integ"], nm_), 0.0), v_)
        rep = dict(factors=f, cfg=cf, m0=m0, bodies=bodies, G=G, boost=boost, dt=dtq, dE=wE, dP=wP, dL=wL, dCOM=wR)
        tagp = "%s [%s]" % (cfg_key(cf), ", ".join("%s=%s" % (k_, f[k_]) for k_ in ("fam", "dtsign", "calls", "evA", "evB", "roles", "var", "cb")))
        if wP > bP:
            viol.append(("pairwise:P:" + f["integ"], "momentum not conserved (%.3g) by %s" % (wP, tagp), rep))
        if wR > bR:
            viol.append(("pairwise:COM:" + f["integ"], "centre of mass leaves uniform motion (%.3g) under %s" % (wR, tagp), rep))
        if wL > bL:
            viol.append((("F13:whfast-barycentric-L" if (f["integ"] == "whfast-bary" and wL <= 1e-6) else "pairwise:L:" + f["integ"]), "angular momentum not conserved (%.3g) by %s" % (wL, tagp), rep))
        if wE > bE:
            viol.append(("pairwise:E:" + f["integ"], "relative energy error %.3g outside the class (%.1g) of %s" % (wE, bE, tagp), rep))
    prep = plog.report()
    prep["factors"] = {k_: len(v_) for k_, v_ in PF.items()}
    prep["array_size"] = len(arrp)
    c.cov["pairs"] = prep
    if prep["covered"] < prep["total"]:
        c.broken.append("coverage: %d of %d admissible factor pairs were not evaluated, e.g. %s" % (prep["total"] - prep["covered"], prep["total"], prep["missing"][:3]))

    # ======================================================================= search: integrator switches on ONE simulation
    # every ordered pair of integrators, a few steps each, with and without reset_integrator(); invariants measured from the
    # moment of the switch (state left behind by the first integrator, e.g. gravity_ignore_terms, must not leak into the second)
    SW = [dict(integrator="whfast", coordinates="jacobi", kernel="default", corrector=0, corrector2=0, safe_mode=1),
          dict(integrator="whfast", coordinates="democraticheliocentric", kernel="default", corrector=0, corrector2=0, safe_mode=0),
          dict(integrator="whfast", coordinates="whds", kernel="default", corrector=0, corrector2=0, safe_mode=1),
          dict(integrator="saba", type="10,6,4", safe_mode=1),
          dict(integrator="eos", phi0="lf4", phi1="lf", n=2, safe_mode=1),
          dict(integrator="leapfrog"), dict(integrator="janus", order=6),
          dict(integrator="mercurius", L="mercury", safe_mode=1), dict(integrator="trace", peri_mode=1),
          dict(integrator="ias15"), dict(integrator="bs")]
    sw_runs = 0
    rng = c.rng.fork()
    m0, bodies, G = gen_system(rng, 0)
    boost = [rng.normal() for _ in range(3)] + [0.3 * rng.normal() for _ in range(3)]
    Pin = 2 * math.pi * math.sqrt(bodies[0][1] ** 3 / (G * m0))
    dts = Pin / 40
    pairs_sw = [(a, b) for a in range(len(SW)) for b in range(len(SW)) if a != b]
    if not c.thorough:      # quick: every pair once, alternating the reset flag; thorough: both
        pairs_sw = [(a, b, (a + b) % 2) for a, b in pairs_sw]
    else:
        pairs_sw = [(a, b, r_) for a, b in pairs_sw for r_ in (0, 1)]
    for a, b, doreset in pairs_sw:
        cfa, cfb = SW[a], SW[b]
        try:
            sim = build_sim(rebound, m0, bodies, G, boost, cfa, dts)
            sim.steps(4)
            sim.synchronize()
            if doreset:
                sim.reset_integrator()
            apply_cfg(sim, cfb)
            if cfb["integrator"] == "janus":
                sim.ri_janus.scale_pos = 1e-15 * bodies[0][1]
                sim.ri_janus.scale_vel = 1e-15 * math.sqrt(G * m0 / bodies[0][1])
            if cfb["integrator"] not in ("mercurius", "trace") and sim.gravity in ("mercurius", "trace"):
                sim.gravity = "basic"
            if not doreset and cfb["integrator"] == "whfast" and cfb.get("safe_mode") == 0:
                # documented duty of the user in unsafe mode after changing the setup by hand
                sim.ri_whfast.recalculate_coordinates_this_timestep = 1
            sim.dt = dts
            i0 = invariants(raw(sim), G)
            t0 = sim.t
            sim.steps(25)
            sim.synchronize()
            iv = invariants(raw(sim), G)
        except Exception as ex:
            viol.append(("switch:crash:%s->%s" % (cfa["integrator"], cfb["integrator"]), "switching %s -> %s raised %r" % (cfg_key(cfa), cfg_key(cfb), ex), dict(a=cfa, b=cfb, reset=doreset)))
            continue
        sw_runs += 1
        tt = sim.t - t0
        dP = norm([x_ - y_ for x_, y_ in zip(iv["P"], i0["P"])]) / i0["Pscale"]
        dL = norm([x_ - y_ for x_, y_ in zip(iv["L"], i0["L"])]) / i0["Lscale"]
        Rs = math.fsum(abs(p[0]) * norm(p[1:4]) for p in raw(sim)) + i0["Pscale"] * abs(tt)
        dR = norm([x_ - y_ - pp * tt for x_, y_, pp in zip(iv["R"], i0["R"], i0["P"])]) / Rs
        dE = abs(iv["E"] - i0["E"]) / i0["Escale"]
        bP, bL, bR, bE = thresholds(cfb)
        tag = "%s->%s%s" % (cfg_key(cfa), cfg_key(cfb), " (reset_integrator)" if doreset else "")
        c.count(("switch", a, b, doreset))
        for nm_, v_ in (("dE", dE), ("dP", dP), ("dL", dL), ("dCOM", dR)):
            worst["switch:->%s:%s" % (cfb["integrator"], nm_)] = max(worst.get("switch:->%s:%s" % (cfb["integrator"], nm_), 0.0), v_)
        rep = dict(first=cfa, second=cfb, reset=doreset, m0=m0, bodies=bodies, G=G, boost=boost, dt=dts, dE=dE, dP=dP, dL=dL, dCOM=dR,
                   gravity_ignore_terms_after=int(sim.gravity_ignore))
        kk = "%s->%s" % (cfa["integrator"] + (":" + cfa["coordinates"] if "coordinates" in cfa else ""), cfb["integrator"] + (":" + cfb["coordinates"] if "coordinates" in cfb else ""))
        known = None
        if not doreset and cfa["integrator"] == "bs" and cfb["integrator"] != "bs":
            known = "FC04c:bs-nbody-ode-survives-switch"
        elif not doreset and cfb["integrator"] == "bs" and cfa["integrator"] in ("whfast", "saba", "eos") and int(sim.gravity_ignore) != 0:
            known = "FC04d:bs-keeps-gravity_ignore_terms"
        if known and (dE > bE or dP > bP or dL > bL or dR > bR):
            viol.append((known, "after switching integrators (%s): dE=%.3g dP=%.3g dL=%.3g dCOM=%.3g (gravity_ignore_terms=%d)" % (tag, dE, dP, dL, dR, int(sim.gravity_ignore)), rep))
            continue
        if dE > bE:
            viol.append(("switch:E:" + kk, "after switching integrators (%s) the relative energy error over 25 steps is %.3g (class bound %.1g)" % (tag, dE, bE), rep))
        if dP > bP:
            viol.append(("switch:P:" + kk, "after switching integrators (%s) the momentum changes by %.3g" % (tag, dP), rep))
        if dL > bL:
            viol.append(("switch:L:" + kk, "after switching integrators (%s) the angular momentum changes by %.3g" % (tag, dL), rep))
        if dR > bR:
            viol.append(("switch:COM:" + kk, "after switching integrators (%s) the centre of mass leaves uniform motion by %.3g" % (tag, dR), rep))
    c.cov["integrator_switch_runs"] = sw_runs
    hist["switch"] = sw_runs

    # ======================================================================= search: WHFast primitive by primitive
    # (what c04_wh_* / c04_dh_* state, asserted on the exported primitives of the real code, one at a time)
    COORD = {"jacobi": 0, "democraticheliocentric": 1, "whds": 2, "barycentric": 3}
    prim_hist = {}
    for case in range(6 * T):
        rng = c.rng.fork()
        fam = case % 3
        m0, bodies, G = gen_system(rng, fam)
        boost = [rng.normal() for _ in range(3)] + [0.3 * rng.normal() for _ in range(3)]
        Pin = 2 * math.pi * math.sqrt(bodies[0][1] ** 3 / (G * m0))
        dtp = Pin / rng.uniform(25, 40)
        for coords in ("jacobi", "democraticheliocentric", "whds", "barycentric"):
            cf = dict(integrator="whfast", coordinates=coords, kernel="default", corrector=0, corrector2=0, safe_mode=1)
            sim = build_sim(rebound, m0, bodies, G, boost, cf, dtp)
            n = sim.N
            if clib.reb_integrator_whfast_init(ctypes.byref(sim)):
                continue
            clib.reb_integrator_whfast_from_inertial(ctypes.byref(sim))
            ps0 = raw(sim)
            inv0 = invariants(ps0, G)
            # decomposition of L in the coordinates held in p_jh (c04_jacobi_decomposition / c04_dh_decomposition)
            pj = sim.ri_whfast._p_jh
            ms = [p[0] for p in ps0]
            if coords == "jacobi":
                eta_ = [math.fsum(ms[:i + 1]) for i in range(n)]
                mu_ = [eta_[n - 1]] + [ms[i] * eta_[i - 1] / eta_[i] for i in range(1, n)]
            elif coords == "democraticheliocentric":
                mu_ = [math.fsum(ms)] + ms[1:]
            else:
                mu_ = None
            if mu_ is not None:
                Lc = [math.fsum(v for i in range(n) for v in (mu_[i] * a_(pj[i]), -mu_[i] * b_(pj[i])))
                      for a_, b_ in ((lambda q: q.y * q.vz, lambda q: q.z * q.vy), (lambda q: q.z * q.vx, lambda q: q.x * q.vz), (lambda q: q.x * q.vy, lambda q: q.y * q.vx))]
                dd = norm([a - b for a, b in zip(Lc, inv0["L"])]) / inv0["Lscale"]
                worst["prim:%s:decomposition" % coords] = max(worst.get("prim:%s:decomposition" % coords, 0.0), dd)
                if dd > 1e-12:
                    viol.append(("prim:decomposition:" + coords, "L computed from p_jh (%s coordinates: M RxV + sum mu_i x'_i x v'_i) differs from the inertial L by %.3g" % (coords, dd),
                                 dict(coords=coords, family=fam, m0=m0, bodies=bodies, G=G, boost=boost)))
            seq = [("kepler", dtp / 2), ("com", dtp / 2)] + ([("jump", dtp / 2)] if coords in ("democraticheliocentric", "whds") else []) + \
                  [("interaction", dtp)] + ([("jump", dtp / 2)] if coords in ("democraticheliocentric", "whds") else []) + [("kepler", dtp / 2), ("com", dtp / 2)]
            prev = inv0
            for rep_ in range(3):
                for nm_, tau in seq:
                    if nm_ == "kepler":
                        clib.reb_whfast_kepler_step(ctypes.byref(sim), ctypes.c_double(tau))
                    elif nm_ == "com":
                        clib.reb_whfast_com_step(ctypes.byref(sim), ctypes.c_double(tau))
                    elif nm_ == "jump":
                        clib.reb_whfast_jump_step(ctypes.byref(sim), ctypes.c_double(tau))
                    else:
                        clib.reb_integrator_whfast_to_inertial(ctypes.byref(sim))
                        sim.gravity_ignore = 1 if coords == "jacobi" else (2 if coords in ("democraticheliocentric", "whds") else 0)
                        clib.reb_simulation_update_acceleration(ctypes.byref(sim))
                        clib.reb_whfast_interaction_step(ctypes.byref(sim), ctypes.c_double(tau))
                    clib.reb_integrator_whfast_to_inertial(ctypes.byref(sim))
                    iv = invariants(raw(sim), G)
                    dP = norm([a - b for a, b in zip(iv["P"], prev["P"])]) / inv0["Pscale"]
                    dL = norm([a - b for a, b in zip(iv["L"], prev["L"])]) / inv0["Lscale"]
                    shift = tau if nm_ == "com" else 0.0
                    Rs = math.fsum(abs(p[0]) * norm(p[1:4]) for p in raw(sim)) + inv0["Pscale"] * abs(tau)
                    dR = norm([a - b - pp * shift for a, b, pp in zip(iv["R"], prev["R"], prev["P"])]) / Rs
                    key = "prim:%s:%s" % (coords, nm_)
                    prim_hist[key] = prim_hist.get(key, 0) + 1
                    for q_, v_ in (("dP", dP), ("dL", dL), ("dCOM", dR)):
                        worst[key + ":" + q_] = max(worst.get(key + ":" + q_, 0.0), v_)
                    rep = dict(coords=coords, primitive=nm_, tau=tau, family=fam, m0=m0, bodies=bodies, G=G, boost=boost, dP=dP, dL=dL, dCOM=dR)
                    if dP > 1e-12:
                        viol.append((key + ":P", "WHFast %s step in %s coordinates changes the total momentum by %.3g" % (nm_, coords, dP), rep))
                    if dR > 1e-12:
                        viol.append((key + ":COM", "WHFast %s step in %s coordinates moves the centre of mass by %.3g (expected %s)" % (nm_, coords, dR, "tau*V" if nm_ == "com" else "0"), rep))
                    if dL > 1e-12:
                        # per primitive the barycentric loss is O(mu*dt) (1.8e-6 measured); the two primitives cancel to O(dt^2) over a step
                        k_ = "F13:whfast-barycentric-L" if (coords == "barycentric" and dL <= 1e-4) else key + ":L"
                        viol.append((k_, "WHFast %s step in %s coordinates changes the total angular momentum by %.3g" % (nm_, coords, dL), rep))
                    prev = iv
            c.count(("prim", coords, fam, case))
    c.cov["whfast_primitive_histogram"] = prim_hist

    # ======================================================================= search: repeated output calls while unsynchronised
    # integrate() to output times that are not whole numbers of steps away (exact_finish_time=1: the last step is shortened,
    # dt restored afterwards) with safe_mode=0 / keep_unsynchronized=1.  The pending half step must be completed with the OLD dt
    # before dt changes: the run must stay in the class of the same call sequence with the default (synchronising) options.
    OUT = []
    for ty in ("1", "4", "10,6,4", "8,6,4", "h10,6,4", "cm3", "cl4"):
        OUT.append(dict(integrator="saba", type=ty))
    for co in (0, 3, 11):
        OUT.append(dict(integrator="whfast", coordinates="jacobi", kernel="default", corrector=co, corrector2=0))
    OUT.append(dict(integrator="whfast", coordinates="democraticheliocentric", kernel="default", corrector=0, corrector2=0))
    OUT.append(dict(integrator="whfast", coordinates="whds", kernel="default", corrector=0, corrector2=0))
    OUT.append(dict(integrator="mercurius", L="mercury"))
    OUT.append(dict(integrator="eos", phi0="lf4", phi1="lf", n=2))
    if not c.thorough:
        OUT = [o for i_, o in enumerate(OUT) if i_ % 2 == (c.seed % 2) or o["integrator"] in ("mercurius",) or o.get("type") in ("10,6,4", "4")]
    nout = 0
    for oi, base in enumerate(OUT):
        rng = c.rng.fork()
        fam = oi % 2
        m0, bodies, G = gen_system(rng, fam)
        boost = [rng.normal() for _ in range(3)] + [0.3 * rng.normal() for _ in range(3)]
        Pin = 2 * math.pi * math.sqrt(bodies[0][1] ** 3 / (G * m0))
        dto = Pin / rng.uniform(30, 45)
        Tout = dto * rng.uniform(7.2, 14.8)            # output cadence: not a multiple of dt
        ncalls = 120 if c.thorough else 40
        resv = {}
        for mode in ("reference", "unsynchronised"):
            cf = dict(base)
            cf["safe_mode"] = 1 if mode == "reference" else 0
            if mode == "unsynchronised" and base["integrator"] in ("saba", "whfast"):
                cf["keep_unsynchronized"] = 1
            try:
                sim = build_sim(rebound, m0, bodies, G, boost, cf, dto)
                i0 = invariants(raw(sim), G)
                t0 = sim.t
                wE = wP = wL = wR = 0.0
                for i_ in range(1, ncalls + 1):
                    sim.integrate(sim.t + Tout)             # exact_finish_time=1 (default): last step shortened, dt restored afterwards
                    if i_ % 9 == 0:
                        sim.integrate(sim.t + 3 * dto, exact_finish_time=0)     # and an inexact call in between
                    sim.synchronize()                       # output: with keep_unsynchronized the internal state must survive this
                    iv = invariants(raw(sim), G)
                    wE = max(wE, abs(iv["E"] - i0["E"]) / i0["Escale"])
                    wP = max(wP, norm([a - b for a, b in zip(iv["P"], i0["P"])]) / i0["Pscale"])
                    wL = max(wL, norm([a - b for a, b in zip(iv["L"], i0["L"])]) / i0["Lscale"])
                resv[mode] = (wE, wP, wL)
            except Exception as ex:
                viol.append(("outputs:crash:" + cfg_key(cf), "repeated integrate() output calls raised %r with %s" % (ex, cfg_key(cf)), dict(cfg=cf, family=fam)))
        if len(resv) != 2:
            continue
        nout += 1
        c.count(("outputs", cfg_key(base), fam))
        (rE, rP, rL), (uE, uP, uL) = resv["reference"], resv["unsynchronised"]
        tag = cfg_key(base)
        worst["outputs:%s:dE unsync/ref" % base["integrator"]] = max(worst.get("outputs:%s:dE unsync/ref" % base["integrator"], 0.0), uE / rE if rE > 0 else 0.0)
        worst["outputs:%s:dL" % base["integrator"]] = max(worst.get("outputs:%s:dL" % base["integrator"], 0.0), uL)
        rep = dict(cfg=base, family=fam, m0=m0, bodies=bodies, G=G, boost=boost, dt=dto, output_cadence=Tout, calls=ncalls,
                   reference=dict(dE=rE, dP=rP, dL=rL), unsynchronised=dict(dE=uE, dP=uP, dL=uL))
        bP, bL, bR, bE = thresholds(dict(base, safe_mode=0))
        fac_ = 50.0 if base["integrator"] == "eos" else 10.0      # EOS merges whole drifts when unsynchronised: 3.9x measured on the clean tree
        if uE > fac_ * rE + 1e-12:
            viol.append(("outputs:E:" + tag, "%s with safe_mode=0%s and repeated integrate() output calls (shortened last steps): relative energy error %.3g, %.0f times that of the same "
                         "call sequence with the synchronising defaults (%.3g)" % (tag, "/keep_unsynchronized=1" if base["integrator"] in ("saba", "whfast") else "", uE, uE / rE if rE > 0 else float("inf"), rE), rep))
        if uP > bP or rP > bP:
            viol.append(("outputs:P:" + tag, "%s with repeated integrate() output calls: dP/P = %.3g (unsynchronised) / %.3g (reference)" % (tag, uP, rP), rep))
        if (uL > bL or rL > bL) and not (base["integrator"] == "whfast" and base["coordinates"] == "barycentric"):
            viol.append(("outputs:L:" + tag, "%s with repeated integrate() output calls: dL/L = %.3g (unsynchronised) / %.3g (reference)" % (tag, uL, rL), rep))
    c.cov["repeated_output_call_runs"] = nout

    # ======================================================================= search: TRACE pericentre switch, all three peri modes
    # an eccentric planet triggers current_C (pericentre approach); PARTIAL_BS keeps the interaction/jump/kepler sequence
    # during the approach, FULL_BS / FULL_IAS15 integrate the whole system: all three must stay in the same energy class
    PERI = {0: "PARTIAL_BS", 1: "FULL_BS", 2: "FULL_IAS15"}
    peri_hits = {}
    for case in range(2 * T):
        rng = c.rng.fork()
        if case == 0:
            e1, f1, mpl, eta, dtp = 0.9, 2.5, 1e-3, 0.1, 0.02
        else:
            e1, f1, mpl, eta, dtp = rng.uniform(0.8, 0.93), rng.uniform(1.5, 3.0), 10 ** (-rng.uniform(3, 4.5)), rng.choice([0.1, 0.2, 0.5]), rng.uniform(0.015, 0.03)
        resm = {}
        for pm in (0, 1, 2, 11, 12):      # 11, 12: FULL_BS / FULL_IAS15 on a simulation that was stepped with WHFast before
            pre_wh = pm >= 10
            pm = pm % 10
            sim = rebound.Simulation()
            sim.add(m=1.)
            sim.add(m=mpl, a=1.0, e=e1, inc=0.1, omega=0.3, f=f1)
            sim.add(m=5e-4, a=3.0, e=0.1, inc=0.05, Omega=1.0, f=1.0)
            sim.move_to_com()
            for i in range(sim.N):
                sim.particles[i].vx += 0.01; sim.particles[i].vy -= 0.02; sim.particles[i].vz += 0.005
            if pre_wh:
                sim.integrator = "whfast"
                sim.dt = dtp
                sim.steps(3)
                sim.synchronize()
            sim.integrator = "trace"
            sim.dt = dtp
            sim.ri_trace.peri_mode = pm
            sim.ri_trace.peri_crit_eta = eta
            i0 = invariants(raw(sim), 1.0)
            t0 = sim.t
            nperi = 0
            wE = wL = wP = wR = 0.0
            sig = None
            nst = int((120.0 if c.thorough else 60.0) / dtp)
            try:
                for st_ in range(nst):
                    sim.steps(1)
                    nperi += 1 if sim.ri_trace._current_C else 0
                    if st_ % 10 == 9:
                        iv = invariants(raw(sim), 1.0)
                        tt = sim.t - t0
                        wE = max(wE, abs(iv["E"] - i0["E"]) / i0["Escale"])
                        wL = max(wL, norm([a - b for a, b in zip(iv["L"], i0["L"])]) / i0["Lscale"])
                        wP = max(wP, norm([a - b for a, b in zip(iv["P"], i0["P"])]) / i0["Pscale"])
                        Rs = math.fsum(abs(p[0]) * norm(p[1:4]) for p in raw(sim)) + i0["Pscale"] * abs(tt)
                        dRv = [(a - b - pp * tt) / i0["M"] for a, b, pp in zip(iv["R"], i0["R"], i0["P"])]
                        r_ = norm(dRv) * i0["M"] / Rs
                        if r_ > wR:
                            wR = r_
                            sig = rejected_step_signature(dRv, [pp / i0["M"] for pp in i0["P"]], dtp) if r_ > 1e-9 else None
            except Exception as ex:
                viol.append(("crash:trace-peri:%s" % PERI[pm], "TRACE peri_mode=%s raised %r" % (PERI[pm], ex), dict(e=e1, f=f1, m=mpl, eta=eta, dt=dtp)))
                continue
            if pre_wh:
                c.count(("trace-peri-after-whfast", pm, case), nontrivial=nperi > 0)
                worst["trace-peri-after-whfast:%s:dE" % PERI[pm]] = max(worst.get("trace-peri-after-whfast:%s:dE" % PERI[pm], 0.0), wE)
                if wE > 1e-4 or wL > 1e-9 or wP > 1e-10:
                    key = "FC04e:trace-keeps-gravity_ignore_terms" if int(sim.gravity_ignore) != 0 else "switch:whfast->trace:%s" % PERI[pm]
                    viol.append((key, "TRACE peri_mode=%s after 3 WHFast steps on the same simulation: dE=%.3g dL=%.3g dP=%.3g over %d steps (%d pericentre-flagged), gravity_ignore_terms=%d"
                                 % (PERI[pm], wE, wL, wP, nst, nperi, int(sim.gravity_ignore)), dict(peri_mode=PERI[pm], e=e1, f=f1, m_planet=mpl, peri_crit_eta=eta, dt=dtp, dE=wE)))
                continue
            resm[pm] = (nperi, wE, wL, wP, wR)
            peri_hits[PERI[pm]] = peri_hits.get(PERI[pm], 0) + nperi
            c.count(("trace-peri", pm, case), nontrivial=nperi > 0)
            hist["trace-peri"] = hist.get("trace-peri", 0) + 1
            for nm_, v in (("dE", wE), ("dL", wL), ("dP", wP), ("dCOM", wR)):
                worst["trace-peri:%s:%s" % (PERI[pm], nm_)] = max(worst.get("trace-peri:%s:%s" % (PERI[pm], nm_), 0.0), v)
            rep = dict(peri_mode=PERI[pm], e=e1, f=f1, m_planet=mpl, peri_crit_eta=eta, dt=dtp, steps=nst, pericentre_steps=nperi, dE=wE, dL=wL, dP=wP, dCOM=wR)
            if wE > 1e-4:
                viol.append(("E:trace-peri:%s" % PERI[pm], "TRACE peri_mode=%s with pericentre passages (%d flagged steps): relative energy error %.3g outside the accuracy class (1e-4)"
                             % (PERI[pm], nperi, wE), rep))
            if wL > 1e-9:
                viol.append(("L:trace-peri:%s" % PERI[pm], "TRACE peri_mode=%s with pericentre passages: dL/L = %.3g" % (PERI[pm], wL), rep))
            if wP > 1e-10:
                viol.append(("P:trace-peri:%s" % PERI[pm], "TRACE peri_mode=%s with pericentre passages: dP/P = %.3g" % (PERI[pm], wP), rep))
            if wR > 1e-9:
                Vc_ = [pp / i0["M"] for pp in i0["P"]]
                kpar = sum(a * b for a, b in zip(dRv, Vc_)) / sum(b * b for b in Vc_)
                perp = norm([a - kpar * b for a, b in zip(dRv, Vc_)])
                if sig is not None:
                    viol.append(("FC04a:trace-rejected-step-com", "TRACE: centre of mass jumps by %d x dt x V_com (rejected steps), peri_mode=%s" % (sig, PERI[pm]), rep))
                elif pm == 1 and nperi > 0 and kpar > 0 and perp <= 1e-6 * norm(dRv):
                    # finding FC04b: the whole system was integrated for longer than the step (COM residual = +tau * V_com)
                    rep["extra_time_integrated"] = kpar
                    viol.append(("FC04b:trace-fullbs-overshoot", "TRACE peri_mode=FULL_BS: the pericentre BS integration overshoots the end of the step; the system was advanced by an extra %.3g time units (%.2f dt) over %d flagged steps"
                                 % (kpar, kpar / dtp, nperi), rep))
                else:
                    viol.append(("COM:trace-peri:%s" % PERI[pm], "TRACE peri_mode=%s with pericentre passages: centre of mass off uniform motion by %.3g" % (PERI[pm], wR), rep))
        if len(resm) == 3:
            lo = min(v[1] for v in resm.values())
            for pm, v in resm.items():
                worst["trace-peri:%s:dE/min" % PERI[pm]] = max(worst.get("trace-peri:%s:dE/min" % PERI[pm], 0.0), v[1] / lo if lo > 0 else 0.0)
                if v[0] > 0 and lo > 0 and v[1] > 100.0 * lo and v[1] > 1e-6:
                    viol.append(("E:trace-peri-ratio:%s" % PERI[pm], "TRACE peri_mode=%s: energy error %.3g is %.0f times that of the best pericentre prescription on the same system"
                                 % (PERI[pm], v[1], v[1] / lo), dict(e=e1, f=f1, m_planet=mpl, peri_crit_eta=eta, dt=dtp, results={PERI[k]: resm[k] for k in resm})))
    c.cov["trace_pericentre_flagged_steps"] = peri_hits
    for nm_ in PERI.values():
        if peri_hits.get(nm_, 0) == 0:
            c.broken.append("coverage: no pericentre-flagged TRACE step occurred with peri_mode=%s (the pericentre code paths were not exercised)" % nm_)

    # ======================================================================= search: TRACE, an event IMMEDIATELY before a step of each kind
    # ri_trace.com_pos survives between steps and is not stored in archives: the step right after an event (restore, new
    # simulation, user shift, move_to_com, added particle ...) starts with a stale value.  Step kinds are found by a scouting
    # run (additional_forces is only called in the interaction sub-steps: 2 calls per attempt), then every event is applied
    # right before a step of every kind; oracle: M, P unchanged and COM moved by dt*P/M over that ONE step; tie: the stored
    # com_pos/com_vel after the step = the model's part2Com (bitwise) whenever the last attempt ran the interaction/jump/Kepler sequence.
    TK = {"kind": ["plain", "encounter", "rejected: new planet encounter", "rejected: pericentre flag"],
          "event": ["none", "new simulation (first step)", "copy", "file", "pickle", "shift+boost all particles", "move_to_com", "add particle", "mass edit", "synchronize"],
          "frame": ["com", "off-com"],
          "peri": ["PARTIAL_BS", "FULL_BS", "FULL_IAS15"]}
    from c02_pairs import valid_pairs
    tkv, tkx = valid_pairs(TK, lambda f_: True, SplitMix(8111))
    tklog = PairLog(TK, tkv, tkx)
    lines2, expect2, meta2 = [], [], []
    SHIFT = (3.0, -2.0, 1.0, 0.3, 0.2, -0.1)

    def tk_build(sysd, frame, pm):
        sim = rebound.Simulation()
        sim.add(m=1.0)
        for b_ in sysd["bodies"]:
            sim.add(**b_)
        sim.move_to_com()
        if frame == "off-com":
            for p_ in sim.particles:
                p_.x += SHIFT[0]; p_.y += SHIFT[1]; p_.z += SHIFT[2]; p_.vx += SHIFT[3]; p_.vy += SHIFT[4]; p_.vz += SHIFT[5]
        sim.integrator = "trace"
        sim.dt = sysd["dt"]
        sim.ri_trace.peri_mode = pm
        sim.ri_trace.peri_crit_eta = sysd["eta"]
        return sim

    def tk_step(sim):
        """one step with the call counter installed; returns (kind, last attempt ran the WH sequence)"""
        cnt = [0]

        def af(simp, _c=cnt):
            _c[0] += 1
        sim.additional_forces = af
        sim.steps(1)
        ni, cc, en = cnt[0], int(sim.ri_trace._current_C), int(sim.ri_trace._encounter_N)
        full = bool(cc) and int(sim.ri_trace._peri_mode) in (1, 2)
        rej = ni == 4 or (ni == 2 and full)
        if ni not in (0, 2, 4):
            return "unclassified (%d force calls)" % ni, False, rej
        kind = ("rejected: pericentre flag" if cc else "rejected: new planet encounter") if rej else ("encounter" if (cc or en > 1) else "plain")
        return kind, not full, rej

    def tk_event(sim, ev, rng):
        if ev == "copy":
            sim = sim.copy()
        elif ev == "pickle":
            sim = pickle.loads(pickle.dumps(sim))
        elif ev == "file":
            fn_ = os.path.join(tempfile.gettempdir(), "c04k_%d.bin" % os.getpid())
            sim.save_to_file(fn_, delete_file=True)
            sim = rebound.Simulation(fn_)
            os.remove(fn_)
        elif ev == "new simulation (first step)":
            s2 = rebound.Simulation()
            for p_ in raw(sim):
                s2.add(m=p_[0], x=p_[1], y=p_[2], z=p_[3], vx=p_[4], vy=p_[5], vz=p_[6])
            s2.integrator = "trace"; s2.dt = sim.dt; s2.t = sim.t
            s2.ri_trace.peri_mode = int(sim.ri_trace._peri_mode); s2.ri_trace.peri_crit_eta = sim.ri_trace.peri_crit_eta
            sim = s2
        elif ev == "shift+boost all particles":
            dx_ = [rng.uniform(-2, 2) for _ in range(3)] + [rng.uniform(-0.2, 0.2) for _ in range(3)]
            for p_ in sim.particles:
                p_.x += dx_[0]; p_.y += dx_[1]; p_.z += dx_[2]; p_.vx += dx_[3]; p_.vy += dx_[4]; p_.vz += dx_[5]
        elif ev == "move_to_com":
            sim.move_to_com()
        elif ev == "add particle":
            sim.add(m=1e-7, a=9.0 + rng.uniform(0, 1), e=0.05, f=rng.uniform(0, 6.28), primary=sim.particles[0])
        elif ev == "mass edit":
            sim.particles[0].m *= 1.0 + 1e-3 * rng.uniform(0.5, 1.5)
        elif ev == "synchronize":
            sim.synchronize()
        return sim

    tk_systems = [
        dict(name="close planets at t=0", bodies=[dict(m=1e-4, a=1.0, e=0.0, f=0.0), dict(m=1e-4, a=1.3, e=0.3, omega=0.0, f=-0.05, inc=0.05)], dt=0.05, eta=1.0),
        dict(name="planets approaching", bodies=[dict(m=1e-4, a=1.0, e=0.0, f=0.0), dict(m=1e-4, a=1.3, e=0.3, omega=0.0, f=-0.2, inc=0.05)], dt=0.05, eta=1.0),
        dict(name="pericentre approach", bodies=[dict(m=1e-3, a=1.0, e=0.9, inc=0.1, omega=0.3, f=3.8), dict(m=5e-4, a=3.0, e=0.1, inc=0.05, Omega=1.0, f=1.0)], dt=0.04, eta=0.3),
        dict(name="inside pericentre zone at t=0", bodies=[dict(m=1e-3, a=1.0, e=0.9, inc=0.1, omega=0.3, f=3.8), dict(m=5e-4, a=3.0, e=0.1, inc=0.05, Omega=1.0, f=1.0)], dt=0.02, eta=0.1),
    ]
    for extra_ in range(2 * T - 2 if c.thorough else 0):
        rng = c.rng.fork()
        if extra_ % 2 == 0:
            tk_systems.append(dict(name="random planets", bodies=[dict(m=10 ** -rng.uniform(3.5, 4.5), a=1.0, e=0.0, f=0.0),
                                   dict(m=10 ** -rng.uniform(3.5, 4.5), a=rng.uniform(1.25, 1.35), e=0.3, omega=0.0, f=-rng.uniform(0.03, 0.3), inc=0.05)], dt=0.05, eta=1.0))
        else:
            tk_systems.append(dict(name="random pericentre", bodies=[dict(m=10 ** -rng.uniform(3, 4), a=1.0, e=rng.uniform(0.85, 0.92), inc=0.1, omega=0.3, f=rng.uniform(3.7, 4.0)),
                                   dict(m=5e-4, a=3.0, e=0.1, inc=0.05, Omega=1.0, f=1.0)], dt=rng.choice([0.02, 0.04]), eta=rng.choice([0.1, 0.3, 0.6])))
    bPk, _bL, bRk, _bE = thresholds(dict(integrator="trace"))
    tk_hist = {}
    KSC = 14
    for si_, sysd in enumerate(tk_systems):
        for fi_, frame in enumerate(TK["frame"]):
            for pm in (0, 1, 2):
                rng = c.rng.fork()
                try:
                    kinds = []
                    simS = tk_build(sysd, frame, pm)
                    for k_ in range(KSC):
                        kinds.append(tk_step(simS)[0])
                    chosen = []
                    for kd in TK["kind"]:
                        idx = [k_ for k_, v_ in enumerate(kinds) if v_ == kd]
                        chosen += idx[:1] if not kd.startswith("rejected") else idx[:2]
                    for k_ in sorted(set(chosen)):
                        for ev in TK["event"]:
                            sim = tk_build(sysd, frame, pm)
                            for _s in range(k_):
                                tk_step(sim)
                            sim = tk_event(sim, ev, rng)
                            ps0 = raw(sim)
                            i0 = invariants(ps0, 1.0)
                            stale = (sim.ri_trace._com_pos.x, sim.ri_trace._com_pos.y, sim.ri_trace._com_pos.z)
                            dt_ = sim.dt
                            kind, whseq, rej = tk_step(sim)
                            ps1 = raw(sim)
                            i1 = invariants(ps1, 1.0)
                            fct = dict(kind=kind, event=ev, frame=frame, peri=PERI[pm])
                            if kind in TK["kind"]:
                                tklog.add(fct)
                            tk_hist[kind] = tk_hist.get(kind, 0) + 1
                            c.count(("trace-event-step", sysd["name"], frame, pm, k_, ev), nontrivial=kind != "plain")
                            hist["trace-event-step"] = hist.get("trace-event-step", 0) + 1
                            dP_ = norm([a - b for a, b in zip(i1["P"], i0["P"])]) / i0["Pscale"]
                            Rs = math.fsum(abs(p_[0]) * norm(p_[1:4]) for p_ in ps1) + i0["Pscale"] * abs(dt_)
                            dRv = [(a - b - pp * dt_) / i0["M"] for a, b, pp in zip(i1["R"], i0["R"], i0["P"])]
                            dR_ = norm(dRv) * i0["M"] / Rs
                            worst["trace-event-step:dP"] = max(worst.get("trace-event-step:dP", 0.0), dP_)
                            worst["trace-event-step:dCOM"] = max(worst.get("trace-event-step:dCOM", 0.0), dR_)
                            rep = dict(system=sysd, factors=fct, steps_before_event=k_, dt=dt_, com_pos_before_step=stale, state_before_step=ps0, dP=dP_, dCOM=dR_, com_jump=dRv)
                            if abs(i1["M"] - i0["M"]) > 0:
                                viol.append(("trace-event-step:M", "TRACE: total mass changed in the step after '%s'" % ev, rep))
                            if dP_ > bPk:
                                viol.append(("trace-event-step:P:" + kind, "TRACE: momentum changes by %.3g (relative) in a %s step right after '%s' (%s, peri_mode=%s)" % (dP_, kind, ev, frame, PERI[pm]), rep))
                            if dR_ > bRk:
                                viol.append(("trace-event-step:COM:" + kind, "TRACE: the centre of mass jumps by (%.3g, %.3g, %.3g) in ONE %s step taken right after '%s' (%s frame, peri_mode=%s, %d steps before the event; "
                                             "ri_trace.com_pos held (%.3g, %.3g, %.3g) before the step)" % (dRv[0], dRv[1], dRv[2], kind, ev, frame, PERI[pm], k_, stale[0], stale[1], stale[2]), rep))
                            if whseq and kind in TK["kind"]:
                                cp_, cv_ = sim.ri_trace._com_pos, sim.ri_trace._com_vel
                                lines2.append(" ".join(["tracecom", str(len(ps0)), str(len(ps0)), d2h(dt_), "1" if rej else "0", d2h(stale[0]), d2h(stale[1]), d2h(stale[2])] + part_tokens(ps0)))
                                expect2.append([cp_.x, cp_.y, cp_.z, cv_.x, cv_.y, cv_.z]); meta2.append(("tracecom", len(ps0), kind, ev))
                except Exception as ex:
                    viol.append(("crash:trace-event-step", "TRACE event/step block raised %r (%s, %s, peri_mode=%s)" % (ex, sysd["name"], frame, PERI[pm]), dict(system=sysd, frame=frame)))
    c.cov["trace_event_step_kinds"] = tk_hist
    tkrep = tklog.report(); tkrep["factors"] = {k_: len(v_) for k_, v_ in TK.items()}
    c.cov["pairs_trace_event_step"] = tkrep
    if tkrep["covered"] < tkrep["total"]:
        c.broken.append("coverage: %d of %d (step kind, event, frame, peri_mode) pairs of the TRACE event-before-step block were not evaluated, e.g. %s" % (tkrep["total"] - tkrep["covered"], tkrep["total"], tkrep["missing"][:3]))
    if any(k_.startswith("unclassified") for k_ in tk_hist):
        c.broken.append("TRACE step classification: unexpected number of interaction-step force calls: %s" % {k_: v_ for k_, v_ in tk_hist.items() if k_.startswith("unclassified")})
    out2 = run_driver(exe, lines2) if lines2 else []
    if len(out2) != len(lines2):
        c.corr_break("driver returned %d lines for %d tracecom ops" % (len(out2), len(lines2)))
    else:
        for g, e, mt, l in zip(out2, expect2, meta2, lines2):
            if g.split() == [d2h(v) for v in e]:
                st["bitwise_equal"] += 1
            else:
                st["disagree"] += 1
                c.corr_break("TRACE com_pos/com_vel after a %s step following '%s' differ from the model (part2Com)" % (mt[2], mt[3]),
                             {"op": "tracecom", "N": mt[1], "op_line": l[:1500], "model": g[:400], "impl": " ".join(d2h(v) for v in e)})
                break
    c.cov["model_lines_compared"] = len(lines) + len(lines2)
    c.cov["correspondence"] = st

    # ======================================================================= search: merging collisions conserve m, P, COM
    nm = 0
    for case in range(30 * T):
        rng = c.rng.fork()
        it = rng.choice(["leapfrog", "ias15", "whfast", "mercurius", "trace", "bs", "janus" if False else "leapfrog"])
        sim = rebound.Simulation()
        sim.integrator = it
        sim.collision = "direct"
        sim.collision_resolve = "merge"
        sim.track_energy_offset = 1
        sim.add(m=1.0, r=0.005)
        a1 = 1.0
        sim.add(m=1e-4, a=a1, e=0.0, f=0.0, r=rng.uniform(0.002, 0.01))
        sim.add(m=rng.choice([1e-4, 1e-5, 3e-4]), a=a1 * (1 + rng.uniform(0.0005, 0.003)), e=rng.uniform(0, 0.01), f=rng.uniform(0.03, 0.12), r=rng.uniform(0.002, 0.01))
        sim.add(m=1e-5, a=2.5, e=0.02, f=1.0, r=0.001)
        sim.move_to_com()
        for i in range(sim.N):
            sim.particles[i].vx += 0.1; sim.particles[i].vz += 0.03
        sim.dt = 2 * math.pi / 50
        i0 = invariants(raw(sim), 1.0)
        E0 = sim.energy()
        t0 = sim.t
        n0 = sim.N
        merged = False
        try:
            for ch in range(40):
                sim.steps(25)
                sim.synchronize()
                if sim.N < n0:
                    merged = True
                    break
        except Exception as ex:
            viol.append(("merge-run:crash", "integration with merging collisions raised %r (%s)" % (ex, it), dict(integrator=it, case=case)))
            continue
        if not merged:
            continue
        nm += 1
        c.count(("merge-run", it, case % 5))
        hist["merge-run"] = hist.get("merge-run", 0) + 1
        ps = raw(sim)
        if any(v != v for p in ps for v in p):
            viol.append(("merge-run:nan", "NaN particle after a merge with %s" % it, dict(integrator=it)))
            continue
        iv = invariants(ps, 1.0)
        tt = sim.t - t0
        dM = abs(iv["M"] - i0["M"]) / i0["M"]
        dPm = norm([a - b for a, b in zip(iv["P"], i0["P"])]) / i0["Pscale"]
        Rs = math.fsum(abs(p[0]) * norm(p[1:4]) for p in ps) + i0["Pscale"] * abs(tt)
        dRm = norm([a - b - pp * tt for a, b, pp in zip(iv["R"], i0["R"], i0["P"])]) / Rs
        dEm = abs(sim.energy() - E0) / abs(E0)
        for nm_, v in (("dM", dM), ("dP", dPm), ("dCOM", dRm), ("dE+offset", dEm)):
            worst["merge-run:" + nm_] = max(worst.get("merge-run:" + nm_, 0.0), v)
        rep = dict(integrator=it, N_after=sim.N, dM=dM, dP=dPm, dCOM=dRm, dE=dEm)
        if dM > 1e-14:
            viol.append(("merge-run:mass:" + it, "a merging collision changed the total mass by %.3g (%s)" % (dM, it), rep))
        if dPm > 1e-10:
            viol.append(("merge-run:P:" + it, "a merging collision changed the total momentum by %.3g (%s)" % (dPm, it), rep))
        sig = None
        if dRm > 1e-9 and it == "trace":
            sig = rejected_step_signature([(a - b - pp * tt) / i0["M"] for a, b, pp in zip(iv["R"], i0["R"], i0["P"])], [pp / i0["M"] for pp in i0["P"]], sim.dt)
        if sig is not None:
            viol.append(("FC04a:trace-rejected-step-com", "TRACE: centre of mass jumps by %d x dt x V_com (rejected steps) in a run with a merging collision" % sig, rep))
        elif dRm > 1e-9:
            viol.append(("merge-run:COM:" + it, "centre of mass jumps by %.3g across a merging collision (%s)" % (dRm, it), rep))
    # ======================================================================= public entry points (extracted from rebound.h / the Python classes)
    import re as _re
    hdr = open(os.path.join(REPO, "src", "rebound.h")).read()
    entry = set(_re.findall(r"^DLLEXPORT[^;(]*?\b(reb_simulation_(?:energy|angular_momentum|com|com_range|jacobi_com|move_to_hel|move_to_com|step|steps|integrate|synchronize)|reb_particle_com_of_pair|"
                            r"reb_collision_resolve_merge|reb_whfast_(?:interaction|jump|kepler|com)_step|reb_integrator_whfast_(?:from_inertial|to_inertial|init))\s*\(", hdr, flags=_re.M))
    pysim = open(os.path.join(REPO, "rebound", "simulation.py")).read()
    pymeth = set(_re.findall(r"^    def (energy|angular_momentum|com|move_to_com|move_to_hel|integrate|step|steps|synchronize)\(", pysim, flags=_re.M))
    pymeth |= {"Particle." + m_ for m_ in _re.findall(r"^    def (jacobi_com)\(", open(os.path.join(REPO, "rebound", "particle.py")).read(), flags=_re.M)}
    used = {"reb_simulation_energy", "reb_simulation_angular_momentum", "reb_simulation_com", "reb_simulation_com_range", "reb_collision_resolve_merge",
            "reb_simulation_steps", "reb_simulation_step", "reb_simulation_integrate", "reb_simulation_synchronize", "reb_simulation_move_to_com",
            "energy", "angular_momentum", "com", "move_to_com", "integrate", "steps", "synchronize"} if (hist.get("diag") and ran and hist.get("merge")) else set()
    if prim_hist:
        used |= {"reb_whfast_interaction_step", "reb_whfast_kepler_step", "reb_whfast_com_step", "reb_whfast_jump_step", "reb_integrator_whfast_from_inertial",
                 "reb_integrator_whfast_to_inertial", "reb_integrator_whfast_init"}
    # the remaining ones, each against the fsum oracle
    for case in range(6):
        rng = c.rng.fork()
        n = rng.randint(2, 7)
        ps, _k = gen_parts(rng, n)
        for p_ in ps:
            p_[0] = abs(p_[0]) + 1e-3
        simE = mk(ps)
        # reb_particle_com_of_pair / reb_simulation_com_range(first,last) / Particle.jacobi_com
        a_, b_ = rng.randint(0, n - 1), rng.randint(1, n)
        lo, hi = min(a_, b_ - 1), max(a_ + 1, b_)
        cr = simE.com(first=lo, last=hi)
        Mr = math.fsum(p_[0] for p_ in ps[lo:hi])
        okc = abs(cr.m - Mr) <= 8 * n * EPS * Mr
        for cc, g_ in enumerate((cr.x, cr.y, cr.z, cr.vx, cr.vy, cr.vz)):
            w_ = math.fsum(p_[0] * p_[1 + cc] for p_ in ps[lo:hi]) / Mr
            sc_ = math.fsum(abs(p_[0] * p_[1 + cc]) for p_ in ps[lo:hi]) / Mr
            okc = okc and abs(g_ - w_) <= 32 * (n + 4) * EPS * sc_
        if not okc:
            viol.append(("entry:com_range", "sim.com(first=%d,last=%d) differs from the mass-weighted mean of that range" % (lo, hi), dict(ps=ps, first=lo, last=hi)))
        used |= {"reb_simulation_com_range"}
        clib.reb_particle_com_of_pair.restype = rebound.Particle
        pp_ = clib.reb_particle_com_of_pair(simE.particles[0], simE.particles[1])
        w_ = (ps[0][0] * ps[0][1] + ps[1][0] * ps[1][1]) / (ps[0][0] + ps[1][0])
        if not (abs(pp_.m - (ps[0][0] + ps[1][0])) <= 4 * EPS * pp_.m and abs(pp_.x - w_) <= 16 * EPS * (abs(ps[0][1]) + abs(ps[1][1]))):
            viol.append(("entry:com_of_pair", "reb_particle_com_of_pair differs from the two-body centre of mass", dict(ps=ps[:2])))
        used.add("reb_particle_com_of_pair")
        k_ = rng.randint(1, n - 1)
        jc = simE.particles[k_].jacobi_com
        w_ = math.fsum(p_[0] * p_[1] for p_ in ps[:k_]) / math.fsum(p_[0] for p_ in ps[:k_])
        if not abs(jc.x - w_) <= 32 * (n + 4) * EPS * math.fsum(abs(p_[0] * p_[1]) for p_ in ps[:k_]) / math.fsum(p_[0] for p_ in ps[:k_]):
            viol.append(("entry:jacobi_com", "Particle.jacobi_com differs from the centre of mass of the particles below it", dict(ps=ps, index=k_)))
        used |= {"reb_simulation_jacobi_com", "Particle.jacobi_com"}
        # move_to_hel: particle 0 at rest at the origin, all relative vectors unchanged, energy by the frame-shift formula with (R,V) = particle 0
        E0_ = simE.energy(); simE.step if False else None
        simE.move_to_hel()
        q0 = simE.particles[0]
        okh = (q0.x, q0.y, q0.z, q0.vx, q0.vy, q0.vz) == (0.0,) * 6
        for i_ in range(1, n):
            qi = simE.particles[i_]
            for cc, g_ in enumerate((qi.x, qi.y, qi.z, qi.vx, qi.vy, qi.vz)):
                okh = okh and abs(g_ - (ps[i_][1 + cc] - ps[0][1 + cc])) <= 4 * EPS * (abs(ps[i_][1 + cc]) + abs(ps[0][1 + cc]))
        V0 = ps[0][4:7]
        wantE = math.fsum([E0_, -sum(V0[cc] * math.fsum(p_[0] * p_[4 + cc] for p_ in ps) for cc in range(3)), 0.5 * math.fsum(p_[0] for p_ in ps) * sum(v * v for v in V0)])
        Es_ = abs(E0_) + math.fsum(abs(0.5 * p_[0] * (p_[4] ** 2 + p_[5] ** 2 + p_[6] ** 2)) for p_ in ps) + 0.5 * math.fsum(p_[0] for p_ in ps) * sum(v * v for v in V0) + sum(abs(V0[cc]) * math.fsum(abs(p_[0] * p_[4 + cc]) for p_ in ps) for cc in range(3))
        scx = max(abs(v) for p_ in ps for v in p_[1:4]); dmin = min(math.sqrt(sum((ps[i_][1 + cc] - ps[j_][1 + cc]) ** 2 for cc in range(3))) for i_ in range(n) for j_ in range(i_ + 1, n))
        if not okh or not abs(simE.energy() - wantE) <= 64 * (n + 4) * EPS * Es_ * (1 + scx / dmin):
            viol.append(("entry:move_to_hel", "move_to_hel: particle 0 not at rest at the origin, relative vectors changed, or the energy does not follow the frame-shift formula", dict(ps=ps)))
        used |= {"reb_simulation_move_to_hel", "move_to_hel"}
        simS = mk(ps, integrator="leapfrog"); simS.dt = 1e-6; simS.step(); used.add("step")
    want_entry = set(entry) | pymeth
    c.cov["entry_points_extracted"] = sorted(want_entry)
    c.cov["entry_points_exercised"] = len(want_entry & used)
    if len(entry) < 20 or len(pymeth) < 10:
        c.broken.append("entry-point extraction found only %d C functions / %d Python methods" % (len(entry), len(pymeth)))
    if want_entry - used:
        c.broken.append("entry points not exercised in this run: " + ", ".join(sorted(want_entry - used)))
    c.cov["merge_runs_with_a_merge"] = nm
    dims["histories: integrator switched on one simulation"] = sw_runs
    dims["histories: pericentre switches (TRACE, all peri modes)"] = sum(peri_hits.values())
    dims["histories: close encounters (hybrid / adaptive schemes)"] = sum(v for k, v in hist.items() if k in ("mercurius", "trace"))
    dims["histories: merging collisions"] = nm
    dims["time: repeated integrate() output calls with shortened last steps, keep_unsynchronized=1 / safe_mode=0"] = nout
    dims["options: safe_mode=0"] = n_unsafe[0]
    dims["options: non-default adaptive options"] = n_nondefault[0]
    dims["geometry: moving centre of mass away from the origin"] = ran
    c.cov["dimensions"] = dict(sorted(dims.items()))
    for nm_, cnt_ in sorted(dims.items()):
        if cnt_ == 0:
            c.broken.append("coverage: dimension '%s' not covered" % nm_)
    c.cov["histogram"] = hist
    c.cov["worst_measured"] = {k: float("%.3g" % v) for k, v in sorted(worst.items())}
    seen = set()
    for key, what, rep in viol:
        if key in seen:
            continue
        seen.add(key)
        c.violation(key, what, rep)


if __name__ == "__main__":
    main("C04", run)
