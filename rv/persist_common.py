"""Shared helpers of the C05 / C17 checks: an independent re-parser of the binary stream format, the
real-code entry points (save / load / copy / diff through ctypes on the scratch build), pointer-slot
masks derived from the generated element layouts, and the configuration lattice of simulations."""
import ctypes, os, struct, sys, pickle, math
sys.path.insert(0, os.path.dirname(os.path.abspath(__file__)))
from common import *

END_ID = 9999
HEADER_ID = 1329743186   # "REBO" read as a little-endian uint32


# ----------------------------------------------------------------------------- stream format (written from the
# format description: 64 byte header; fields {u32 type, 4 pad, u64 size} + payload; END field; 12 byte blob trailer)
class StreamError(Exception):
    pass


def parse_stream(b, hdr=16):
    if len(b) < 64:
        raise StreamError("shorter than the header")
    pos, fields = 64, []
    while True:
        if pos + hdr > len(b):
            raise StreamError("no END field")
        t, = struct.unpack_from("<I", b, pos)
        sz, = struct.unpack_from("<Q", b, pos + 8)
        pos += hdr
        if t == END_ID:
            fields.append((t, b""))
            break
        if pos + sz > len(b):
            raise StreamError("field %d overruns the stream" % t)
        fields.append((t, bytes(b[pos:pos + sz])))
        pos += sz
    return bytes(b[:64]), fields, bytes(b[pos:])


def parse_archive(b, hdr=16, trailer=12):
    """archive file -> (header, [field list of snapshot 0, field list of blob 1, ...]); every blob ends with END + trailer"""
    header, f0, rest = parse_stream(b, hdr)
    blobs = [f0]
    pos = len(b) - len(rest) + trailer
    while pos + hdr <= len(b):
        fields = []
        while True:
            if pos + hdr > len(b):
                raise StreamError("blob without END")
            t, = struct.unpack_from("<I", b, pos)
            sz, = struct.unpack_from("<Q", b, pos + 8)
            pos += hdr
            if t == END_ID:
                fields.append((t, b""))
                break
            fields.append((t, bytes(b[pos:pos + sz])))
            pos += sz
        blobs.append(fields)
        pos += trailer
    return header, blobs


def frame(header, fields, tail, pad=b"\0\0\0\0"):
    out = [header]
    for t, p in fields:
        out.append(struct.pack("<I", t) + pad + struct.pack("<Q", len(p)) + p)
    out.append(tail)
    return b"".join(out)


def fields_line(fields):
    return " ".join("%d %s" % (t, p.hex() if p else "-") for t, p in fields)


def parse_fields_line(toks):
    return [(int(toks[i]), b"" if toks[i + 1] == "-" else bytes.fromhex(toks[i + 1])) for i in range(0, len(toks) - 1, 2)]


# ----------------------------------------------------------------------------- real code
class Treecell(ctypes.Structure):
    _fields_ = [("x", ctypes.c_double), ("y", ctypes.c_double), ("z", ctypes.c_double), ("w", ctypes.c_double),
                ("m", ctypes.c_double), ("mx", ctypes.c_double), ("my", ctypes.c_double), ("mz", ctypes.c_double),
                ("oct", ctypes.c_void_p * 8), ("pt", ctypes.c_int), ("remote", ctypes.c_int)]


class Real:
    def __init__(self, rebound, info):
        self.rb = rebound
        self.lib = rebound.clibrebound
        self.info = info
        self.lib.reb_simulation_diff.restype = ctypes.c_int
        self.lib.reb_binary_diff.restype = ctypes.c_int
        self.names = {r["id"]: r["name"] for r in info["rows"]}
        self.wall_ids = {r["id"] for r in info["rows"] if r["name"].startswith(info["wallprefix"])}
        # pointer slots per field id: (element size, [(off,size)])
        self.ptrslots = {}
        for r in info["rows"]:
            el = r.get("elem")
            if r["dtype"] in ("REB_PARTICLE", "REB_PARTICLE4"):
                el = "reb_particle"
            if el and el in info["elems"]:
                mem = info["elems"][el]["members"]
                sl = [(m["off"], m["size"]) for m in mem if m["kind"] in ("ptr", "fptr")]
                # compiler padding between members is not a persisted quantity either (struct assignment copies garbage)
                pos = 0
                for off, size in sorted((m["off"], m["size"]) for m in mem):
                    if off > pos:
                        sl.append((pos, off - pos))
                    pos = max(pos, off + size)
                if pos < info["elems"][el]["size"]:
                    sl.append((pos, info["elems"][el]["size"] - pos))
                if sl:
                    self.ptrslots[r["id"]] = (info["elems"][el]["size"], sl)

    def save(self, sim):
        buf = ctypes.c_char_p()
        size = ctypes.c_size_t()
        self.lib.reb_simulation_save_to_stream(ctypes.byref(sim), ctypes.byref(buf), ctypes.byref(size))
        s = bytes(ctypes.string_at(buf, size=size.value))
        self.lib.reb_simulation_output_free_stream(buf)
        return s

    def load_bytes(self, b):
        import warnings
        with warnings.catch_warnings(record=True) as w:
            warnings.simplefilter("always")
            sim = self.rb.Simulation(b)
        return sim, [str(x.message) for x in w]

    def load_file(self, fn):
        import warnings
        with warnings.catch_warnings(record=True) as w:
            warnings.simplefilter("always")
            sim = self.rb.Simulation(fn)
        return sim, [str(x.message) for x in w]

    def copy(self, sim):
        import warnings
        with warnings.catch_warnings(record=True) as w:
            warnings.simplefilter("always")
            c = sim.copy()
        return c, [str(x.message) for x in w]

    def diff(self, a, b):
        """return value of reb_simulation_diff(a,b,2): 0 equal, 1 different"""
        return self.lib.reb_simulation_diff(ctypes.byref(a), ctypes.byref(b), ctypes.c_int(2))

    def binary_diff(self, b1, b2):
        return self.lib.reb_binary_diff(ctypes.c_char_p(b1), ctypes.c_size_t(len(b1)), ctypes.c_char_p(b2),
                                        ctypes.c_size_t(len(b2)), None, None, ctypes.c_int(2))

    def binary_diff_report(self, b1, b2):
        """(return value, field list) reb_binary_diff writes with output_option 0 — the difference stream of archives"""
        buf = ctypes.POINTER(ctypes.c_char)()
        size = ctypes.c_size_t(0)
        rc = self.lib.reb_binary_diff(ctypes.c_char_p(b1), ctypes.c_size_t(len(b1)), ctypes.c_char_p(b2),
                                      ctypes.c_size_t(len(b2)), ctypes.byref(buf), ctypes.byref(size), ctypes.c_int(0))
        data = ctypes.string_at(buf, size.value) if (size.value and buf) else b""
        if buf:
            libc = ctypes.CDLL(None)
            libc.free.argtypes = [ctypes.c_void_p]
            libc.free(ctypes.cast(buf, ctypes.c_void_p))
        pos, fields = 0, []
        while pos + 16 <= len(data):
            t, = struct.unpack_from("<I", data, pos)
            sz, = struct.unpack_from("<Q", data, pos + 8)
            fields.append((t, data[pos + 16:pos + 16 + sz]))
            pos += 16 + sz
        if pos != len(data):
            raise StreamError("difference stream is not a whole number of fields")
        return rc, fields

    def addr(self, sim):
        return ctypes.addressof(sim)

    # -- the tree, walked through raw memory (struct reb_treecell of tree.h, QUADRUPOLE not compiled)
    def tree_expected(self, sim):
        return sim.gravity == "tree" or sim.collision in ("tree", "linetree")

    def tree_leaves(self, sim):
        """sorted particle indices stored in leaf cells of the simulation's tree; None if there is no tree"""
        base = ctypes.addressof(sim)
        root = ctypes.c_void_p.from_address(base + self.info["by_path"]["tree_root"]["off"]).value
        if not root:
            return None
        nroot = ctypes.c_int.from_address(base + self.info["by_path"]["N_root"]["off"]).value
        roots = (ctypes.c_void_p * nroot).from_address(root)
        leaves, stack = [], [x for x in roots if x]
        while stack:
            cell = Treecell.from_address(stack.pop())
            if cell.pt >= 0:
                leaves.append(cell.pt)
            else:
                stack.extend(x for x in cell.oct if x)
            if len(leaves) > 10 ** 6:
                break
        return sorted(leaves)

    def tree_complete(self, sim):
        lv = self.tree_leaves(sim)
        return lv is not None and lv == list(range(sim.N))

    def collision_signature(self, sim, t0):
        """(N, total mass, number of particles that collided after t0, cumulative hard-sphere collision count)"""
        ps = sim.particles
        n = sim.N
        return (n, math.fsum(ps[i].m for i in range(n)), sum(1 for i in range(n) if ps[i].last_collision > t0),
                ctypes.c_int64.from_address(ctypes.addressof(sim) + self.info["by_path"]["collisions_log_n"]["off"]).value)

    def raw_member_differences(self, a, b, skip=()):
        """persisted scalar members whose raw bytes differ between two simulations (struct memory, not streams)"""
        out = []
        for r in self.info["rows"]:
            p_ = r.get("path")
            if not p_ or p_ in skip or r["dtype"] not in ("REB_DOUBLE", "REB_INT", "REB_UINT", "REB_UINT32", "REB_INT64", "REB_UINT64", "REB_VEC3D"):
                continue
            if r["name"].startswith(self.info["wallprefix"]):
                continue
            m = self.info["by_path"][p_]
            if ctypes.string_at(ctypes.addressof(a) + m["off"], m["size"]) != ctypes.string_at(ctypes.addressof(b) + m["off"], m["size"]):
                out.append(p_)
        return out

    # -- masks
    def mask_payload(self, fid, p, extra=()):
        if fid not in self.ptrslots:
            return p
        esz, slots = self.ptrslots[fid]
        b = bytearray(p)
        for e in range(0, len(b) - esz + 1, esz):
            for off, size in slots:
                b[e + off:e + off + size] = b"\0" * size
        return bytes(b)

    def masked(self, fields, drop_wall=True):
        return [(t, self.mask_payload(t, p)) for t, p in fields if not (drop_wall and t in self.wall_ids)]

    def persisted_view(self, sim, drop_wall=True):
        """oracle view of 'every persisted quantity': field list of the stream, pointer slots zeroed"""
        _, f, _ = parse_stream(self.save(sim))
        return self.masked(f, drop_wall)

    def first_difference(self, fa, fb):
        da, db = dict(fa), dict(fb)
        for t, p in fa:
            if t not in db:
                return "%s(%d) missing in second" % (self.names.get(t, "?"), t)
            if db[t] != p:
                q = db[t]
                if len(q) != len(p):
                    return "%s(%d) size %d vs %d" % (self.names.get(t, "?"), t, len(p), len(q))
                i = next(i for i in range(len(p)) if p[i] != q[i])
                return "%s(%d) byte %d of %d: %s vs %s" % (self.names.get(t, "?"), t, i, len(p), p[i:i + 8].hex(), q[i:i + 8].hex())
        for t, p in fb:
            if t not in da:
                return "%s(%d) missing in first" % (self.names.get(t, "?"), t)
        if [t for t, _ in fa] != [t for t, _ in fb]:
            return "field order differs"
        return None


# ----------------------------------------------------------------------------- configuration lattice
WH_COORDS = ["jacobi", "democraticheliocentric", "whds", "barycentric"]
WH_KERNELS = ["default", "modifiedkick", "composition", "lazy"]
SABA_TYPES = ["1", "2", "3", "4", "cm1", "cm2", "cm3", "cm4", "cl1", "cl2", "cl3", "cl4", "10,4", "8,6,4", "10,6,4",
              "h8,4,4", "h8,6,4", "h10,6,4"]
EOS_TYPES = ["lf", "lf4", "lf6", "lf8", "lf4_2", "lf8_6_4", "plf7_6_4", "pmlf4", "pmlf6"]


def lattice(thorough):
    """list of configuration dicts (JSON-able; replayable with build_sim)"""
    L = []

    def add(**kw):
        L.append(kw)
    # WHFast: all coordinates x safe_mode x keep_unsynchronized
    for co in WH_COORDS:
        for sm in (0, 1):
            add(integrator="whfast", o={"coordinates": co, "safe_mode": sm})
        add(integrator="whfast", o={"coordinates": co, "safe_mode": 0, "keep_unsynchronized": 1})
    for k in WH_KERNELS[1:]:
        for sm in (0, 1):
            add(integrator="whfast", o={"kernel": k, "safe_mode": sm})
    for corr in (3, 5, 7, 11, 17):
        add(integrator="whfast", o={"corrector": corr, "safe_mode": 0})
        if thorough:
            add(integrator="whfast", o={"corrector": corr, "safe_mode": 1})
    add(integrator="whfast", o={"corrector": 17, "corrector2": 1, "kernel": "lazy", "safe_mode": 0})
    add(integrator="whfast", o={"corrector": 11, "corrector2": 1, "kernel": "composition", "safe_mode": 0, "keep_unsynchronized": 1})
    # SABA
    for i, ty in enumerate(SABA_TYPES):
        if thorough:
            for sm in (0, 1):
                add(integrator="saba", o={"type": ty, "safe_mode": sm})
        else:
            add(integrator="saba", o={"type": ty, "safe_mode": i % 2})
    add(integrator="saba", o={"type": "cl4", "safe_mode": 0, "keep_unsynchronized": 1})
    # EOS
    pairs = [(a, b) for a in EOS_TYPES for b in EOS_TYPES] if thorough else \
        [(EOS_TYPES[i], EOS_TYPES[(2 * i + 3) % 9]) for i in range(9)] + [("lf4", "lf4"), ("pmlf6", "lf8")]
    for i, (a, b) in enumerate(pairs):
        add(integrator="eos", o={"phi0": a, "phi1": b, "n": 2 + i % 3, "safe_mode": i % 2})
    # IAS15
    for am in (0, 1, 2, 3):
        add(integrator="ias15", o={"adaptive_mode": am})
    add(integrator="ias15", o={"epsilon": 0.0})
    add(integrator="ias15", o={"epsilon": 1e-6, "min_dt": 1e-3})
    # MERCURIUS / TRACE (with close encounters)
    for sm in (0, 1):
        add(integrator="mercurius", o={"safe_mode": sm, "r_crit_hill": 4.0}, system="close")
        add(integrator="mercurius", o={"safe_mode": sm}, system="planets")
    for pm in (0, 1, 2):
        add(integrator="trace", o={"peri_mode": pm}, system="close")
        add(integrator="trace", o={"peri_mode": pm, "r_crit_hill": 4.0, "peri_crit_eta": 0.8}, system="peri")
    # BS, JANUS, LEAPFROG, SEI, NONE
    add(integrator="bs", o={})
    add(integrator="bs", o={"eps_abs": 1e-6, "eps_rel": 1e-6})
    add(integrator="bs", o={"eps_abs": 1e-10, "eps_rel": 1e-10, "max_dt": 0.05, "min_dt": 1e-5})
    add(integrator="bs", o={"eps_abs": 1e-4, "eps_rel": 1e-4}, system="close")
    for od in (2, 4, 6, 8, 10):
        add(integrator="janus", o={"order": od, "scale_pos": 1e-14, "scale_vel": 1e-14})
    add(integrator="leapfrog", o={})
    add(integrator="sei", o={"OMEGA": 1.0}, system="sheet")
    add(integrator="sei", o={"OMEGA": 1.0, "OMEGAZ": 1.3}, system="sheet")
    base = list(L)
    # modules / particle kinds on a few integrators
    for integ, o in (("whfast", {"safe_mode": 0}), ("ias15", {}), ("leapfrog", {}), ("bs", {}), ("mercurius", {"safe_mode": 0}), ("trace", {})):
        add(integrator=integ, o=o, testparticles=1, system="planets" if integ not in ("mercurius", "trace") else "close")
        add(integrator=integ, o=o, testparticles=2, system="planets" if integ not in ("mercurius", "trace") else "close")
    for integ, o in (("whfast", {"safe_mode": 0}), ("whfast", {"safe_mode": 1}), ("ias15", {}), ("ias15", {"adaptive_mode": 1}),
                     ("bs", {}), ("leapfrog", {}), ("saba", {"type": "10,6,4", "safe_mode": 0}), ("eos", {"phi0": "lf4", "phi1": "lf", "safe_mode": 0})):
        add(integrator=integ, o=o, variational=1)
        add(integrator=integ, o=o, variational=2)
        add(integrator=integ, o=o, megno=1)
    for integ, o in (("ias15", {}), ("leapfrog", {}), ("whfast", {"safe_mode": 0}), ("mercurius", {}), ("trace", {}), ("bs", {})):
        add(integrator=integ, o=o, collision="direct", system="collide")
        add(integrator=integ, o=o, collision="line", system="collide")
    for integ in ("leapfrog", "ias15"):
        add(integrator=integ, o={}, gravity="tree", collision="tree", boundary="open", system="box")
        add(integrator=integ, o={}, gravity="compensated")
        add(integrator=integ, o={}, gravity="basic", boundary="periodic", system="box")
        add(integrator=integ, o={}, collision="linetree", boundary="open", system="box")
    for integ in ("leapfrog", "ias15"):
        for coll in ("linetree", "tree", "direct"):
            for grav in ("basic", "none", "tree"):
                if grav == "tree" and coll == "direct":
                    continue
                if grav == "none" and integ == "ias15":
                    continue          # IAS15 without forces: the step size grows without bound
                for res in ("merge", "hardsphere"):
                    add(integrator=integ, o={}, gravity=grav, collision=coll, resolve=res, boundary="periodic", system="boxdense")
    # cross-cutting dimensions (BUILDERS-deepen.md): each crossed with a few integrators
    dimint = [("whfast", {"safe_mode": 0}), ("whfast", {"safe_mode": 0, "keep_unsynchronized": 1}), ("ias15", {}), ("leapfrog", {}),
              ("mercurius", {"safe_mode": 0}), ("saba", {"safe_mode": 0}), ("bs", {}), ("janus", {"scale_pos": 1e-14, "scale_vel": 3e-15})]
    if thorough:
        dimint += [("trace", {}), ("eos", {"safe_mode": 0, "phi0": "lf4", "phi1": "lf"}), ("whfast", {"safe_mode": 1, "corrector": 11})]
    for integ, o in dimint:
        sysn = "close" if integ in ("mercurius", "trace") else "planets"
        for extra in ({"roles": "zero_mass_active"}, {"roles": "single_active"}, {"roles": "massless_and_massive_tp"},
                      {"variational": 3, "testparticles": 1}, {"G": 39.4784176, "softening": 1e-3}, {"dtneg": 1}, {"com": 1},
                      {"advance": "integrate"}, {"advance": "integrate_eft0"}, {"advance": "integrate_split"}, {"advance": "integrate_reverse"},
                      {"t0": 1.0e9}, {"cb": ["additional_forces"]}, {"cb": ["additional_forces_vel"]}, {"cb": ["heartbeat", "pre"]},
                      {"cb": ["post"]}, {"cb": ["pre"]}, {"units": 1}, {"hashes": 1}, {"system": "hyper"}, {"dt0": 3.0}):
            if extra.get("variational") and integ in ("mercurius", "saba", "janus", "trace", "bs"):
                continue
            if extra.get("dt0") and integ not in ("ias15", "bs", "mercurius", "trace"):
                continue
            if extra.get("dtneg") and integ == "trace":
                continue          # F10: TRACE does not support dt < 0
            cfg_ = dict({"integrator": integ, "o": o, "system": sysn}, **extra)
            L.append(cfg_)
    for integ in ("leapfrog", "ias15", "whfast"):
        add(integrator=integ, o={}, system="n0")      # (WHFast/SABA used to segfault on an empty simulation: fixed by f0ce3d6)
        add(integrator=integ, o={}, system="n1")
        add(integrator=integ, o={}, system="big130")
    add(integrator="leapfrog", o={}, system="big1030")
    add(integrator="whfast", o={"safe_mode": 0}, system="big1030")
    add(integrator="leapfrog", o={}, gravity="tree", collision="tree", boundary="periodic", system="rootboxes")
    add(integrator="leapfrog", o={}, gravity="basic", collision="linetree", boundary="open", system="rootboxes")
    add(integrator="mercurius", o={"safe_mode": 0}, system="close", cb=["mercurius_L"])
    add(integrator="mercurius", o={"safe_mode": 1}, system="planets", cb=["mercurius_L"])
    add(integrator="sei", o={"OMEGA": 1.0}, collision="direct", resolve="hardsphere", system="shearsheet")
    add(integrator="leapfrog", o={}, collision="direct", resolve="callable", system="collide")
    add(integrator="ias15", o={}, collision="direct", resolve="callable", system="collide")
    add(integrator="whfast", o={"safe_mode": 0}, scalars=1)
    add(integrator="ias15", o={}, scalars=1, display=1)
    out = []
    for cfg in L:
        cfg.setdefault("system", "planets")
        for sa in (0, 1, 7):
            c2 = dict(cfg)
            c2["save_after"] = sa
            out.append(c2)
    return out


def cfg_key(cfg):
    return json.dumps({k: v for k, v in cfg.items() if k not in ("path",)}, sort_keys=True)


def build_sim(rb, cfg):
    """construct the simulation of a configuration (before any step)"""
    sim = rb.Simulation()
    sim.rand_seed = 20240930      # reb_simulation_init seeds from the clock; twins must be comparable
    if cfg.get("units"):
        sim.units = ("yr", "AU", "Msun")
    system = cfg.get("system", "planets")
    integ = cfg["integrator"]
    sim.integrator = integ
    sim.dt = 0.0123
    if system == "planets":
        sim.add(m=1.0)
        sim.add(m=1e-3, a=1.0, e=0.05, f=0.3)
        sim.add(m=3e-4, a=1.7, e=0.1, inc=0.05, f=2.0)
        sim.add(m=1e-4, a=2.9, e=0.02, Omega=1.0, f=4.0)
    elif system == "close":
        sim.add(m=1.0)
        sim.add(m=1e-3, a=1.0, e=0.0, f=0.0)
        sim.add(m=1e-3, a=1.04, e=0.02, f=0.05)     # within a few Hill radii: permanent close encounter
        sim.add(m=1e-4, a=2.2, e=0.1, f=1.0)
        sim.dt = 0.02
    elif system == "peri":
        sim.add(m=1.0)
        sim.add(m=1e-3, a=1.0, e=0.97, f=-0.35)      # deep pericentre passage within a few steps
        sim.add(m=1e-3, a=2.5, e=0.1, f=1.0)
        sim.dt = 0.02
    elif system == "collide":
        sim.add(m=1.0, r=0.005)
        sim.add(m=1e-3, a=1.0, e=0.0, f=0.0, r=0.01)
        sim.add(m=1e-3, a=1.0, e=0.0, f=0.08, r=0.01)   # will touch within a few steps? (approach along the orbit)
        sim.add(m=1e-4, a=1.0, e=0.3, f=0.3, r=0.02)
        sim.add(m=1e-4, a=2.2, e=0.1, f=1.0, r=0.01)
        sim.dt = 0.02
    elif system == "box":
        sim.configure_box(20.0)
        sim.G = 1.0
        set_modules(sim, cfg)     # tree modules must be chosen before particles are added (they enter the tree on add)
        import random
        rng = SplitMix(12345)
        for i in range(12):
            sim.add(m=0.01 + 0.001 * i, r=0.25, x=rng.uniform(-8, 8), y=rng.uniform(-8, 8), z=rng.uniform(-8, 8),
                    vx=rng.uniform(-.5, .5), vy=rng.uniform(-.5, .5), vz=rng.uniform(-.5, .5))
        sim.dt = 0.05
    elif system == "boxdense":
        sim.configure_box(10.0)
        sim.G = 1.0
        set_modules(sim, cfg)
        rng = SplitMix(4711)
        for i in range(40):
            sim.add(m=0.01 + 0.001 * i, r=0.45, x=rng.uniform(-4.5, 4.5), y=rng.uniform(-4.5, 4.5), z=rng.uniform(-4.5, 4.5),
                    vx=rng.uniform(-2, 2), vy=rng.uniform(-2, 2), vz=rng.uniform(-2, 2))
        sim.dt = 0.05
    elif system == "hyper":
        sim.add(m=1.0)
        sim.add(m=1e-3, a=1.0, e=0.05, f=0.3)
        sim.add(m=1e-5, a=-2.0, e=1.6, f=-1.0)          # unbound body on its way in
        sim.add(m=1e-4, a=2.9, e=0.02, f=4.0)
    elif system == "n0":
        pass
    elif system == "n1":
        sim.add(m=1.0, vx=0.01)
    elif system in ("big130", "big1030"):
        n = 130 if system == "big130" else 1030          # crosses the allocation boundaries 128 / 1024
        rng = SplitMix(99)
        sim.add(m=1.0)
        for i in range(n - 1):
            sim.add(m=1e-9, a=1.0 + 0.01 * i, e=rng.uniform(0, 0.05), f=rng.uniform(0, 6.28), inc=rng.uniform(0, 0.02))
    elif system == "rootboxes":
        sim.configure_box(10.0, 2, 1, 3)                 # non-square root box layout
        sim.G = 1.0
        set_modules(sim, cfg)
        rng = SplitMix(31)
        for i in range(14):
            sim.add(m=0.01, r=0.3, x=rng.uniform(-9, 9), y=rng.uniform(-4.5, 4.5), z=rng.uniform(-14, 14),
                    vx=rng.uniform(-1, 1), vy=rng.uniform(-1, 1), vz=rng.uniform(-1, 1))
        sim.particles[3].x = 10.0 - 1e-12                # (almost) on a face of the box
        sim.dt = 0.05
    elif system == "shearsheet":
        sim.configure_box(2.0)
        sim.N_ghost_x = 1; sim.N_ghost_y = 1
        sim.gravity = "none"
        sim.boundary = "shear"
        sim.G = 1.0
        sim.t = 3.7                                      # shear boundary at t != 0
        for i in range(6):
            sim.add(m=1e-6, r=0.01, x=0.3 * i - 0.8, y=0.25 * i - 0.7, z=0.01 * i, vx=0.01 * i, vy=-1.5 * (0.3 * i - 0.8), vz=0.002)
        sim.dt = 0.02
    elif system == "swarm":
        rng = SplitMix(cfg.get("seed", 1))
        sim.add(m=1.0, r=0.005)
        for i in range(8):
            sim.add(m=rng.loguniform(1e-5, 3e-3), a=1.0 + 0.03 * i + rng.uniform(0, 0.02), e=rng.uniform(0, 0.05),
                    f=rng.uniform(0, 6.28), r=rng.uniform(0.003, 0.02))
        sim.dt = 0.02
    elif system == "sheet":
        sim.gravity = "none"
        sim.G = 1.0
        for i in range(5):
            sim.add(m=1e-6, x=0.1 * i - 0.2, y=0.05 * i, z=0.01 * i, vx=0.01 * i, vy=-1.5 * (0.1 * i - 0.2), vz=0.002)
        sim.dt = 0.01
    else:
        raise ValueError(system)
    if cfg.get("units"):
        pass   # (units must be set before particles: handled at the top)
    role = cfg.get("roles")
    if role == "zero_mass_active":
        sim.add(m=0.0, a=3.6, e=0.05, f=2.2)            # active body of zero mass
    elif role == "single_active":
        sim.N_active = 1                                 # one active body, the planets become test particles
        sim.testparticle_type = 0
    elif role == "massless_and_massive_tp":
        sim.N_active = 2
        sim.testparticle_type = 1                        # massive test particles feel each other's host only
        sim.add(m=0.0, a=3.3, e=0.02, f=0.4)
    if cfg.get("G") is not None:
        sim.G = cfg["G"]
    if cfg.get("softening") is not None:
        sim.softening = cfg["softening"]
    if cfg.get("com"):
        for i in range(sim.N):                           # centre of mass away from the origin and moving
            p_ = sim.particles[i]
            p_.x += 3.25; p_.y -= 1.5; p_.z += 0.75; p_.vx += 0.11; p_.vy -= 0.07; p_.vz += 0.03
    if cfg.get("hashes"):
        for i, nm in enumerate(["sun", "mercury", "venus", "earth", "mars", "a", "b", "c"][:sim.N]):
            sim.particles[i].hash = nm
    if cfg.get("t0") is not None:
        sim.t = cfg["t0"]
    tp = cfg.get("testparticles", 0)
    if tp:
        sim.N_active = sim.N
        sim.add(a=1.35, e=0.05, f=1.0, primary=sim.particles[0])
        sim.add(a=2.3, e=0.2, f=3.0, primary=sim.particles[0])
        sim.testparticle_type = tp - 1
        if tp == 2:
            sim.particles[-1].m = 1e-7
    ri = {"whfast": "ri_whfast", "saba": "ri_saba", "eos": "ri_eos", "ias15": "ri_ias15", "mercurius": "ri_mercurius",
          "trace": "ri_trace", "bs": "ri_bs", "janus": "ri_janus", "sei": "ri_sei"}.get(integ)
    for k, v in cfg.get("o", {}).items():
        obj = getattr(sim, ri)
        if integ == "trace" and k == "peri_mode":
            # F6 (C18): the string property is shadowed by the ctypes field; set the integer
            obj.peri_mode = v
        else:
            setattr(obj, k, v)
    set_modules(sim, cfg)
    if cfg.get("variational") == 1:
        v = sim.add_variation()
        v.particles[1].x = 1.0
        v2 = sim.add_variation(testparticle=2) if False else None
    elif cfg.get("variational") == 2:
        va = sim.add_variation()
        vb = sim.add_variation()
        va.particles[1].x = 1.0
        vb.particles[2].vy = 1.0
        vab = sim.add_variation(order=2, first_order=va, first_order_2=vb)
    elif cfg.get("variational") == 3:
        vt = sim.add_variation(testparticle=sim.N - 1)   # variation of one (test) particle only
        vt.particles[0].vy = 1.0
    if cfg.get("megno"):
        sim.init_megno(seed=7)
    if cfg.get("dtneg"):
        sim.dt = -sim.dt
    if cfg.get("dt0") is not None:
        sim.dt = cfg["dt0"]                              # e.g. far too large: the first adaptive steps are rejected
    if cfg.get("scalars"):
        # every user-settable scalar of the main struct to a non-default value
        sim.G = 1.0000001
        sim.softening = 1e-4
        sim.exit_max_distance = 1e5
        sim.exit_min_distance = 1e-6
        sim.usleep = 0.0
        sim.track_energy_offset = 1
        sim.energy_offset = 1e-9
        sim.minimum_collision_velocity = 1e-7
        sim.collisions_plog = 3.5
        sim.collision_resolve_keep_sorted = 1
        sim.exact_finish_time = 0
        sim.force_is_velocity_dependent = 1
        sim.gravity_ignore_terms = 0
        sim.rand_seed = 4242
        sim.testparticle_hidewarnings = 1
        sim.opening_angle2 = 0.3
    if cfg.get("display"):
        rb.clibrebound.reb_simulation_add_display_settings(ctypes.byref(sim))
    attach(sim, cfg)
    return sim


def set_modules(sim, cfg):
    if cfg.get("gravity"):
        sim.gravity = cfg["gravity"]
    if cfg.get("boundary"):
        sim.boundary = cfg["boundary"]
    if cfg.get("collision"):
        sim.collision = cfg["collision"]


def _cb_additional_forces(reb_sim):
    if reb_sim.contents.N < 2:
        return
    ps = reb_sim.contents.particles
    ps[1].ax += 1e-6
    ps[1].ay -= 2e-6


def _cb_additional_forces_vel(reb_sim):
    if reb_sim.contents.N < 2:
        return
    ps = reb_sim.contents.particles
    ps[1].ax -= 1e-5 * ps[1].vx
    ps[1].ay -= 1e-5 * ps[1].vy


_CB_COUNT = {"heartbeat": 0, "pre": 0, "post": 0}


def _cb_heartbeat(reb_sim):
    _CB_COUNT["heartbeat"] += 1


def _cb_pre(reb_sim):
    _CB_COUNT["pre"] += 1 if reb_sim.contents.t == reb_sim.contents.t else 0     # read-only


def _cb_post(reb_sim):
    if reb_sim.contents.N < 3:
        return
    ps = reb_sim.contents.particles                                              # editing: a tiny drag on particle 2
    ps[2].vx *= (1.0 - 1e-9)


def _cb_collision(reb_sim, col):
    return 0      # callable resolver: ignore the collision, remove nothing


def attach(sim, cfg):
    """(re-)attach the callbacks of a configuration — the user's obligation after a load"""
    if cfg.get("collision"):
        if cfg.get("resolve") == "callable":
            sim.collision_resolve = _cb_collision
        else:
            sim.collision_resolve = cfg.get("resolve", "merge")
    for cb in cfg.get("cb", []):
        if cb == "additional_forces":
            sim.additional_forces = _cb_additional_forces
        elif cb == "additional_forces_vel":
            sim.additional_forces = _cb_additional_forces_vel
            sim.force_is_velocity_dependent = 1
        elif cb == "heartbeat":
            sim.heartbeat = _cb_heartbeat
        elif cb == "pre":
            sim.pre_timestep_modifications = _cb_pre
        elif cb == "post":
            sim.post_timestep_modifications = _cb_post
        elif cb == "mercurius_L":
            sim.ri_mercurius.L = "infinity"          # one of the named switching functions (a function pointer)
    sim._adv = cfg.get("advance")
    sim._dtn = cfg.get("dtn", 0.0123)


def advance(sim, n):
    """n plain steps, or — for configurations with "advance" — integrate() calls covering about n nominal steps"""
    if not n:
        return
    mode = getattr(sim, "_adv", None)
    if not mode:
        sim.steps(n)
        return
    sgn = -1.0 if sim.dt < 0 else 1.0
    span = n * getattr(sim, "_dtn", 0.0123) * sgn
    if mode == "integrate":
        sim.integrate(sim.t + span)                                  # exact_finish_time omitted (= 1)
    elif mode == "integrate_eft0":
        sim.integrate(sim.t + span, exact_finish_time=0)
    elif mode == "integrate_split":
        t0 = sim.t
        sim.integrate(t0 + 0.37 * span, exact_finish_time=0)
        sim.integrate(t0 + 0.71 * span, exact_finish_time=1)
        sim.integrate(t0 + span)
    elif mode == "outputs":
        t0 = sim.t
        for j in range(1, 5):                                        # repeated exact-finish output calls
            sim.integrate(t0 + span * j / 4.0, exact_finish_time=1)
    elif mode == "integrate_reverse":
        t0 = sim.t
        sim.integrate(t0 + span)
        sim.dt = -sim.dt                                             # direction reversal between calls
        sim.integrate(t0 + 0.5 * span)
        sim.dt = -sim.dt
    else:
        raise ValueError(mode)


def apply_ops(sim, ops):
    """structural / parameter operations of a history (applied identically to original and restored)"""
    for op in ops:
        if not (op.startswith("steps:") or op in ("sync", "dt", "save", "until_merge")):
            # REBOUND requires a synchronised state before particles / integrators are modified
            # ("Recalculating coordinates but pos/vel were not synchronized before")
            sim.synchronize()
        if op == "remove_last":
            sim.remove(index=sim.N - 1)
        elif op == "remove_mid":
            sim.remove(index=1)
        elif op == "add":
            sim.add(m=1e-5, x=3.7, y=0.1, vy=0.52, r=0.001)
        elif op == "add2":
            sim.add(m=2e-5, x=-4.4, vy=-0.47, vz=0.01, r=0.001)
        elif op == "mass":
            sim.particles[min(1, sim.N - 1)].m *= 1.001
        elif op == "dt":
            sim.dt *= 0.5
        elif op == "reset":
            sim.reset_integrator()
        elif op == "sync":
            sim.synchronize()
        elif op == "addvar":
            sim.add_variation()
        elif op == "radii":
            for i in range(sim.N):
                sim.particles[i].r = 0.004 + 0.001 * i          # radii edited after add
        elif op == "recalc_flag":
            # the documented "I have modified the particles" flags
            if sim.integrator == "whfast":
                sim.particles[1].vx *= 1.0 + 1e-9
                sim.ri_whfast.recalculate_coordinates_this_timestep = 1
            elif sim.integrator == "mercurius":
                sim.particles[1].m *= 1.001
                sim.ri_mercurius.recalculate_coordinates_this_timestep = 1
                sim.ri_mercurius.recalculate_r_crit_this_timestep = 1
            elif sim.integrator == "janus":
                sim.particles[1].vx *= 1.0 + 1e-9
                sim.ri_janus.recalculate_integer_coordinates_this_timestep = 1
        elif op == "save":
            import ctypes as _ct                                  # a snapshot written right before (its result is discarded)
            buf = _ct.c_char_p(); size = _ct.c_size_t()
            clib = sys.modules["rebound"].clibrebound
            clib.reb_simulation_save_to_stream(_ct.byref(sim), _ct.byref(buf), _ct.byref(size))
            clib.reb_simulation_output_free_stream(buf)
        elif op == "blowup_var":
            # make the variational particles large enough for reb_simulation_rescale_var to act in the next steps
            nv = sim.N_var
            for i in range(sim.N - nv, sim.N):
                p_ = sim.particles[i]
                for a_ in ("x", "y", "z", "vx", "vy", "vz"):
                    setattr(p_, a_, getattr(p_, a_) * 1e120 + 1e105)
        elif op == "until_merge":
            # the event "a collision was resolved in the step right before": a merge lowers N, the hard-sphere resolver
            # only counts (collisions_log_n).  Bounded in dt as well: IAS15 without forces quadruples dt every step and
            # the periodic wrap then loops |x| / boxsize times (practically a hang) after a few dozen steps
            n0, c0, dt0 = sim.N, sim.collisions_log_n, abs(sim.dt)
            for _ in range(60):
                sim.steps(1)
                if sim.N < n0 or sim.collisions_log_n > c0 or abs(sim.dt) > 1e3 * dt0:
                    break
        elif op.startswith("switch:"):
            sim.integrator = op.split(":")[1]
            sim.reset_integrator()          # documented way to discard the old integrator's temporary state
        elif op.startswith("switchraw:"):
            sim.integrator = op.split(":")[1]
        elif op.startswith("steps:"):
            sim.steps(int(op.split(":")[1]))
        else:
            raise ValueError(op)


PRE_OPS = [[], ["remove_last"], ["remove_last", "steps:2"], ["add", "steps:2", "remove_last"], ["remove_mid", "steps:1"],
           ["add", "steps:3"], ["reset"], ["switch:leapfrog", "steps:2"], ["switch:ias15", "steps:2", "remove_last"], ["sync"],
           ["switchraw:leapfrog", "steps:2"]]
POST_OPS = [[], ["add"], ["remove_last"], ["mass"], ["dt"], ["add", "add2"], ["remove_last", "add"], ["switch:leapfrog"],
            ["switch:ias15"], ["switch:whfast"], ["reset"], ["sync"], ["add", "mass", "dt"], ["switchraw:leapfrog"], ["switchraw:ias15"]]


# ----------------------------------------------------------------------------- cross-cutting dimensions
def case_dims(cfg, path=None, kind="one"):
    """names of the cross-cutting dimensions (BUILDERS-deepen.md) a case exercises"""
    o = cfg.get("o", {})
    d = ["path:" + str(path)] if path else []
    d.append("kind:" + kind)
    role = cfg.get("roles")
    tp = cfg.get("testparticles")
    if tp == 1:
        d.append("roles:testparticle_type0")
    if tp == 2:
        d += ["roles:testparticle_type1", "roles:massive_test_particle"]
    if role:
        d.append("roles:" + role)
    v = cfg.get("variational")
    if v in (1, 2):
        d.append("variational:order%d_nonzero" % v)
    if v == 3:
        d.append("variational:test_particle")
    if cfg.get("megno"):
        d.append("variational:megno")
    if o.get("safe_mode") == 0:
        d.append("options:safe_mode0")
    if o.get("keep_unsynchronized") == 1:
        d.append("options:keep_unsynchronized")
    if o.get("corrector") or o.get("corrector2"):
        d.append("options:corrector")
    if o.get("kernel") or o.get("coordinates"):
        d.append("options:kernel_or_coordinates")
    if cfg["integrator"] in ("ias15", "bs", "trace", "mercurius", "janus") and o:
        d.append("options:adaptive_or_scales_nondefault")
    if cfg.get("G") is not None or cfg.get("scalars"):
        d.append("options:G_softening")
    if cfg.get("dtneg"):
        d.append("time:dt_negative")
    adv = cfg.get("advance")
    if adv:
        d.append("time:" + adv)
    if cfg.get("t0") is not None or cfg.get("system") == "shearsheet":
        d.append("time:t_far_from_zero")
    for cb in cfg.get("cb", []):
        d.append("callbacks:" + cb)
    if cfg.get("collision"):
        d.append("callbacks:collision_resolve_" + ("callable" if cfg.get("resolve") == "callable" else "named"))
    if cfg.get("pre") or cfg.get("post"):
        d.append("histories:structural_ops")
        if any("switch" in op for op in cfg.get("pre", []) + cfg.get("post", [])):
            d.append("histories:integrator_switch")
        if any(op in ("add", "add2", "remove_last", "remove_mid") for op in cfg.get("pre", []) + cfg.get("post", [])):
            d.append("histories:add_remove")
        if "sync" in cfg.get("pre", []) + cfg.get("post", []):
            d.append("histories:explicit_synchronize")
    if cfg.get("gap") and cfg["gap"] != "step":
        d.append("histories:archive_gap_" + cfg["gap"])
    if cfg.get("dt0"):
        d.append("histories:rejected_first_steps")
    if cfg.get("system") in ("close", "peri", "swarm"):
        d.append("histories:close_encounter_or_pericentre")
    if cfg.get("com"):
        d.append("geometry:moving_com")
    if cfg.get("system") == "hyper":
        d.append("geometry:hyperbolic_body")
    if cfg.get("system") == "shearsheet":
        d.append("geometry:shear_boundary_ghost_boxes")
    if cfg.get("system") == "rootboxes":
        d.append("geometry:nonsquare_rootboxes_face")
    if cfg.get("boundary"):
        d.append("geometry:boundary_" + cfg["boundary"])
    if cfg.get("units"):
        d.append("python:units")
    if cfg.get("hashes"):
        d.append("python:hashes_names")
    if cfg.get("display"):
        d.append("python:display_settings")
    if cfg.get("system") in ("big130", "big1030"):
        d.append("scale:allocation_boundary_" + cfg["system"][3:])
    if cfg.get("system") == "n0":
        d.append("scale:N0")
    if cfg.get("system") == "n1":
        d.append("scale:N1")
    if cfg.get("save_after", 0) > 0 and o.get("safe_mode") == 0:
        d.append("histories:unsynchronised_save")
    return d


DIMS_COMMON = ["roles:testparticle_type0", "roles:testparticle_type1", "roles:massive_test_particle", "roles:zero_mass_active",
               "roles:single_active", "roles:massless_and_massive_tp", "variational:order1_nonzero", "variational:order2_nonzero",
               "variational:test_particle", "variational:megno", "options:safe_mode0", "options:keep_unsynchronized", "options:corrector",
               "options:kernel_or_coordinates", "options:adaptive_or_scales_nondefault", "options:G_softening", "time:dt_negative",
               "time:integrate", "time:integrate_eft0", "time:integrate_split", "time:integrate_reverse", "time:t_far_from_zero",
               "callbacks:additional_forces", "callbacks:additional_forces_vel", "callbacks:heartbeat", "callbacks:pre", "callbacks:post", "callbacks:mercurius_L",
               "callbacks:collision_resolve_named", "callbacks:collision_resolve_callable", "histories:rejected_first_steps",
               "histories:close_encounter_or_pericentre", "histories:unsynchronised_save", "geometry:moving_com", "geometry:hyperbolic_body",
               "geometry:shear_boundary_ghost_boxes", "geometry:nonsquare_rootboxes_face", "geometry:boundary_open", "geometry:boundary_periodic",
               "python:units", "python:hashes_names", "python:display_settings", "scale:allocation_boundary_130", "scale:allocation_boundary_1030",
               "scale:N0", "scale:N1", "path:buffer", "path:file", "path:copy", "path:pickle"]


# ============================================================================= pairwise conjunctions
# Explicit FACTORS of the C05 / C17 generators with finite value sets, pair constraints (combinations the code rejects
# or that are meaningless, each with its reason), greedy all-pairs covering arrays and the translation of a factor
# assignment into a replayable configuration.
from collections import OrderedDict

SAFE_INTEGS = ("whfast_jacobi", "whfast_dh", "whfast_whds", "whfast_corr11", "whfast_lazy", "saba", "eos", "mercurius")
KU_INTEGS = ("whfast_jacobi", "whfast_dh", "whfast_whds", "whfast_corr11", "whfast_lazy", "saba")
VAR_INTEGS = {"whfast_jacobi": ("order1", "megno"),      # "WHFast/MEGNO only supports first order", "Test particle variations not supported with WHFast" "ias15": ("order1", "order2", "tpvar", "megno"),
              "leapfrog": ("order1", "order2", "tpvar", "megno"), "bs": ("order1", "order2", "tpvar"), "eos": ("order1", "order2", "megno")}
BOX_MODULES = ("box_tree_tree_periodic", "box_linetree_basic_open", "boxdense_direct_merge", "boxdense_tree_hardsphere")
COLLIDE_MODULES = ("collide_direct_merge", "collide_line_callable") + BOX_MODULES
TREE_MODULES = ("box_tree_tree_periodic", "box_linetree_basic_open", "boxdense_tree_hardsphere")
ARCHIVE_PATHS = ("sa_index", "sim_file_snapshot", "bytes_archive")
FACTORS = OrderedDict([
    ("integ", ["whfast_jacobi", "whfast_dh", "whfast_whds", "whfast_corr11", "whfast_lazy", "saba", "eos", "ias15", "mercurius", "trace", "bs", "janus", "leapfrog"]),
    ("safe", ["na", 0, 1]),
    ("ku", [0, 1]),
    ("roles", ["all_active", "tp_type0", "tp_type1_massive", "single_active", "zero_mass_active"]),
    ("var", ["none", "order1", "order2", "tpvar", "megno"]),
    ("modules", ["planets", "close", "collide_direct_merge", "collide_line_callable"] + list(BOX_MODULES)),
    ("dtsign", ["+", "-"]),
    ("call", ["steps", "integrate", "integrate_eft0", "integrate_split", "integrate_reverse", "outputs"]),
    ("edit", ["none", "mass", "dt", "recalc_flag", "radii", "sync", "remove_add"]),
    ("event", ["none", "removal", "sync", "dt_change", "snapshot_write", "rescale", "merge", "rejected", "encounter"]),
    ("post", ["none", "add", "remove", "mass", "dt", "sync", "switch_reset"]),
    ("path", ["buffer", "file", "copy", "pickle", "sa_index", "sim_file_snapshot", "bytes_archive"]),
    # what happens to the ORIGINAL between snapshot 0 and the difference-encoded snapshot that is restored (archive paths):
    # a plain step, reset_integrator() (every integrator array of snapshot 0 VANISHES: size-0 headers in the delta),
    # removal of a particle (arrays shrink; MERCURIUS / TRACE reset IAS15 / BS), integrator switch with reset
    ("gap", ["na", "step", "reset", "reset_step", "remove_step", "switch_reset_step"]),
    ("cb", ["none", "additional_forces", "heartbeat_pre", "post"]),
    ("save_after", [0, 1, 7]),
    ("kind", ["one", "twin"]),
])

# pair constraints: (factor f, factor g, predicate(a, b) -> True when the pair is EXCLUDED, reason)
PAIR_RULES = [
    ("integ", "safe", lambda a, b: (a in SAFE_INTEGS) != (b != "na"), "safe_mode exists only for WHFast/SABA/EOS/MERCURIUS"),
    ("integ", "ku", lambda a, b: b == 1 and a not in KU_INTEGS, "keep_unsynchronized exists only for WHFast/SABA"),
    ("safe", "ku", lambda a, b: b == 1 and a != 0, "keep_unsynchronized=1 is rejected unless safe_mode=0"),
    ("ku", "edit", lambda a, b: a == 1 and b in ("mass", "remove_add", "recalc_flag"), "keep_unsynchronized=1 means by documentation that edits of the particles between steps are NOT taken into account; structural changes in that mode are undefined"),
    ("ku", "event", lambda a, b: a == 1 and b in ("removal", "merge"), "as above"),
    ("ku", "post", lambda a, b: a == 1 and b in ("add", "remove", "mass", "switch_reset"), "as above"),
    ("integ", "var", lambda a, b: b != "none" and b not in VAR_INTEGS.get(a, ()), "variational particles / MEGNO rejected or unsupported by this integrator"),
    ("integ", "modules", lambda a, b: b in BOX_MODULES and a not in ("leapfrog", "ias15"), "box systems have no dominant central body (Wisdom-Holman type / hybrid integrators need one)"),
    ("integ", "modules", lambda a, b: b in ("collide_direct_merge", "collide_line_callable") and a in ("janus", "saba", "eos"), "collisions are not supported / not defined for JANUS, SABA, EOS"),
    ("integ", "modules", lambda a, b: b == "close" and a not in ("mercurius", "trace", "ias15", "bs"), "the permanent close encounter system is for hybrid / adaptive integrators"),
    ("integ", "dtsign", lambda a, b: b == "-" and a == "trace", "TRACE does not support dt<0 (F10)"),
    ("integ", "call", lambda a, b: b == "integrate_reverse" and a == "trace", "TRACE does not support dt<0 (F10)"),
    ("integ", "event", lambda a, b: b == "rejected" and a not in ("ias15", "bs", "mercurius", "trace"), "only adaptive integrators reject steps"),
    ("integ", "event", lambda a, b: b == "encounter" and a not in ("mercurius", "trace"), "encounters exist only for hybrid integrators"),
    ("modules", "event", lambda a, b: b == "merge" and a not in COLLIDE_MODULES, "a merge needs a collision module"),
    ("modules", "event", lambda a, b: b == "encounter" and a != "close", "the encounter event uses the close system"),
    ("modules", "event", lambda a, b: b == "rejected" and a in BOX_MODULES, "rejected first steps are exercised on the planetary systems"),
    ("var", "event", lambda a, b: b == "rescale" and a not in ("order1", "order2", "megno"), "a rescale event needs variational particles"),
    ("modules", "roles", lambda a, b: a in BOX_MODULES and b != "all_active", "test-particle roles need a central body"),
    ("modules", "var", lambda a, b: a in BOX_MODULES and b != "none", "variational equations are not implemented for tree gravity / box systems"),
    ("modules", "var", lambda a, b: a in ("collide_direct_merge", "collide_line_callable") and b != "none", "merging a particle that has variational partners is not defined"),
    ("roles", "var", lambda a, b: a != "all_active" and b in ("order2", "megno"), "second order / MEGNO variations are set up for the all-active layout"),
    ("modules", "edit", lambda a, b: a in TREE_MODULES and b == "remove_add", "REBOUND cannot remove a particle in a tree and keep the particles sorted (rejected)"),
    ("modules", "event", lambda a, b: a in TREE_MODULES and b == "removal", "as above"),
    ("modules", "post", lambda a, b: a in TREE_MODULES and b == "remove", "as above"),
    ("edit", "integ", lambda a, b: a == "recalc_flag" and b not in ("whfast_jacobi", "whfast_dh", "whfast_whds", "whfast_corr11", "whfast_lazy", "mercurius", "janus"), "documented recalculation flags exist for WHFast, MERCURIUS, JANUS"),
    ("path", "gap", lambda a, b: (a in ARCHIVE_PATHS) != (b != "na"), "the gap between two snapshots exists only on the archive restore paths"),
    ("gap", "modules", lambda a, b: a == "remove_step" and b in TREE_MODULES, "REBOUND cannot remove a particle in a tree and keep the particles sorted (rejected)"),
    ("gap", "var", lambda a, b: a == "remove_step" and b != "none", "removing real particles while variational particles exist is rejected"),
    ("gap", "ku", lambda a, b: a in ("remove_step", "switch_reset_step") and b == 1, "keep_unsynchronized=1: edits of the particles are ignored by design"),
    ("kind", "path", lambda a, b: a == "twin" and b in ("sa_index", "sim_file_snapshot", "bytes_archive"), "the two-snapshot archive paths advance the original inside the path: no never-saved twin"),
    ("modules", "dtsign", lambda a, b: a in COLLIDE_MODULES and b == "-", "line / tree collision searches with dt<0 are another property's matter (C13)"),
    ("modules", "call", lambda a, b: a in COLLIDE_MODULES and b == "integrate_reverse", "as above"),
    ("var", "post", lambda a, b: a != "none" and b in ("add", "remove"), "adding / removing real particles while variational particles exist is rejected"),
    ("var", "edit", lambda a, b: a != "none" and b == "remove_add", "as above"),
    ("var", "event", lambda a, b: a != "none" and b in ("removal", "merge"), "as above"),
]


# constraints on three factors (evaluated on partial assignments; missing factors never trigger)
TRIPLE_RULES = [
    (lambda c_: c_.get("integ") == "trace" and c_.get("event") == "rejected" and c_.get("call") in ("integrate_split", "integrate_reverse", "outputs"),
     "TRACE with a far too large first step overshoots the first target, the next integrate() call then runs backwards: dt<0 is not supported by TRACE (F10, segfault)"),
]


def triple_excluded(partial):
    for pred, reason in TRIPLE_RULES:
        if pred(partial):
            return reason
    return None


_PE_CACHE = {}
_RULES_BY = {}


def pair_excluded(f, a, g, b):
    k_ = (f, a, g, b)
    if k_ in _PE_CACHE:
        return _PE_CACHE[k_]
    if not _RULES_BY:
        for rf, rg, pred, reason in PAIR_RULES:
            _RULES_BY.setdefault((rf, rg), []).append((pred, reason, False))
            _RULES_BY.setdefault((rg, rf), []).append((pred, reason, True))
    out = None
    for pred, reason, swapped in _RULES_BY.get((f, g), ()):
        if (pred(b, a) if swapped else pred(a, b)):
            out = reason
            break
    _PE_CACHE[k_] = out
    return out


def _pair_excluded_uncached(f, a, g, b):
    for rf, rg, pred, reason in PAIR_RULES:
        if (rf, rg) == (f, g) and pred(a, b):
            return reason
        if (rf, rg) == (g, f) and pred(b, a):
            return reason
    return None


def case_valid(case):
    names = list(case)
    for i, f in enumerate(names):
        for g in names[i + 1:]:
            if pair_excluded(f, case[f], g, case[g]):
                return False
    return triple_excluded(case) is None


def completable(factors, partial):
    """is there a complete assignment extending `partial` that violates no pair / triple rule?  Exact search with
    forward checking and smallest-domain-first ordering (plain depth-first search explodes on late conflicts)."""
    if triple_excluded(partial):
        return False
    names0 = list(partial)
    for i, f in enumerate(names0):
        for g in names0[i + 1:]:
            if pair_excluded(f, partial[f], g, partial[g]):
                return False

    def domains(cur):
        dom = {}
        for f in factors:
            if f in cur:
                continue
            vals = [v for v in factors[f] if all(not pair_excluded(f, v, g, cur[g]) for g in cur) and not triple_excluded(dict(cur, **{f: v}))]
            if not vals:
                return None
            dom[f] = vals
        return dom

    def rec(cur):
        dom = domains(cur)
        if dom is None:
            return False
        if not dom:
            return True
        f = min(dom, key=lambda x: len(dom[x]))
        for v in dom[f]:
            cur[f] = v
            if rec(cur):
                del cur[f]
                return True
            del cur[f]
        return False
    return rec(dict(partial))


def all_pairs(factors):
    """(applicable pairs, excluded pairs with reason); a pair that no rule excludes directly but that has no valid
    completion (e.g. keep_unsynchronized=1 x box system: only WHFast/SABA have the option, box systems exclude them)
    is excluded as 'implied'"""
    names = list(factors)
    tot, exc = set(), {}
    for i, f in enumerate(names):
        for g in names[i + 1:]:
            for a in factors[f]:
                for b in factors[g]:
                    r = pair_excluded(f, a, g, b)
                    if r:
                        exc[(f, a, g, b)] = r
                    elif not completable(factors, {f: a, g: b}):
                        exc[(f, a, g, b)] = "implied: no assignment of the other factors is compatible with both values"
                    else:
                        tot.add((f, a, g, b))
    return tot, exc


def case_pairs(case):
    names = list(case)
    return {(f, case[f], g, case[g]) for i, f in enumerate(names) for g in names[i + 1:]}


def covering_array(factors, rng, ncand=60, maxcases=2000):
    """greedy all-pairs: repeatedly pick, among `ncand` random valid candidates seeded with an uncovered pair, the one
    covering most uncovered pairs"""
    tot, exc = all_pairs(factors)
    uncovered = set(tot)
    names = list(factors)
    cases = []
    order = sorted(uncovered, key=lambda p: (str(p)))
    rng.shuffle(order)
    stuck = 0
    while uncovered and len(cases) < maxcases and stuck < 50:
        seedp = next(p for p in order if p in uncovered)
        best, bestn = None, -1
        for _ in range(ncand):
            cand = {}
            cand[seedp[0]], cand[seedp[2]] = seedp[1], seedp[3]
            ok = True
            for f in names:
                if f in cand:
                    continue
                vals = list(factors[f])
                rng.shuffle(vals)
                for v in vals:
                    cand[f] = v
                    if all(not pair_excluded(f, v, g, cand[g]) for g in cand if g != f) and not triple_excluded(cand):
                        break
                else:
                    ok = False
                    break
            if not ok:
                continue
            cand = OrderedDict((f, cand[f]) for f in names)
            n = len(case_pairs(cand) & uncovered)
            if n > bestn:
                best, bestn = cand, n
        if best is None or bestn <= 0:
            stuck += 1
            order.remove(seedp); order.append(seedp)
            if stuck >= 50:
                break
            continue
        stuck = 0
        cases.append(best)
        uncovered -= case_pairs(best)
    return cases, tot, exc, uncovered


def factor_cfg(case):
    """factor assignment -> (cfg, path, k, kind) for Search.one / twin_one"""
    integ = case["integ"]
    o = {}
    name = integ
    if integ.startswith("whfast"):
        name = "whfast"
        o = {"whfast_jacobi": {}, "whfast_dh": {"coordinates": "democraticheliocentric"}, "whfast_whds": {"coordinates": "whds"},
             "whfast_corr11": {"corrector": 11}, "whfast_lazy": {"kernel": "lazy"}}[integ]
    if integ == "eos":
        o = {"phi0": "lf4", "phi1": "lf"}
    if integ == "janus":
        o = {"scale_pos": 1e-14, "scale_vel": 3e-15}
    o = dict(o)
    if case["safe"] != "na":
        o["safe_mode"] = case["safe"]
    if case["ku"] == 1:
        o["keep_unsynchronized"] = 1
    cfg = {"integrator": name, "o": o, "save_after": case["save_after"], "factors": dict(case)}
    if case.get("gap", "na") != "na":
        cfg["gap"] = case["gap"]
    mod = case["modules"]
    cfg.update({"planets": {"system": "planets"}, "close": {"system": "close"},
                "collide_direct_merge": {"system": "collide", "collision": "direct"},
                "collide_line_callable": {"system": "collide", "collision": "line", "resolve": "callable"},
                "box_tree_tree_periodic": {"system": "box", "gravity": "tree", "collision": "tree", "boundary": "periodic"},
                "box_linetree_basic_open": {"system": "box", "gravity": "basic", "collision": "linetree", "boundary": "open"},
                "boxdense_direct_merge": {"system": "boxdense", "gravity": "basic", "collision": "direct", "boundary": "periodic"},
                "boxdense_tree_hardsphere": {"system": "boxdense", "gravity": "none", "collision": "tree", "resolve": "hardsphere", "boundary": "periodic"}}[mod])
    role = case["roles"]
    if role == "tp_type0":
        cfg["testparticles"] = 1
    elif role == "tp_type1_massive":
        cfg["testparticles"] = 2
    elif role in ("single_active", "zero_mass_active"):
        cfg["roles"] = role
    v = case["var"]
    if v == "order1":
        cfg["variational"] = 1
    elif v == "order2":
        cfg["variational"] = 2
    elif v == "tpvar":
        cfg["variational"] = 3
        cfg.setdefault("testparticles", 1)
    elif v == "megno":
        cfg["megno"] = 1
    if case["dtsign"] == "-":
        cfg["dtneg"] = 1
    if case["call"] != "steps":
        cfg["advance"] = case["call"]
    cb = {"none": [], "additional_forces": ["additional_forces"], "heartbeat_pre": ["heartbeat", "pre"], "post": ["post"]}[case["cb"]]
    if cb:
        cfg["cb"] = cb
    pre = []
    ev = case["event"]
    if ev == "removal":
        pre += ["remove_last", "steps:1"]
    elif ev == "sync":
        pre += ["steps:1", "sync"]
    elif ev == "dt_change":
        pre += ["dt", "steps:1"]
    elif ev == "snapshot_write":
        pre += ["save"]
    elif ev == "rescale":
        pre += ["blowup_var", "steps:1"]
    elif ev == "merge":
        pre += ["until_merge"]
    elif ev == "rejected":
        cfg["dt0"] = 3.0
        cfg["save_after"] = max(1, min(cfg["save_after"], 1))
    pre += {"none": [], "mass": ["mass"], "dt": ["dt"], "recalc_flag": ["recalc_flag"], "radii": ["radii"], "sync": ["sync"],
            "remove_add": ["remove_last", "add"]}[case["edit"]]
    if pre:
        cfg["pre"] = pre
    post = {"none": [], "add": ["add"], "remove": ["remove_last"], "mass": ["mass"], "dt": ["dt"], "sync": ["sync"],
            "switch_reset": ["switch:leapfrog"]}[case["post"]]
    if post:
        cfg["post"] = post
    return cfg, case["path"], 6, case["kind"]


def dimension_first(cases, kind_of=lambda cs: cs[3] if len(cs) > 3 else "one"):
    """reorder: a minimal set of cases that touches every dimension tag first (so that a wall-clock budget that cuts
    the tail of the list on a loaded machine cannot leave an applicable dimension at zero), then the rest in order"""
    seen, first, rest = set(), [], []
    for cs in cases:
        tags = set(case_dims(cs[0], cs[1], kind_of(cs)))
        if tags - seen:
            seen |= tags
            first.append(cs)
        else:
            rest.append(cs)
    return first + rest
